"""C14 Pupil masks and sub-aperture selection are exact geometric indicators.

E1: (a) `circle` on the complete quarter-pixel lattice of radii and centres for every size in the
bound and both origins, compared bit for bit with an integer-arithmetic disc (all arguments are
dyadic, so the library's float arithmetic is exact and every distance == radius tie is decided);
nesting, the 8 square symmetries, integer translation and the area bound are checked on the
library's own outputs. (b) sub-aperture selection on ALL 0/1 masks of 2x2..4x4 (and 5x5/6x6 with
few zero cells, and circular pupils) for every sub-aperture count and threshold, against exact
rational cell means. (c) make_subaps_2d scatter -> gather on index-coded data for all masks.
"""
import warnings

import numpy

from mc import Out, Case
from mc.refmodels import geom

PROPERTY = "C14"
LEVEL = "exploration"
TECHNIQUE = ("bounded exhaustive enumeration: complete quarter-pixel lattice of (size, radius, centre, origin) "
             "against an integer-arithmetic disc; all 0/1 masks x sub-aperture counts x thresholds against exact "
             "rational cell means; all masks for the scatter/gather identity")
RULE = ("circle cases = product(size, origin, residue class of the centre modulo one pixel), each holding every "
        "integer translate of the centre and every radius k/4 in [0, size]; subap cases = chunks of the complete "
        "mask enumeration x all sub-aperture counts <= size x all thresholds; a circle case is non-trivial when "
        "size >= 2, a sub-aperture case when the masks are not all constant")
ASSUMPTIONS = [
    "circle is decided on dyadic arguments (multiples of 1/4 pixel; 1/2 pixel centres in the quick tier) where "
    "float arithmetic is exact; non-dyadic radii/centres are only covered by the docstring examples",
    "x of circle_centre runs along the columns and y along the rows (as drawn in the docstring of circle)",
    "'area tends to pi r^2' is decided by the bounded surrogate pi(r-sqrt(.5))^2 <= area <= pi(r+sqrt(.5))^2 on "
    "every enumerated disc lying inside the array plus a ladder r = 1..128 whose end error is below 1e-3",
    "grid cells of a mask whose size is not a multiple of the sub-aperture count are the ones obtained by "
    "round-half-even of k*size/subaps (the rounding the code documents); thresholds are dyadic",
    "sub-aperture counts larger than the mask size (empty cells) are outside the domain",
    "selection is compared as a set of cells (the statement does not fix the order of the returned rows)",
]
ENGINES = ["E1-product-enumeration"]
LEVEL_TEXT = ("Every size 1..9 (quick) / 1..16 (thorough), every radius k/4 in [0,size], every centre of the "
              "1/2 (quick) / 1/4 (thorough) pixel lattice in [-size/2-1, size/2+1]^2 and both origins are "
              "enumerated completely and compared bit for bit with an integer disc; all 66 064 binary masks of "
              "2x2..4x4 with every sub-aperture count and threshold are decided against exact rational means.")
LEVEL_NOTE = ("Trusted: integer arithmetic of numpy int64 and Python Fractions. Not covered: non-dyadic "
              "arguments (except docstring examples), sizes beyond the bound, non-square masks.")

THRESHOLDS = [0.0, 0.25, 0.5, 0.75, 1.0, 1.25]
CHUNK = 512


def _sizes(tier):
    return range(1, 10) if tier == "quick" else range(1, 17)


def _step(tier):
    return 2 if tier == "quick" else 1     # centre lattice in quarter pixels


def _ladder(tier):
    return [1, 2, 4, 8, 16, 32, 64] if tier == "quick" else [1, 2, 4, 8, 16, 32, 64, 128]


def BOUNDS(tier):
    return {"circle_sizes": list(_sizes(tier)), "radius_step": 0.25,
            "centre_step": _step(tier) / 4.0, "centre_range": "[-size/2-1, size/2+1]^2 about the array middle",
            "origins": ["middle", "corner"], "area_ladder_radii": _ladder(tier),
            "mask_sizes_all": [2, 3, 4], "mask_sizes_few_zeros": {"5": _fz(tier, 5), "6": _fz(tier, 6)},
            "thresholds": THRESHOLDS, "scatter_frames": [1, 2],
            "scatter_mask_sizes": [1, 2, 3] if tier == "quick" else [1, 2, 3, 4]}


def _fz(tier, n):
    return 2 if tier == "quick" else 3


def cases(tier):
    yield Case("large", {"kind": "large"})
    for n in (5, 11, 12, 30):
        yield Case("neartie:n=%d" % n, {"kind": "neartie", "n": n})
    # grey (apodised / soft-edged) masks: every mask over {0, 1/2, 1} on 2x2 and 3x3
    yield Case("grey:n=2:codes=0-80", {"kind": "grey", "n": 2, "lo": 0, "hi": 81})
    for lo in range(0, 3 ** 9, 2500 if tier == "quick" else 1000):
        hi = min(3 ** 9, lo + (2500 if tier == "quick" else 1000))
        # quick: every 5th mask of the 19683 (3 is coprime to 5, so every cell takes every value in every
        # context of its neighbours' low digits); thorough: all of them
        yield Case("grey:n=3:codes=%d-%d" % (lo, hi - 1), {"kind": "grey", "n": 3, "lo": lo, "hi": hi,
                                                           "step": 5 if tier == "quick" else 1})
    yield Case("storage", {"kind": "storage"})
    step = _step(tier)
    for n in _sizes(tier):
        for origin in ("middle", "corner"):
            for qx in range(0, 4, step):
                for qy in range(0, 4, step):
                    yield Case("circle:n=%d:%s:q=%d,%d" % (n, origin, qx, qy),
                               {"kind": "circle", "n": n, "origin": origin, "qx": qx, "qy": qy}, n >= 2)
    yield Case("circle:docstring", {"kind": "docstring"})
    for r in _ladder(tier):
        yield Case("area:r=%d" % r, {"kind": "area", "r": r})
    # sub-aperture selection: all masks
    for n in (2, 3, 4):
        total = 1 << (n * n)
        for lo in range(0, total, CHUNK):
            hi = min(total, lo + CHUNK)
            if n == 4 and tier == "quick":
                sub = [1, 2]
            else:
                sub = list(range(1, n + 1))
            yield Case("subaps:n=%d:codes=%d-%d" % (n, lo, hi - 1),
                       {"kind": "subaps", "n": n, "codes": ("range", lo, hi), "subaps": sub})
    if tier == "quick":
        for part in range(8):
            yield Case("subaps:n=4:sparse:part=%d" % part,
                       {"kind": "subaps", "n": 4, "codes": ("sparse", 3, part, 8), "subaps": [3, 4]})
    for n in (5, 6):
        z = _fz(tier, n)
        codes = list(geom.codes_with_few_zeros(n, z))
        per = 128
        for k in range(0, len(codes), per):
            yield Case("subaps:n=%d:zeros<=%d:part=%d" % (n, z, k // per),
                       {"kind": "subaps", "n": n, "codes": ("fewzeros", z, k, k + per),
                        "subaps": list(range(1, n + 1))})
    for n in ((6, 8, 9) if tier == "quick" else (6, 7, 8, 9, 10, 12, 16)):
        yield Case("subaps:pupil:n=%d" % n, {"kind": "pupil", "n": n})
    for n in ((1, 2, 3) if tier == "quick" else (1, 2, 3, 4)):
        total = 1 << (n * n)
        for lo in range(0, total, 8192):
            yield Case("scatter:n=%d:codes=%d-%d" % (n, lo, min(total, lo + 8192) - 1),
                       {"kind": "scatter", "n": n, "lo": lo, "hi": min(total, lo + 8192)}, n >= 2)


def evaluate(p):
    if p["kind"] == "large":
        return _large(p)
    if p["kind"] == "neartie":
        return _neartie(p)
    if p["kind"] == "grey":
        return _grey(p)
    if p["kind"] == "storage":
        return _storage(p)
    kind = p["kind"]
    with warnings.catch_warnings():
        warnings.simplefilter("ignore")
        if kind == "circle":
            return _circle(p)
        if kind == "docstring":
            return _docstring()
        if kind == "area":
            return _area(p["r"])
        if kind == "subaps":
            return _subaps(p)
        if kind == "pupil":
            return _pupil(p["n"])
        return _scatter(p)


# ----------------------------------------------------------------------------- circle

def _circle(p):
    import aotools
    from aotools.functions import pupil
    o = Out()
    n, origin, qx, qy = p["n"], p["origin"], p["qx"], p["qy"]
    o.check("same_function_all_paths", aotools.circle is pupil.circle and aotools.functions.circle is pupil.circle)
    mid = 2 * n if origin == "corner" else 0           # array middle in quarter pixels
    lo, hi = mid - 2 * n - 4, mid + 2 * n + 4
    xs = [c for c in range(lo, hi + 1) if (c - lo) % 4 == qx]
    ys = [c for c in range(lo, hi + 1) if (c - lo) % 4 == qy]
    rs = list(range(0, 4 * n + 1))
    lib = numpy.zeros((len(xs), len(ys), len(rs), n, n), dtype=bool)
    bad_values = 0
    for ix, cx in enumerate(xs):
        for iy, cy in enumerate(ys):
            c = (cx / 4.0, cy / 4.0)
            for ir, r4 in enumerate(rs):
                m = pupil.circle(r4 / 4.0, n, c, origin)
                if m.shape != (n, n) or m.dtype != numpy.float64 or not numpy.all((m == 0) | (m == 1)):
                    bad_values += 1
                    continue
                lib[ix, iy, ir] = (m == 1)
    ncall = len(xs) * len(ys) * len(rs)
    o.stat("lib_calls", ncall)
    o.check("binary_float64_square", bad_values == 0, detail="%d outputs" % bad_values, n=ncall)
    # --- integer oracle, all radii at once
    r2 = numpy.array(rs, dtype=numpy.int64) ** 2
    nbad, first = 0, None
    for ix, cx in enumerate(xs):
        for iy, cy in enumerate(ys):
            D = geom.squared_distance_q(n, cx, cy, origin)
            ref = D[None, :, :] <= r2[:, None, None]
            diff = ref != lib[ix, iy]
            if diff.any():
                k = int(numpy.argmax(diff.reshape(len(rs), -1).any(axis=1)))
                nbad += int(diff.reshape(len(rs), -1).any(axis=1).sum())
                if first is None:
                    first = {"r": rs[k] / 4.0, "centre": (cx / 4.0, cy / 4.0),
                             "lib": lib[ix, iy, k].astype(int), "ref": ref[k].astype(int)}
    o.check("exact_indicator", nbad == 0, measure=nbad, tol=0, detail=first, n=ncall)
    # --- nested in r (on the library's outputs)
    viol = lib[:, :, :-1] & ~lib[:, :, 1:]
    o.check("nested_in_radius", not viol.any(), measure=int(viol.any(axis=(-1, -2)).sum()), tol=0,
            n=len(xs) * len(ys) * (len(rs) - 1))
    # --- integer translation of the centre: content moves by the same number of pixels
    if n >= 2:
        tx = lib[1:, :, :, :, 1:] != lib[:-1, :, :, :, :-1]      # c_x + 1  -> one column to the right
        ty = lib[:, 1:, :, 1:, :] != lib[:, :-1, :, :-1, :]      # c_y + 1  -> one row down
        o.check("translates_with_centre", not (tx.any() or ty.any()),
                measure=int(tx.any(axis=(-1, -2)).sum() + ty.any(axis=(-1, -2)).sum()), tol=0,
                n=tx.shape[0] * tx.shape[1] * tx.shape[2] + ty.shape[0] * ty.shape[1] * ty.shape[2])
    # --- symmetric under the square's symmetries when centred
    if mid in xs and mid in ys:
        ix, iy = xs.index(mid), ys.index(mid)
        nb = 0
        for ir in range(len(rs)):
            a = lib[ix, iy, ir]
            nb += sum(1 for s in geom.square_symmetries(a) if not numpy.array_equal(s, a))
        o.check("square_symmetries_centred", nb == 0, measure=nb, tol=0, n=8 * len(rs))
    # --- area bound for every disc that lies inside the array
    worst = 0.0
    nin = 0
    for ix, cx in enumerate(xs):
        for iy, cy in enumerate(ys):
            for ir, r4 in enumerate(rs):
                gx, gy = cx - mid + 2 * n, cy - mid + 2 * n      # from the array corner
                if min(gx, gy) - r4 < 0 or max(gx, gy) + r4 > 4 * n:
                    continue
                nin += 1
                a = float(lib[ix, iy, ir].sum())
                lo_a, hi_a = geom.area_bounds(r4 / 4.0)
                worst = max(worst, lo_a - a, a - hi_a)
    if nin:
        o.check("area_bounds_inside", worst <= 1e-9, measure=worst, tol=1e-9, n=nin)
    o.outcome(numpy.packbits(lib))
    return o


def _docstring():
    """the examples drawn in the docstring (includes the non-dyadic radius 0.8)"""
    from aotools.functions import pupil
    o = Out()
    ex = {
        (1, 5): "00000 00100 01110 00100 00000", (0, 5): "00000 00000 00100 00000 00000",
        (2, 5): "00100 01110 11111 01110 00100", (0, 4): "0000 0000 0000 0000",
        (0.8, 4): "0000 0110 0110 0000", (2, 4): "0110 1111 1111 0110",
    }
    for (r, n), s in ex.items():
        want = numpy.array([[int(ch) for ch in row] for row in s.split()])
        got = pupil.circle(r, n)
        o.stat("lib_calls", 1)
        o.check("docstring_examples", numpy.array_equal(got, want), sub="r=%g,n=%d" % (r, n))
        o.check("exact_indicator_rational", numpy.array_equal(got == 1, geom.disc_fraction(n, r)),
                sub="r=%g,n=%d" % (r, n))
    for n, s in ((5, "00000 00000 00110 00110 00000"), (4, "0000 0010 0111 0010")):
        want = numpy.array([[int(ch) for ch in row] for row in s.split()])
        got = pupil.circle(1, n, (0.5, 0.5))
        o.stat("lib_calls", 1)
        o.check("docstring_examples", numpy.array_equal(got, want), sub="r=1,n=%d,c=(.5,.5)" % n)
    # asymmetric centre: x is the column direction
    got = pupil.circle(0.5, 4, (1.5, -0.5))
    o.stat("lib_calls", 1)
    want = numpy.zeros((4, 4))
    want[1, 3] = 1
    o.check("x_along_columns", numpy.array_equal(got, want), detail=got)
    return o


def _area(r):
    """area -> pi r^2: a centred and an off-centre disc of radius r, r + 1/4, r + 1/2 inside the array"""
    from aotools.functions import pupil
    o = Out()
    worst_rel = 0.0
    for r4 in (4 * r, 4 * r + 1, 4 * r + 2):
        rr = r4 / 4.0
        n = 2 * r + 4
        for c in ((0.0, 0.0), (0.25, -0.5), (0.5, 0.5)):
            m = pupil.circle(rr, n, c)
            o.stat("lib_calls", 1)
            ref = geom.disc_q(n, r4, int(c[0] * 4), int(c[1] * 4))
            o.check("exact_indicator", numpy.array_equal(m == 1, ref), sub="r=%g,c=%s" % (rr, c))
            a = float(m.sum())
            lo_a, hi_a = geom.area_bounds(rr)
            o.check("area_bounds_inside", lo_a - 1e-9 <= a <= hi_a + 1e-9, sub="r=%g,c=%s" % (rr, c),
                    measure=max(lo_a - a, a - hi_a), tol=1e-9)
            worst_rel = max(worst_rel, abs(a / (numpy.pi * rr * rr) - 1.0))
    o.note("area_rel_err_r=%d" % r, worst_rel)
    return o


def finalize(tier, results):
    """ladder: relative area error below its analytic envelope at every rung, below 1e-3 at the end"""
    o = Out()
    lad = _ladder(tier)
    errs = []
    for r in lad:
        res = results.get("area:r=%d" % r)
        if res is None:
            return None
        errs.append(float(res.notes["area_rel_err_r=%d" % r]))
    for r, e in zip(lad, errs):
        env = (2 ** 0.5 * (r + 0.5) + 0.5) / (r * r)
        o.check("area_ladder_envelope", e <= env + 1e-9, sub="r=%d" % r, measure=e, tol=env)
    for k in range(1, len(lad)):
        o.check("area_ladder_nonincreasing", errs[k] <= errs[k - 1], sub="r=%d" % lad[k],
                measure=errs[k] - errs[k - 1], tol=0.0)
    o.close("area_ladder_end", errs[-1], 1.0 / lad[-1], sub="r=%d" % lad[-1])
    o.note("area_ladder", dict(zip(map(str, lad), errs)))
    return o


# ----------------------------------------------------------------------------- sub-apertures

def _codes(spec, n):
    if spec[0] == "range":
        return list(range(spec[1], spec[2]))
    if spec[0] == "sparse":
        full = (1 << (n * n)) - 1
        few = list(geom.codes_with_few_zeros(n, spec[1]))
        return sorted(set(few) | set(full ^ c for c in few))[spec[2]::spec[3]]
    if spec[0] == "fewzeros":
        return list(geom.codes_with_few_zeros(n, spec[1]))[spec[2]:spec[3]]
    raise ValueError(spec)


class _Agg(object):
    """per (clause, sub) counters: failing ids are (clause, case, sub-aperture count, threshold),
    the first offending mask goes into the detail"""

    def __init__(self):
        self.d = {}

    def add(self, clause, sub, ok, detail=None, measure=None):
        e = self.d.setdefault((clause, sub), [0, 0, None, None])
        e[0] += 1
        if measure is not None and (e[3] is None or measure > e[3]):
            e[3] = measure
        if not ok:
            e[1] += 1
            if e[2] is None:
                e[2] = detail() if callable(detail) else detail

    def flush(self, o):
        for (clause, sub), (n, bad, det, meas) in sorted(self.d.items()):
            if bad and det is not None:
                det = dict(det, inputs_failing=bad)
            o.check(clause, bad == 0, sub=None if bad == 0 else sub, detail=det, n=n,
                    measure=meas if meas is not None else (bad if bad else None),
                    tol=1e-12 if meas is not None else None)


def _check_selection(o, agg, wfslib, mask_int, subaps_list, label, unit=1):
    """all thresholds x sub-aperture counts for one mask; records into the aggregator.
    The mask handed to the library is mask_int / unit (unit 2: grey masks with values 0, 1/2, 1)."""
    n = mask_int.shape[0]
    mask = mask_int.astype(float) / unit
    for s in subaps_list:
        ones, size = geom.cell_counts(mask_int, s)
        if (size == 0).any():
            continue            # empty cells: outside the domain
        size = size * unit
        sp = n / float(s)
        means = ones / size      # correctly rounded quotients of integers
        prev = None
        for t in THRESHOLDS:
            coords, fills = wfslib.findActiveSubaps(s, mask.copy(), t, returnFill=True)
            o.stat("lib_calls", 1)
            want = geom.active_cells_int(ones, size, t)
            coords = numpy.asarray(coords, dtype=float).reshape(-1, 2)
            idx = numpy.rint(coords / sp).astype(int)
            got = [(int(a), int(b)) for a, b in idx]
            sub = "subaps=%d:thr=%g" % (s, t)
            ok = sorted(got) == want and len(set(got)) == len(got)
            agg.add("active_cells_exact", sub, ok,
                    lambda: {"mask": mask_int, "which": label, "got": got, "want": want})
            if ok:
                cerr = float(numpy.max(numpy.abs(coords - (idx * n) / s))) if len(got) else 0.0
                agg.add("cell_coordinates", sub, cerr <= 1e-12, {"mask": mask_int, "coords": coords}, measure=cerr)
                fw = means[idx[:, 0], idx[:, 1]] if len(got) else numpy.zeros(0)
                okf = numpy.array_equal(numpy.asarray(fills, dtype=float), fw)
                agg.add("fills_are_cell_means", sub, okf,
                        lambda: {"mask": mask_int, "which": label, "fills": fills, "want": fw})
                if n % s == 0 and len(got):
                    ff = wfslib.computeFillFactor(mask.copy(), coords.copy(), n // s)
                    o.stat("lib_calls", 1)
                    okc = numpy.array_equal(numpy.asarray(ff, dtype=float), numpy.asarray(fills, dtype=float))
                    agg.add("fills_equal_computeFillFactor", sub, okc,
                            lambda: {"mask": mask_int, "which": label, "fills": fills, "recomputed": ff})
            gs = set(got)
            if prev is not None:
                agg.add("shrinks_with_threshold", sub, gs <= prev, {"mask": mask_int, "which": label})
            prev = gs
        # returnFill=False gives the same coordinates (one threshold)
        c2 = numpy.asarray(wfslib.findActiveSubaps(s, mask.copy(), 0.5), dtype=float).reshape(-1, 2)
        o.stat("lib_calls", 1)
        want = geom.active_cells_int(ones, size, 0.5)
        got2 = [(int(a), int(b)) for a, b in numpy.rint(c2 / sp).astype(int)]
        agg.add("same_cells_without_fill", "subaps=%d" % s, sorted(got2) == want, {"mask": mask_int, "which": label})


def _subaps(p):
    from aotools.wfs import wfslib
    import aotools
    o = Out()
    o.check("same_function_all_paths", aotools.wfs.findActiveSubaps is wfslib.findActiveSubaps)
    n = p["n"]
    agg = _Agg()
    for c in _codes(p["codes"], n):
        m = geom.mask_from_code(n, c)
        _check_selection(o, agg, wfslib, m, p["subaps"], "code=%d" % c)
    agg.flush(o)
    return o


def _pupil(n):
    """circular (and annular) pupils from the library's own circle, all sub-aperture counts"""
    from aotools.wfs import wfslib
    from aotools.functions import pupil
    o = Out()
    seen = set()
    agg = _Agg()
    for r4 in range(2, 2 * n + 3):
        for c in ((0.0, 0.0), (0.5, 0.0), (0.25, -0.75)):
            m = pupil.circle(r4 / 4.0, n, c)
            o.stat("lib_calls", 1)
            for obs4 in (0, r4 // 3):
                mm = m - pupil.circle(obs4 / 4.0, n, c) if obs4 else m
                mi = mm.astype(numpy.int64)
                key = mi.tobytes()
                if key in seen or mi.min() < 0:
                    continue
                seen.add(key)
                _check_selection(o, agg, wfslib, mi, [s for s in range(1, min(n, 8) + 1)],
                                 "r=%g,c=%s,obs=%g" % (r4 / 4.0, c, obs4 / 4.0))
    agg.flush(o)
    o.outcome(sorted(seen))
    return o


# ----------------------------------------------------------------------------- scatter / gather

def _scatter(p):
    from aotools.wfs import wfslib
    o = Out()
    n = p["n"]
    agg = _Agg()
    for c in range(p["lo"], p["hi"]):
        mi = geom.mask_from_code(n, c)
        ns = int(mi.sum())
        for frames in (1, 2):
            # every way a 0/1 mask is commonly stored x slope dtype; the slopes are not whole numbers, so a
            # result array that takes the mask's dtype truncates them
            for mdtype, ddtype in ((float, float), (numpy.int64, numpy.int64), (numpy.int64, float), (bool, float),
                                   (numpy.uint8, float), (numpy.float32, float), (float, numpy.float32),
                                   (bool, numpy.complex128)):
                if (mdtype, ddtype) != (float, float) and frames == 2:
                    continue
                data = (1 + numpy.arange(ns)[None, None, :] + 100 * numpy.arange(2)[None, :, None]
                        + 1000 * numpy.arange(frames)[:, None, None])
                if ddtype is not numpy.int64:
                    data = data + 0.37
                if ddtype is numpy.complex128:
                    data = data + 0.5j
                data = data.astype(ddtype)
                mask = mi.astype(mdtype)
                out = numpy.asarray(wfslib.make_subaps_2d(data.copy(), mask.copy()))
                o.stat("lib_calls", 1)
                ok = out.shape == (frames, 2, n, n)
                back = out[:, :, mi.astype(bool)] if ok else None
                ok = ok and back.shape == data.shape and numpy.array_equal(back, data)
                agg.add("scatter_gather_identity", "frames=%d:%s:mask=%s" % (frames, numpy.dtype(ddtype).name,
                                                                            numpy.dtype(mdtype).name), ok,
                        {"mask": mi, "code": c, "out": out})
    agg.flush(o)
    return o


def _storage(p):
    """masks are 0/1 arrays whatever their dtype or memory layout: selection, fill factors and the scatter of
    slopes must not depend on how the mask is stored; circle() must accept numpy scalars for its arguments"""
    from mc import variants
    from aotools.wfs import wfslib
    from aotools.functions import pupil
    o = Out()
    mask = numpy.array(pupil.circle(5.5, 12) - pupil.circle(1.5, 12))
    kinds = ("float32", "int64", "int32", "uint8")
    for subaps in (3, 4, 6):
        for thr in (0.0, 0.5, 1.0):
            for fill in (False, True):
                f = (lambda a: wfslib.findActiveSubaps(subaps, a, thr, returnFill=True)) if fill else \
                    (lambda a: wfslib.findActiveSubaps(subaps, a, thr))
                n = variants.check_storage(o, "selection_independent_of_mask_storage", f, mask, 1e-12,
                                           sub="subaps=%d:thr=%g:fill=%s" % (subaps, thr, fill), kinds=kinds)
                o.stat("lib_calls", n)
            n = variants.check_storage(o, "selection_independent_of_mask_storage",
                                       lambda a: wfslib.findActiveSubaps(subaps, a.astype(bool), thr), mask, 1e-12,
                                       sub="subaps=%d:thr=%g:bool" % (subaps, thr), kinds=(), with_layouts=True)
            o.stat("lib_calls", n)
    # boolean masks (pupil > 0) and narrow integer masks with many pixels per sub-aperture (a per-cell sum that is
    # taken in the mask's own dtype saturates / wraps): against the same mask stored as float64
    for size, r_out, r_in, subaps_list in ((12, 5.5, 1.5, (2, 3, 4, 6)), (64, 30.0, 9.0, (2, 4, 8)), (96, 44.0, 0.0, (3, 4, 6))):
        mk = numpy.array(pupil.circle(r_out, size) - (pupil.circle(r_in, size, (2, -1)) if r_in else 0))
        for subaps in subaps_list:
            for thr in (0.0, 0.3, 0.5, 1.0):
                want = wfslib.findActiveSubaps(subaps, mk.astype(float), thr, returnFill=True)
                for dt in (bool, numpy.uint8, numpy.int8, numpy.int16, numpy.float32):
                    got = wfslib.findActiveSubaps(subaps, mk.astype(dt), thr, returnFill=True)
                    o.stat("lib_calls", 1)
                    ok = len(got) == len(want) and all(numpy.asarray(g).shape == numpy.asarray(w).shape and
                                                       numpy.allclose(numpy.asarray(g, dtype=float), numpy.asarray(w, dtype=float), rtol=0, atol=1e-6)
                                                       for g, w in zip(got, want))
                    o.check("selection_independent_of_mask_storage", ok, sub="size=%d:subaps=%d:thr=%g:%s" % (size, subaps, thr, numpy.dtype(dt).name))
    pos = numpy.array([[0., 0.], [3., 3.], [6., 3.], [9., 9.]])
    n = variants.check_storage(o, "selection_independent_of_mask_storage",
                               lambda a: wfslib.computeFillFactor(a, pos, 3), mask, 1e-12, sub="fill", kinds=kinds)
    o.stat("lib_calls", n)
    # the scatter of slopes into the 2-d map for a mask that is NOT equal to its transpose, in every memory layout
    amask = numpy.array(pupil.circle(4.2, 12, (1.5, -2.0)) - pupil.circle(1.2, 12, (2.5, 0.0)))
    ns = int(amask.sum())
    slopes = 0.37 + numpy.arange(2 * 2 * ns, dtype=float).reshape(2, 2, ns)
    n = variants.check_storage(o, "scatter_independent_of_mask_storage", lambda a: wfslib.make_subaps_2d(slopes.copy(), a),
                               amask, 0.0, sub="asymmetric", kinds=("int64", "uint8", "float32"))
    n += variants.check_storage(o, "scatter_independent_of_slope_storage", lambda a: wfslib.make_subaps_2d(a, amask.copy()),
                                slopes, 0.0, sub="asymmetric", kinds=())
    for subaps in (3, 4):
        n += variants.check_storage(o, "selection_independent_of_mask_storage", lambda a: wfslib.findActiveSubaps(subaps, a, 0.4, returnFill=True),
                                    amask, 1e-12, sub="asymmetric:subaps=%d" % subaps, kinds=kinds)
    o.stat("lib_calls", n)
    # numpy scalars as circle arguments
    for r, nn, c in ((2.5, 6, (0.5, -0.5)), (3, 7, (1, 0)), (1.25, 5, (0, 0))):
        want = numpy.asarray(pupil.circle(r, nn, c))
        for tname, cast in (("np_float64", numpy.float64), ("np_float32", numpy.float32)):
            got = numpy.asarray(pupil.circle(cast(r), numpy.int64(nn), (cast(c[0]), cast(c[1]))))
            o.stat("lib_calls", 1)
            o.check("circle_accepts_numpy_scalars", got.shape == want.shape and numpy.array_equal(got, want),
                    sub="r=%g:n=%d:%s" % (r, nn, tname))
    return o


def _grey(p):
    """selection, fill factors and the recomputed fill factors on masks that are not 0/1: the mean mask value
    of a cell is the quantity the statement talks about, for apodised or soft-edged pupils too"""
    from aotools.wfs import wfslib
    o = Out()
    n = p["n"]
    agg = _Agg()
    for code in range(p["lo"], p["hi"], p.get("step", 1)):
        digits = []
        c = code
        for _ in range(n * n):
            digits.append(c % 3)
            c //= 3
        mi = numpy.array(digits, dtype=numpy.int64).reshape(n, n)
        _check_selection(o, agg, wfslib, mi, [s for s in range(1, n + 1)], "grey code %d" % code, unit=2)
    agg.flush(o)
    o.stat("nontrivial", p["hi"] - p["lo"])
    return o


def _large(p):
    """sizes beyond the exhaustive alphabets: circle() on 130- and 259-pixel grids against the integer disc,
    sub-aperture selection on a 130-pixel annular pupil with 65, 26, 13 and 10 sub-apertures across"""
    from aotools.functions import pupil
    from aotools.wfs import wfslib
    o = Out()
    for n in (130, 259):
        for r4, c4, origin in ((4 * n // 2, (0, 0), "middle"), (4 * n // 3 + 1, (6, -10), "middle"),
                               (4 * 40 + 2, (4 * 50, 4 * 70 + 2), "corner"), (4 * n, (2, 2), "middle")):
            got = numpy.asarray(pupil.circle(r4 / 4.0, n, (c4[0] / 4.0, c4[1] / 4.0), origin))
            want = geom.disc(n, r4, c4, origin) if hasattr(geom, "disc") else None
            o.stat("lib_calls", 1)
            if want is None:
                # integer oracle coded here: pixel centres at i + 1/2, quarter-pixel units
                k = numpy.arange(n)
                if origin == "middle":
                    x = 4 * k + 2 - 2 * n
                else:
                    x = 4 * k + 2
                dx = (x - c4[0])[:, None] if False else None
                X = (x - c4[0])
                Y = (x - c4[1])
                want = ((X[None, :] ** 2 + Y[:, None] ** 2) <= r4 * r4)
            o.check("exact_indicator_large", got.shape == (n, n) and numpy.array_equal(got.astype(bool), want),
                    sub="n=%d:r=%g:c=%s:%s" % (n, r4 / 4.0, (c4[0] / 4.0, c4[1] / 4.0), origin),
                    detail=int(numpy.sum(got.astype(bool) != want)) if got.shape == (n, n) else got.shape)
    mi = (numpy.asarray(pupil.circle(60, 130)) - numpy.asarray(pupil.circle(17.5, 130, (3, -2)))).astype(numpy.int64)
    agg = _Agg()
    _check_selection(o, agg, wfslib, mi, [65, 26, 13, 10, 7], "annulus 130")
    agg.flush(o)
    return o


def _neartie(p):
    """'for arbitrary real r and c': radii a hair below and above every distance a pixel centre actually attains
    (relative offsets 1e-9 and 1e-13, far above float64 rounding of x^2 + y^2, far below single precision), for
    centres on the quarter-pixel lattice; and one disc whose radius and centre are millions of pixels away.  The
    pixels AT the attained distance are outside the smaller disc and inside the larger one."""
    from aotools.functions import pupil
    o = Out()
    n = p["n"]
    worst_bad = 0
    for origin in ("middle", "corner"):
        for (cx4, cy4) in ((0, 0), (2, 0), (1, -3), (4, 6)):
            d2 = geom.squared_distance_q(n, cx4, cy4, origin)          # integers, units (1/4 px)^2
            cc = (cx4 / 4.0, cy4 / 4.0)
            for v in numpy.unique(d2):
                if v == 0:
                    continue
                r = float(numpy.sqrt(float(v))) / 4.0
                for eps, want in ((-1e-9, d2 < v), (-1e-13, d2 < v), (1e-13, d2 <= v), (1e-9, d2 <= v)):
                    got = numpy.asarray(pupil.circle(r * (1.0 + eps), n, cc, origin))
                    o.stat("lib_calls", 1)
                    ok = got.shape == (n, n) and numpy.array_equal(got.astype(bool), want)
                    if not ok:
                        worst_bad += 1
                        if worst_bad <= 12:
                            o.check("exact_indicator_near_ties", False,
                                    sub="%s:c=%s:r=sqrt(%d)/4*(1%+g)" % (origin, cc, int(v), eps),
                                    detail="%d pixels differ" % (int(numpy.sum(got.astype(bool) != want)) if got.shape == (n, n) else -1))
    if worst_bad == 0:
        o.check("exact_indicator_near_ties", True)
    elif worst_bad > 12:
        o.check("exact_indicator_near_ties", False, sub="(more)", detail="%d failing (r, c) in all" % worst_bad)
    # far-away disc: r = 2^23 px, centre 2^23 + 20.25 px to the right of the corner (all values exact in float64)
    R = 2 ** 23
    k = numpy.arange(n)
    for dx4 in (81, 82, 4 * 20 + 3):                     # centre at 2^23 + 20.25 / 20.5 / 20.75
        cx4, cy4 = 4 * R + dx4, 12
        X = (4 * k + 2 - cx4).astype(object)
        Y = (4 * k + 2 - cy4).astype(object)
        want = numpy.array([[int(X[i]) ** 2 + int(Y[j]) ** 2 <= (4 * R) ** 2 for i in range(n)] for j in range(n)])
        got = numpy.asarray(pupil.circle(float(R), n, (cx4 / 4.0, cy4 / 4.0), "corner"))
        o.stat("lib_calls", 1)
        o.check("exact_indicator_far_centre", got.shape == (n, n) and numpy.array_equal(got.astype(bool), want),
                sub="cx=2^23+%g" % (dx4 / 4.0), detail=int(numpy.sum(got.astype(bool) != want)) if got.shape == (n, n) else None)
    return o
