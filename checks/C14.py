"""C14 Pupil masks and sub-aperture selection are exact geometric indicators.

E1: (a) `circle` on the complete quarter-pixel lattice of radii and centres for every size in the
bound and both origins, compared with an integer-arithmetic disc (all arguments are
dyadic, so the library's float arithmetic is exact and every distance == radius tie is decided);
nesting, the 8 square symmetries, integer translation and the area bound are checked on the
library's own outputs; near ties for non-dyadic radii and centres against exact rationals; spot sizes up
to 2050 / 4100. (b) sub-aperture selection on ALL 0/1 masks of 2x2..4x4 and 2x3..4x3 (and 5x5/6x6 with
few zero cells, circular pupils, grey masks, spot sizes 130 / 1040) for every sub-aperture count and
threshold, against exact rational cell means. (c) make_subaps_2d scatter -> gather on index-coded data
for all masks. (d) call histories on caller-owned arrays, other calling conventions.
"""
import warnings

import numpy

from mc import Out, Case
from mc.refmodels import geom

PROPERTY = "C14"
LEVEL = "exploration"
TECHNIQUE = ("bounded exhaustive enumeration: complete quarter-pixel lattice of (size, radius, centre, origin) "
             "against an integer-arithmetic disc; all 0/1 masks x sub-aperture counts x thresholds against exact "
             "rational cell means; all masks for the scatter/gather identity")
RULE = ("circle cases = product(size, origin, residue class of the centre modulo one pixel), each holding every "
        "integer translate of the centre and every radius k/4 in [0, size]; subap cases = chunks of the complete "
        "mask enumeration x all sub-aperture counts <= size x all thresholds; a circle case is non-trivial when "
        "size >= 2, a sub-aperture case when the masks are not all constant")
ASSUMPTIONS = [
    "circle is decided on dyadic arguments (multiples of 1/4 pixel; 1/2 pixel centres in the quick tier) where "
    "float arithmetic is exact; non-dyadic radii / centres are decided at a relative distance of at least 1e-13 "
    "(radii, dyadic centres) / 1e-11 (non-dyadic centres) from every distance == radius tie, against exact rational "
    "arithmetic on the values of the floats handed over",
    "x of circle_centre runs along the columns and y along the rows (as drawn in the docstring of circle)",
    "masks are 0/1 valued numeric arrays (differences, products and means of them are numbers); no particular "
    "dtype is demanded",
    "'area tends to pi r^2' is decided by the bounded surrogate pi(r-sqrt(.5))^2 <= area <= pi(r+sqrt(.5))^2 on "
    "every enumerated disc lying inside the array plus a ladder r = 1..64 (quick) / 1..128 (thorough) whose relative "
    "error stays under its analytic envelope, does not increase and ends below 1/r_last",
    "grid cells: edge k of a cell is the integer nearest to the exact k*size/subaps; where that position is a "
    "half-integer the statement fixes no rule and the library's own choice (read off one probe mask per edge through "
    "findActiveSubaps) is used; the label of a cell is k*size/subaps, within half a pixel when size is not a "
    "multiple of the count; thresholds are dyadic",
    "fill factors are compared up to 32 ulp (the cell sums are exact, the mean may be evaluated in several ways); a "
    "cell whose exact mean EQUALS the threshold must be selected when the float mean is exact in every order of "
    "evaluation (constant cells, cells of 2^a x 2^b pixels), otherwise either decision is accepted",
    "sub-aperture counts larger than the mask size (empty cells) are outside the domain",
    "selection is compared as a set of cells (the statement does not fix the order of the returned rows)",
    "call histories: a result the caller edits in place and a mask / slope array the caller edits between calls "
    "must not change what later calls return (the statement speaks of the values of the current arguments)",
]
ENGINES = ["E1-product-enumeration"]
LEVEL_TEXT = ("Every size 1..9 (quick) / 1..16 (thorough), every radius k/4 in [0,size], every centre of the "
              "1/2 (quick) / 1/4 (thorough) pixel lattice in [-size/2-1, size/2+1]^2 and both origins are "
              "enumerated completely and compared with an integer disc; all 66 064 binary masks of 2x2..4x4 "
              "(quick: 4x4 with every count only on the masks with at most 3 zeros or ones) and all 8 832 masks of "
              "2x3..4x3 with every sub-aperture count and threshold are decided against exact rational means.")
LEVEL_NOTE = ("Trusted: integer arithmetic of numpy int64 and Python Fractions. Not covered: radii / centres closer "
              "than 1e-13 (relative) to a tie unless dyadic, sizes beyond the spot sizes in the bounds, "
              "non-square masks beyond 4x3 except the listed spot shapes, mask values that are not dyadic.")

THRESHOLDS = [0.0, 0.25, 0.5, 0.75, 1.0, 1.25]
CHUNK = 512


def _sizes(tier):
    return range(1, 10) if tier == "quick" else range(1, 17)


def _step(tier):
    return 2 if tier == "quick" else 1     # centre lattice in quarter pixels


def _ladder(tier):
    return [1, 2, 4, 8, 16, 32, 64] if tier == "quick" else [1, 2, 4, 8, 16, 32, 64, 128]


def _large_sizes(tier):
    return (1030, 2050) if tier == "quick" else (1030, 2050, 4100)


def BOUNDS(tier):
    return {"circle_sizes": list(_sizes(tier)), "radius_step": 0.25,
            "centre_step": _step(tier) / 4.0, "centre_range": "[-size/2-1, size/2+1]^2 about the array middle",
            "origins": ["middle", "corner"], "area_ladder_radii": _ladder(tier),
            "circle_spot_sizes": [130, 259] + list(_large_sizes(tier)), "largest_circle_size": max(_large_sizes(tier)),
            "near_tie_sizes": [5, 11, 12, 30], "non_dyadic_centre_sizes": [4, 5, 12],
            "mask_sizes_all": [2, 3, 4], "mask_shapes_all_non_square": ["2x3", "3x2", "2x4", "4x2", "3x4", "4x3"],
            "mask_sizes_few_zeros": {"5": _fz(tier, 5), "6": _fz(tier, 6)},
            "mask_spot_sizes": [130, 1040], "largest_mask_size": 1040,
            "mask_spot_shapes_non_square": ["4x8", "8x4", "6x9", "9x6", "10x15", "12x7", "130x65", "65x130"],
            "tie_edge_pairs_size_count": [[5, 2], [7, 2], [9, 6], [15, 6], [25, 22], [29, 14], [100, 24], [130, 60]],
            "grey_alphabets": [[0, 0.5, 1], [-0.5, 0, 2]],
            "thresholds": THRESHOLDS, "scatter_frames": [1, 2], "scatter_frames_large": [0, 1, 3],
            "scatter_mask_sizes": [1, 2, 3] if tier == "quick" else [1, 2, 3, 4], "scatter_spot_sizes": [12, 26, 65]}


def _fz(tier, n):
    return 2 if tier == "quick" else 3


def cases(tier):
    yield Case("large", {"kind": "large"})
    for n in _large_sizes(tier):
        yield Case("large:circle:n=%d" % n, {"kind": "large_circle", "n": n})
    yield Case("large:selection:n=1040", {"kind": "large_selection"})
    yield Case("subaps:tie_edges", {"kind": "tie_edges"})
    yield Case("subaps:rect:spot", {"kind": "rect_spot"})
    yield Case("scatter:large", {"kind": "scatter_large"})
    yield Case("reuse", {"kind": "reuse"})
    yield Case("conventions", {"kind": "conventions"})
    for n in (4, 5, 12):
        yield Case("nondyadic:n=%d" % n, {"kind": "nondyadic", "n": n})
    # masks with values outside [0, 1] (un-normalised / negative lobes): every mask over {-1/2, 0, 2} on 2x2
    yield Case("grey:signed:n=2:codes=0-80", {"kind": "grey", "n": 2, "lo": 0, "hi": 81, "values": [-1, 0, 4],
                                             "thresholds": [-0.25] + THRESHOLDS})
    # non-square masks: ALL 0/1 masks of 2x3 ... 4x3 (both orientations), every count that leaves no cell empty
    for shape in ((2, 3), (3, 2), (2, 4), (4, 2), (3, 4), (4, 3)):
        total = 1 << (shape[0] * shape[1])
        for lo in range(0, total, CHUNK):
            hi = min(total, lo + CHUNK)
            yield Case("subaps:shape=%dx%d:codes=%d-%d" % (shape[0], shape[1], lo, hi - 1),
                       {"kind": "subaps", "n": max(shape), "shape": list(shape), "codes": ("range", lo, hi),
                        "subaps": list(range(1, min(shape) + 1))})
    for n in (5, 11, 12, 30):
        yield Case("neartie:n=%d" % n, {"kind": "neartie", "n": n})
    # grey (apodised / soft-edged) masks: every mask over {0, 1/2, 1} on 2x2 and 3x3
    yield Case("grey:n=2:codes=0-80", {"kind": "grey", "n": 2, "lo": 0, "hi": 81})
    for lo in range(0, 3 ** 9, 2500 if tier == "quick" else 1000):
        hi = min(3 ** 9, lo + (2500 if tier == "quick" else 1000))
        # quick: every 5th mask of the 19683 (3 is coprime to 5, so every cell takes every value in every
        # context of its neighbours' low digits); thorough: all of them
        yield Case("grey:n=3:codes=%d-%d" % (lo, hi - 1), {"kind": "grey", "n": 3, "lo": lo, "hi": hi,
                                                           "step": 5 if tier == "quick" else 1})
    yield Case("storage", {"kind": "storage"})
    step = _step(tier)
    for n in _sizes(tier):
        for origin in ("middle", "corner"):
            for qx in range(0, 4, step):
                for qy in range(0, 4, step):
                    yield Case("circle:n=%d:%s:q=%d,%d" % (n, origin, qx, qy),
                               {"kind": "circle", "n": n, "origin": origin, "qx": qx, "qy": qy}, n >= 2)
    yield Case("circle:docstring", {"kind": "docstring"})
    for r in _ladder(tier):
        yield Case("area:r=%d" % r, {"kind": "area", "r": r})
    # sub-aperture selection: all masks
    for n in (2, 3, 4):
        total = 1 << (n * n)
        for lo in range(0, total, CHUNK):
            hi = min(total, lo + CHUNK)
            if n == 4 and tier == "quick":
                sub = [1, 2]
            else:
                sub = list(range(1, n + 1))
            yield Case("subaps:n=%d:codes=%d-%d" % (n, lo, hi - 1),
                       {"kind": "subaps", "n": n, "codes": ("range", lo, hi), "subaps": sub})
    if tier == "quick":
        for part in range(8):
            yield Case("subaps:n=4:sparse:part=%d" % part,
                       {"kind": "subaps", "n": 4, "codes": ("sparse", 3, part, 8), "subaps": [3, 4]})
    for n in (5, 6):
        z = _fz(tier, n)
        codes = list(geom.codes_with_few_zeros(n, z))
        per = 128
        for k in range(0, len(codes), per):
            yield Case("subaps:n=%d:zeros<=%d:part=%d" % (n, z, k // per),
                       {"kind": "subaps", "n": n, "codes": ("fewzeros", z, k, k + per),
                        "subaps": list(range(1, n + 1))})
    for n in ((6, 8, 9) if tier == "quick" else (6, 7, 8, 9, 10, 12, 16)):
        yield Case("subaps:pupil:n=%d" % n, {"kind": "pupil", "n": n})
    for n in ((1, 2, 3) if tier == "quick" else (1, 2, 3, 4)):
        total = 1 << (n * n)
        for lo in range(0, total, 8192):
            yield Case("scatter:n=%d:codes=%d-%d" % (n, lo, min(total, lo + 8192) - 1),
                       {"kind": "scatter", "n": n, "lo": lo, "hi": min(total, lo + 8192)}, n >= 2)


def evaluate(p):
    if p["kind"] == "large":
        return _large(p)
    simple = {"large_circle": _large_circle, "large_selection": _large_selection, "tie_edges": _tie_edges,
              "rect_spot": _rect_spot, "scatter_large": _scatter_large, "reuse": _reuse,
              "conventions": _conventions, "nondyadic": _nondyadic}
    if p["kind"] in simple:
        with warnings.catch_warnings():
            warnings.simplefilter("ignore")
            return simple[p["kind"]](p)
    if p["kind"] == "neartie":
        return _neartie(p)
    if p["kind"] == "grey":
        return _grey(p)
    if p["kind"] == "storage":
        return _storage(p)
    kind = p["kind"]
    with warnings.catch_warnings():
        warnings.simplefilter("ignore")
        if kind == "circle":
            return _circle(p)
        if kind == "docstring":
            return _docstring()
        if kind == "area":
            return _area(p["r"])
        if kind == "subaps":
            return _subaps(p)
        if kind == "pupil":
            return _pupil(p["n"])
        return _scatter(p)


# ----------------------------------------------------------------------------- circle

def _same_paths(o, named, calls):
    """the same function whichever way it is imported: equal OUTPUTS on a few inputs (a wrapper - deprecation shim,
    argument validation - is not the same object and is none of the statement's business).  A path that does not
    exist is not claimed by the statement."""
    fs = [(nm, f) for nm, f in named if f is not None]
    if len(fs) < len(named):
        o.stat("same_function_all_paths_not_claimed", len(named) - len(fs))
    ok, det = True, None
    for args in calls:
        base = fs[0][1](*args)
        o.stat("lib_calls", len(fs))
        for nm, f in fs[1:]:
            got = f(*args)
            if not _same_result(base, got):
                ok, det = False, {"path": nm, "args": repr(args)}
    o.check("same_function_all_paths", ok, detail=det)


def _same_result(a, b):
    if isinstance(a, (tuple, list)):
        return isinstance(b, (tuple, list)) and len(a) == len(b) and all(_same_result(x, y) for x, y in zip(a, b))
    a, b = numpy.asarray(a), numpy.asarray(b)
    return a.shape == b.shape and bool(numpy.array_equal(a, b))


def _arithmetic_ok(a, b):
    """masks behave as 0/1 NUMBERS (any numeric dtype, no particular one): a - b is defined and is non-zero exactly
    where the two masks differ (how annuli are made), a * b is the intersection, mean() is the filled fraction"""
    try:
        a, b = numpy.asarray(a), numpy.asarray(b)
        ia, ib = (a == 1).astype(int), (b == 1).astype(int)
        d = numpy.asarray(a - b)
        pr = numpy.asarray(a * b)
        return bool(numpy.array_equal(d != 0, ia != ib) and numpy.array_equal(pr == 1, (ia * ib) == 1)
                    and numpy.all((pr == 0) | (pr == 1))
                    and abs(float(a.mean()) - ia.sum() / float(ia.size)) <= 1e-6)      # single-precision masks too
    except Exception:
        return False


def _circle(p):
    import aotools
    from aotools.functions import pupil
    o = Out()
    n, origin, qx, qy = p["n"], p["origin"], p["qx"], p["qy"]
    _same_paths(o, [("aotools.functions.pupil.circle", pupil.circle), ("aotools.circle", getattr(aotools, "circle", None)),
                    ("aotools.functions.circle", getattr(getattr(aotools, "functions", None), "circle", None))],
                [(n / 2.0, n), (0.75, n, (0.5, -0.25), origin), (n / 4.0 + 0.25, n, (-0.5, 1.0), origin)])
    mid = 2 * n if origin == "corner" else 0           # array middle in quarter pixels
    lo, hi = mid - 2 * n - 4, mid + 2 * n + 4
    xs = [c for c in range(lo, hi + 1) if (c - lo) % 4 == qx]
    ys = [c for c in range(lo, hi + 1) if (c - lo) % 4 == qy]
    rs = list(range(0, 4 * n + 1))
    lib = numpy.zeros((len(xs), len(ys), len(rs), n, n), dtype=bool)
    bad_values = 0
    for ix, cx in enumerate(xs):
        for iy, cy in enumerate(ys):
            c = (cx / 4.0, cy / 4.0)
            for ir, r4 in enumerate(rs):
                m = numpy.asarray(pupil.circle(r4 / 4.0, n, c, origin))
                if m.shape != (n, n) or not numpy.all((m == 0) | (m == 1)):
                    bad_values += 1
                    continue
                lib[ix, iy, ir] = (m == 1)
            # the masks are numbers: differences (annuli), products and means of them are what callers form
            if not _arithmetic_ok(pupil.circle(n / 2.0, n, c, origin), pupil.circle(n / 4.0, n, c, origin)):
                bad_values += 1
    ncall = len(xs) * len(ys) * len(rs)
    o.stat("lib_calls", ncall + 2 * len(xs) * len(ys))
    o.check("binary_float64_square", bad_values == 0, detail="%d outputs" % bad_values, n=ncall)
    # --- integer oracle, all radii at once
    r2 = numpy.array(rs, dtype=numpy.int64) ** 2
    nbad, first = 0, None
    for ix, cx in enumerate(xs):
        for iy, cy in enumerate(ys):
            D = geom.squared_distance_q(n, cx, cy, origin)
            ref = D[None, :, :] <= r2[:, None, None]
            diff = ref != lib[ix, iy]
            if diff.any():
                k = int(numpy.argmax(diff.reshape(len(rs), -1).any(axis=1)))
                nbad += int(diff.reshape(len(rs), -1).any(axis=1).sum())
                if first is None:
                    first = {"r": rs[k] / 4.0, "centre": (cx / 4.0, cy / 4.0),
                             "lib": lib[ix, iy, k].astype(int), "ref": ref[k].astype(int)}
    o.check("exact_indicator", nbad == 0, measure=nbad, tol=0, detail=first, n=ncall)
    # --- nested in r (on the library's outputs)
    viol = lib[:, :, :-1] & ~lib[:, :, 1:]
    o.check("nested_in_radius", not viol.any(), measure=int(viol.any(axis=(-1, -2)).sum()), tol=0,
            n=len(xs) * len(ys) * (len(rs) - 1))
    # --- integer translation of the centre: content moves by the same number of pixels
    if n >= 2:
        tx = lib[1:, :, :, :, 1:] != lib[:-1, :, :, :, :-1]      # c_x + 1  -> one column to the right
        ty = lib[:, 1:, :, 1:, :] != lib[:, :-1, :, :-1, :]      # c_y + 1  -> one row down
        o.check("translates_with_centre", not (tx.any() or ty.any()),
                measure=int(tx.any(axis=(-1, -2)).sum() + ty.any(axis=(-1, -2)).sum()), tol=0,
                n=tx.shape[0] * tx.shape[1] * tx.shape[2] + ty.shape[0] * ty.shape[1] * ty.shape[2])
    # --- symmetric under the square's symmetries when centred
    if mid in xs and mid in ys:
        ix, iy = xs.index(mid), ys.index(mid)
        nb = 0
        for ir in range(len(rs)):
            a = lib[ix, iy, ir]
            nb += sum(1 for s in geom.square_symmetries(a) if not numpy.array_equal(s, a))
        o.check("square_symmetries_centred", nb == 0, measure=nb, tol=0, n=8 * len(rs))
    # --- area bound for every disc that lies inside the array
    worst = 0.0
    nin = 0
    for ix, cx in enumerate(xs):
        for iy, cy in enumerate(ys):
            for ir, r4 in enumerate(rs):
                gx, gy = cx - mid + 2 * n, cy - mid + 2 * n      # from the array corner
                if min(gx, gy) - r4 < 0 or max(gx, gy) + r4 > 4 * n:
                    continue
                nin += 1
                a = float(lib[ix, iy, ir].sum())
                lo_a, hi_a = geom.area_bounds(r4 / 4.0)
                worst = max(worst, lo_a - a, a - hi_a)
    if nin:
        o.check("area_bounds_inside", worst <= 1e-9, measure=worst, tol=1e-9, n=nin)
    o.outcome(numpy.packbits(lib))
    return o


def _docstring():
    """the examples drawn in the docstring (includes the non-dyadic radius 0.8)"""
    from aotools.functions import pupil
    o = Out()
    ex = {
        (1, 5): "00000 00100 01110 00100 00000", (0, 5): "00000 00000 00100 00000 00000",
        (2, 5): "00100 01110 11111 01110 00100", (0, 4): "0000 0000 0000 0000",
        (0.8, 4): "0000 0110 0110 0000", (2, 4): "0110 1111 1111 0110",
    }
    for (r, n), s in ex.items():
        want = numpy.array([[int(ch) for ch in row] for row in s.split()])
        got = pupil.circle(r, n)
        o.stat("lib_calls", 1)
        o.check("docstring_examples", numpy.array_equal(got, want), sub="r=%g,n=%d" % (r, n))
        o.check("exact_indicator_rational", numpy.array_equal(got == 1, geom.disc_fraction(n, r)),
                sub="r=%g,n=%d" % (r, n))
    for n, s in ((5, "00000 00000 00110 00110 00000"), (4, "0000 0010 0111 0010")):
        want = numpy.array([[int(ch) for ch in row] for row in s.split()])
        got = pupil.circle(1, n, (0.5, 0.5))
        o.stat("lib_calls", 1)
        o.check("docstring_examples", numpy.array_equal(got, want), sub="r=1,n=%d,c=(.5,.5)" % n)
    # asymmetric centre: x is the column direction
    got = pupil.circle(0.5, 4, (1.5, -0.5))
    o.stat("lib_calls", 1)
    want = numpy.zeros((4, 4))
    want[1, 3] = 1
    o.check("x_along_columns", numpy.array_equal(got, want), detail=got)
    return o


def _area(r):
    """area -> pi r^2: a centred and an off-centre disc of radius r, r + 1/4, r + 1/2 inside the array"""
    from aotools.functions import pupil
    o = Out()
    worst_rel = 0.0
    for r4 in (4 * r, 4 * r + 1, 4 * r + 2):
        rr = r4 / 4.0
        n = 2 * r + 4
        for c in ((0.0, 0.0), (0.25, -0.5), (0.5, 0.5)):
            m = pupil.circle(rr, n, c)
            o.stat("lib_calls", 1)
            ref = geom.disc_q(n, r4, int(c[0] * 4), int(c[1] * 4))
            o.check("exact_indicator", numpy.array_equal(m == 1, ref), sub="r=%g,c=%s" % (rr, c))
            a = float(m.sum())
            lo_a, hi_a = geom.area_bounds(rr)
            o.check("area_bounds_inside", lo_a - 1e-9 <= a <= hi_a + 1e-9, sub="r=%g,c=%s" % (rr, c),
                    measure=max(lo_a - a, a - hi_a), tol=1e-9)
            worst_rel = max(worst_rel, abs(a / (numpy.pi * rr * rr) - 1.0))
    o.note("area_rel_err_r=%d" % r, worst_rel)
    return o


def finalize(tier, results):
    """ladder: relative area error below its analytic envelope at every rung, below 1e-3 at the end"""
    o = Out()
    lad = _ladder(tier)
    errs = []
    for r in lad:
        res = results.get("area:r=%d" % r)
        if res is None:
            return None
        errs.append(float(res.notes["area_rel_err_r=%d" % r]))
    for r, e in zip(lad, errs):
        env = (2 ** 0.5 * (r + 0.5) + 0.5) / (r * r)
        o.check("area_ladder_envelope", e <= env + 1e-9, sub="r=%d" % r, measure=e, tol=env)
    for k in range(1, len(lad)):
        o.check("area_ladder_nonincreasing", errs[k] <= errs[k - 1], sub="r=%d" % lad[k],
                measure=errs[k] - errs[k - 1], tol=0.0)
    o.close("area_ladder_end", errs[-1], 1.0 / lad[-1], sub="r=%d" % lad[-1])
    o.note("area_ladder", dict(zip(map(str, lad), errs)))
    return o


# ----------------------------------------------------------------------------- sub-apertures

def _codes(spec, n):
    if spec[0] == "range":
        return list(range(spec[1], spec[2]))
    if spec[0] == "sparse":
        full = (1 << (n * n)) - 1
        few = list(geom.codes_with_few_zeros(n, spec[1]))
        return sorted(set(few) | set(full ^ c for c in few))[spec[2]::spec[3]]
    if spec[0] == "fewzeros":
        return list(geom.codes_with_few_zeros(n, spec[1]))[spec[2]:spec[3]]
    raise ValueError(spec)


class _Agg(object):
    """per (clause, sub) counters: failing ids are (clause, case, sub-aperture count, threshold),
    the first offending mask goes into the detail"""

    def __init__(self):
        self.d = {}
        self.edges = {}        # (shape, subaps) -> cell edges of this case (tie edges probed on the library)

    def add(self, clause, sub, ok, detail=None, measure=None, tol=1e-12):
        e = self.d.setdefault((clause, sub), [0, 0, None, None, tol])
        e[0] += 1
        if measure is not None and (e[3] is None or measure > e[3]):
            e[3] = measure
        if not ok:
            e[1] += 1
            if e[2] is None:
                e[2] = detail() if callable(detail) else detail

    def flush(self, o):
        for (clause, sub), (n, bad, det, meas, tol) in sorted(self.d.items()):
            if bad and det is not None:
                det = dict(det, inputs_failing=bad)
            o.check(clause, bad == 0, sub=None if bad == 0 else sub, detail=det, n=n,
                    measure=meas if meas is not None else (bad if bad else None),
                    tol=tol if meas is not None else None)


# Fill factors are means of exactly summable (dyadic) mask values, so the SUM of a cell is exact in every order of
# summation, but the mean is not the result of one division in every legitimate evaluation (reciprocal multiply,
# mean of row means, running mean: 1-4 ulp apart on cells of up to 130 x 130 pixels).  The unchanged library
# measures 0; 32 ulp keeps a margin of > 5 over any of those evaluations and is 8 orders of magnitude below the
# 1e-7 of a single-precision accumulator.
FILL_TOL = 32 * 2.220446049250313e-16


def _probe_edge(o, wfslib, shape, s, axis, k, f):
    """Which of the two legitimate integers (f or f + 1) does the library use for the cell edge k whose exact
    position f + 1/2 is a half-integer?  Asked through the public function only: a mask of ones whose line f
    (along `axis`) is dark - the cells that contain line f are the ones whose fill factor is below 1.
    Returns f, f + 1 or None (inconclusive: the caller falls back to the even one)."""
    try:
        m = numpy.ones(shape)
        if axis == 0:
            m[f, :] = 0
        else:
            m[:, f] = 0
        coords, fills = wfslib.findActiveSubaps(s, m, 0.0, returnFill=True)
        o.stat("lib_calls", 1)
        coords = numpy.asarray(coords, dtype=float).reshape(-1, 2)
        fills = numpy.asarray(fills, dtype=float).ravel()
        if len(fills) != len(coords) or not len(fills):
            return None
        idx = numpy.rint(coords[:, axis] / (shape[axis] / float(s))).astype(int)
        prev, nxt = fills[idx == k - 1] < 1, fills[idx == k] < 1
        if not (len(prev) and len(nxt)):
            return None
        if prev.all() and not nxt.any():
            return f + 1
        if nxt.all() and not prev.any():
            return f
    except Exception:
        pass
    return None


def _edges(o, agg, wfslib, shape, s):
    """cell edges along both axes; half-integer positions (no rule in the statement) take the library's choice"""
    key = (shape, s)
    if key not in agg.edges:
        out = []
        for axis in (0, 1):
            b = geom.cell_bounds(shape[axis], s)
            for k in geom.cell_edge_ties(shape[axis], s):
                f = ((2 * k * shape[axis]) // s - 1) // 2
                c = _probe_edge(o, wfslib, shape, s, axis, k, f)
                if c is None:
                    o.stat("tie_edge_probe_inconclusive", 1)
                else:
                    b[k] = c
                    o.stat("tie_edges_probed", 1)
            out.append(numpy.array(b, dtype=numpy.int64))
        agg.edges[key] = out
    return agg.edges[key]


def _cells(coords, shape, s):
    """cell indices of returned coordinates (nearest multiple of the spacing along each axis)"""
    sp = numpy.array([shape[0] / float(s), shape[1] / float(s)])
    idx = numpy.rint(coords / sp).astype(int)
    return idx, [(int(a), int(b)) for a, b in idx]


def _check_selection(o, agg, wfslib, mask_int, subaps_list, label, unit=1, thresholds=None):
    """all thresholds x sub-aperture counts for one mask; records into the aggregator.
    The mask handed to the library is mask_int / unit (unit 2: grey masks with values 0, 1/2, 1)."""
    from fractions import Fraction
    shape = mask_int.shape
    mask = mask_int.astype(float) / unit
    binary = unit == 1 and int(mask_int.min()) >= 0 and int(mask_int.max()) <= 1
    for s in subaps_list:
        if s > min(shape):
            continue            # empty cells: outside the domain
        bx, by = _edges(o, agg, wfslib, shape, s)
        ones, npix = geom.cell_counts_edges(mask_int, bx, by)
        if (npix == 0).any():
            continue            # empty cells: outside the domain
        size = npix * unit
        means = ones / size.astype(float)      # correctly rounded quotients of integers
        # a cell is constant iff pixels * sum of squares == (sum)^2
        if binary:
            const = (ones == 0) | (ones == npix)
        else:
            sq, _ = geom.cell_counts_edges(mask_int * mask_int, bx, by)
            const = npix * sq == ones * ones
        # a cell mean that EQUALS the threshold is decided the same way by every order of evaluation only when
        # the float mean is exact in every order: constant cells and cells of 2^a x 2^b pixels (dyadic values)
        robust = const | ((npix & (npix - 1)) == 0)
        exact_grid = [shape[0] % s == 0, shape[1] % s == 0]
        ctol = numpy.array([0.0 if e else 0.5 for e in exact_grid])
        expect_sp = numpy.array([Fraction(shape[0], s), Fraction(shape[1], s)], dtype=object)
        prev = None

        def decide(t):
            tq = Fraction(t)
            lhs, rhs = ones * tq.denominator, tq.numerator * size
            tie = (lhs == rhs) & ~robust
            must = set(tuple(int(v) for v in k) for k in numpy.argwhere((lhs >= rhs) & ~tie))
            may = set(tuple(int(v) for v in k) for k in numpy.argwhere(tie))
            return must, may

        for t in (THRESHOLDS if thresholds is None else thresholds):
            coords, fills = wfslib.findActiveSubaps(s, mask.copy(), t, returnFill=True)
            o.stat("lib_calls", 1)
            must, may = decide(t)
            coords = numpy.asarray(coords, dtype=float).reshape(-1, 2)
            idx, got = _cells(coords, shape, s)
            sub = "subaps=%d:thr=%g" % (s, t)
            gs = set(got)
            ok = len(gs) == len(got) and must <= gs and gs <= (must | may)
            if may:
                o.stat("threshold_ties_either_way", len(may))
            agg.add("active_cells_exact", sub, ok,
                    lambda: {"mask": mask_int, "which": label, "got": got, "want": sorted(must),
                             "either": sorted(may)})
            if ok:
                # the label of a cell is k * size/subaps; when the size is not a multiple of the count the
                # statement does not say whether the label is that real number or the pixel where the cell starts
                if len(got):
                    want_c = numpy.array([[float(expect_sp[0] * a), float(expect_sp[1] * b)] for a, b in got])
                    cerr = float(numpy.max(numpy.maximum(numpy.abs(coords - want_c) - ctol[None, :], 0.0)))
                else:
                    cerr = 0.0
                agg.add("cell_coordinates", sub, cerr <= 1e-12, {"mask": mask_int, "coords": coords}, measure=cerr)
                fw = means[idx[:, 0], idx[:, 1]] if len(got) else numpy.zeros(0)
                fl = numpy.asarray(fills, dtype=float).ravel()
                if fl.shape == fw.shape:
                    ferr = float(numpy.max(numpy.abs(fl - fw) / numpy.maximum(1.0, numpy.abs(fw)))) if len(got) else 0.0
                    ferr = ferr if ferr == ferr else float("inf")
                else:
                    ferr = float("inf")
                agg.add("fills_are_cell_means", sub, ferr <= FILL_TOL,
                        lambda: {"mask": mask_int, "which": label, "fills": fills, "want": fw},
                        measure=min(ferr, 1e300), tol=FILL_TOL)
                if shape[0] == shape[1] and exact_grid[0] and len(got):
                    ff = numpy.asarray(wfslib.computeFillFactor(mask.copy(), coords.copy(), shape[0] // s),
                                       dtype=float).ravel()
                    o.stat("lib_calls", 1)
                    if ff.shape == fl.shape:
                        rerr = float(numpy.max(numpy.abs(ff - fl) / numpy.maximum(1.0, numpy.abs(fl))))
                        rerr = rerr if rerr == rerr else float("inf")
                    else:
                        rerr = float("inf")
                    agg.add("fills_equal_computeFillFactor", sub, rerr <= FILL_TOL,
                            lambda: {"mask": mask_int, "which": label, "fills": fills, "recomputed": ff},
                            measure=min(rerr, 1e300), tol=FILL_TOL)
            if prev is not None:
                agg.add("shrinks_with_threshold", sub, gs <= prev, {"mask": mask_int, "which": label})
            prev = gs
            # returnFill=False gives the same cells (the failure id of threshold 0.5 has no threshold in it)
            c2 = numpy.asarray(wfslib.findActiveSubaps(s, mask.copy(), t), dtype=float).reshape(-1, 2)
            o.stat("lib_calls", 1)
            _, got2 = _cells(c2, shape, s)
            g2 = set(got2)
            agg.add("same_cells_without_fill", "subaps=%d" % s if t == 0.5 else sub,
                    len(g2) == len(got2) and must <= g2 and g2 <= (must | may),
                    {"mask": mask_int, "which": label, "threshold": t})


def _subaps(p):
    from aotools.wfs import wfslib
    import aotools
    o = Out()
    n = p["n"]
    shape = tuple(p.get("shape", (n, n)))
    probe = numpy.array(geom.mask_from_code(4, 0xA5C3), dtype=float)
    _same_paths(o, [("aotools.wfs.wfslib.findActiveSubaps", wfslib.findActiveSubaps),
                    ("aotools.wfs.findActiveSubaps", getattr(getattr(aotools, "wfs", None), "findActiveSubaps", None))],
                [(2, probe, 0.5), (4, probe, 1.0, True)])
    agg = _Agg()
    for c in _codes(p["codes"], n):
        m = _mask_from_code(shape, c)
        _check_selection(o, agg, wfslib, m, p["subaps"], "code=%d" % c)
    agg.flush(o)
    return o


def _mask_from_code(shape, c):
    bits = [(c >> k) & 1 for k in range(shape[0] * shape[1])]
    return numpy.array(bits, dtype=numpy.int64).reshape(shape)


def _pupil(n):
    """circular (and annular) pupils from the library's own circle, all sub-aperture counts"""
    from aotools.wfs import wfslib
    from aotools.functions import pupil
    o = Out()
    seen = set()
    agg = _Agg()
    for r4 in range(2, 2 * n + 3):
        for c in ((0.0, 0.0), (0.5, 0.0), (0.25, -0.75)):
            m = pupil.circle(r4 / 4.0, n, c)
            o.stat("lib_calls", 1)
            for obs4 in (0, r4 // 3):
                mm = m - pupil.circle(obs4 / 4.0, n, c) if obs4 else m
                mi = mm.astype(numpy.int64)
                key = mi.tobytes()
                if key in seen or mi.min() < 0:
                    continue
                seen.add(key)
                _check_selection(o, agg, wfslib, mi, [s for s in range(1, min(n, 8) + 1)],
                                 "r=%g,c=%s,obs=%g" % (r4 / 4.0, c, obs4 / 4.0))
    agg.flush(o)
    o.outcome(sorted(seen))
    return o


# ----------------------------------------------------------------------------- scatter / gather

def _scatter(p):
    from aotools.wfs import wfslib
    o = Out()
    n = p["n"]
    agg = _Agg()
    for c in range(p["lo"], p["hi"]):
        mi = geom.mask_from_code(n, c)
        ns = int(mi.sum())
        for frames in (1, 2):
            # every way a 0/1 mask is commonly stored x slope dtype; the slopes are not whole numbers, so a
            # result array that takes the mask's dtype truncates them
            for mdtype, ddtype in ((float, float), (numpy.int64, numpy.int64), (numpy.int64, float), (bool, float),
                                   (numpy.uint8, float), (numpy.float32, float), (float, numpy.float32),
                                   (bool, numpy.complex128)):
                if (mdtype, ddtype) != (float, float) and frames == 2:
                    continue
                data = (1 + numpy.arange(ns)[None, None, :] + 100 * numpy.arange(2)[None, :, None]
                        + 1000 * numpy.arange(frames)[:, None, None])
                if ddtype is not numpy.int64:
                    data = data + 0.37
                if ddtype is numpy.complex128:
                    data = data + 0.5j
                data = data.astype(ddtype)
                mask = mi.astype(mdtype)
                out = numpy.asarray(wfslib.make_subaps_2d(data.copy(), mask.copy()))
                o.stat("lib_calls", 1)
                ok = out.shape == (frames, 2, n, n)
                back = out[:, :, mi.astype(bool)] if ok else None
                ok = ok and back.shape == data.shape and numpy.array_equal(back, data)
                agg.add("scatter_gather_identity", "frames=%d:%s:mask=%s" % (frames, numpy.dtype(ddtype).name,
                                                                            numpy.dtype(mdtype).name), ok,
                        {"mask": mi, "code": c, "out": out})
    agg.flush(o)
    return o


def _storage(p):
    """masks are 0/1 arrays whatever their dtype or memory layout: selection, fill factors and the scatter of
    slopes must not depend on how the mask is stored; circle() must accept numpy scalars for its arguments"""
    from mc import variants
    from aotools.wfs import wfslib
    from aotools.functions import pupil
    o = Out()
    # the masks are taken to float64 here (0/1 values: exact) - the storage variants are then derived from one
    # reference dtype whatever numeric dtype circle() returns
    mask = numpy.array(pupil.circle(5.5, 12) - pupil.circle(1.5, 12), dtype=float)
    kinds = ("float32", "int64", "int32", "uint8")
    for subaps in (3, 4, 6):
        for thr in (0.0, 0.5, 1.0):
            for fill in (False, True):
                f = (lambda a: wfslib.findActiveSubaps(subaps, a, thr, returnFill=True)) if fill else \
                    (lambda a: wfslib.findActiveSubaps(subaps, a, thr))
                n = variants.check_storage(o, "selection_independent_of_mask_storage", f, mask, 1e-12,
                                           sub="subaps=%d:thr=%g:fill=%s" % (subaps, thr, fill), kinds=kinds)
                o.stat("lib_calls", n)
            n = variants.check_storage(o, "selection_independent_of_mask_storage",
                                       lambda a: wfslib.findActiveSubaps(subaps, a.astype(bool), thr), mask, 1e-12,
                                       sub="subaps=%d:thr=%g:bool" % (subaps, thr), kinds=(), with_layouts=True)
            o.stat("lib_calls", n)
    # boolean masks (pupil > 0) and narrow integer masks with many pixels per sub-aperture (a per-cell sum that is
    # taken in the mask's own dtype saturates / wraps): against the same mask stored as float64
    for size, r_out, r_in, subaps_list in ((12, 5.5, 1.5, (2, 3, 4, 6)), (64, 30.0, 9.0, (2, 4, 8)), (96, 44.0, 0.0, (3, 4, 6))):
        mk = numpy.array(pupil.circle(r_out, size) - (pupil.circle(r_in, size, (2, -1)) if r_in else 0), dtype=float)
        for subaps in subaps_list:
            for thr in (0.0, 0.3, 0.5, 1.0):
                want = wfslib.findActiveSubaps(subaps, mk.astype(float), thr, returnFill=True)
                for dt in (bool, numpy.uint8, numpy.int8, numpy.int16, numpy.float32):
                    got = wfslib.findActiveSubaps(subaps, mk.astype(dt), thr, returnFill=True)
                    o.stat("lib_calls", 1)
                    ok = len(got) == len(want) and all(numpy.asarray(g).shape == numpy.asarray(w).shape and
                                                       numpy.allclose(numpy.asarray(g, dtype=float), numpy.asarray(w, dtype=float), rtol=0, atol=1e-6)
                                                       for g, w in zip(got, want))
                    o.check("selection_independent_of_mask_storage", ok, sub="size=%d:subaps=%d:thr=%g:%s" % (size, subaps, thr, numpy.dtype(dt).name))
    pos = numpy.array([[0., 0.], [3., 3.], [6., 3.], [9., 9.]])
    n = variants.check_storage(o, "selection_independent_of_mask_storage",
                               lambda a: wfslib.computeFillFactor(a, pos, 3), mask, 1e-12, sub="fill", kinds=kinds)
    o.stat("lib_calls", n)
    # the scatter of slopes into the 2-d map for a mask that is NOT equal to its transpose, in every memory layout
    amask = numpy.array(pupil.circle(4.2, 12, (1.5, -2.0)) - pupil.circle(1.2, 12, (2.5, 0.0)), dtype=float)
    ns = int(amask.sum())
    slopes = 0.37 + numpy.arange(2 * 2 * ns, dtype=float).reshape(2, 2, ns)
    n = variants.check_storage(o, "scatter_independent_of_mask_storage", lambda a: wfslib.make_subaps_2d(slopes.copy(), a),
                               amask, 0.0, sub="asymmetric", kinds=("int64", "uint8", "float32"))
    n += variants.check_storage(o, "scatter_independent_of_slope_storage", lambda a: wfslib.make_subaps_2d(a, amask.copy()),
                                slopes, 0.0, sub="asymmetric", kinds=())
    for subaps in (3, 4):
        n += variants.check_storage(o, "selection_independent_of_mask_storage", lambda a: wfslib.findActiveSubaps(subaps, a, 0.4, returnFill=True),
                                    amask, 1e-12, sub="asymmetric:subaps=%d" % subaps, kinds=kinds)
    o.stat("lib_calls", n)
    # numpy scalars as circle arguments
    for r, nn, c in ((2.5, 6, (0.5, -0.5)), (3, 7, (1, 0)), (1.25, 5, (0, 0))):
        want = numpy.asarray(pupil.circle(r, nn, c))
        for tname, cast in (("np_float64", numpy.float64), ("np_float32", numpy.float32)):
            got = numpy.asarray(pupil.circle(cast(r), numpy.int64(nn), (cast(c[0]), cast(c[1]))))
            o.stat("lib_calls", 1)
            o.check("circle_accepts_numpy_scalars", got.shape == want.shape and numpy.array_equal(got, want),
                    sub="r=%g:n=%d:%s" % (r, nn, tname))
    return o


def _grey(p):
    """selection, fill factors and the recomputed fill factors on masks that are not 0/1: the mean mask value
    of a cell is the quantity the statement talks about, for apodised or soft-edged pupils too"""
    from aotools.wfs import wfslib
    o = Out()
    n = p["n"]
    agg = _Agg()
    for code in range(p["lo"], p["hi"], p.get("step", 1)):
        digits = []
        c = code
        for _ in range(n * n):
            digits.append(c % 3)
            c //= 3
        mi = numpy.array(digits, dtype=numpy.int64).reshape(n, n)
        if p.get("values"):
            mi = numpy.array(p["values"], dtype=numpy.int64)[mi]
        _check_selection(o, agg, wfslib, mi, [s for s in range(1, n + 1)], "grey code %d" % code, unit=2,
                         thresholds=p.get("thresholds"))
    agg.flush(o)
    o.stat("nontrivial", p["hi"] - p["lo"])
    return o


def _large(p):
    """sizes beyond the exhaustive alphabets: circle() on 130- and 259-pixel grids against the integer disc,
    sub-aperture selection on a 130-pixel annular pupil with 65, 26, 13 and 10 sub-apertures across"""
    from aotools.functions import pupil
    from aotools.wfs import wfslib
    o = Out()
    for n in (130, 259):
        for r4, c4, origin in ((4 * n // 2, (0, 0), "middle"), (4 * n // 3 + 1, (6, -10), "middle"),
                               (4 * 40 + 2, (4 * 50, 4 * 70 + 2), "corner"), (4 * n, (2, 2), "middle")):
            got = numpy.asarray(pupil.circle(r4 / 4.0, n, (c4[0] / 4.0, c4[1] / 4.0), origin))
            want = geom.disc_q(n, r4, c4[0], c4[1], origin)
            o.stat("lib_calls", 1)
            o.check("exact_indicator_large", got.shape == (n, n) and numpy.array_equal(got.astype(bool), want),
                    sub="n=%d:r=%g:c=%s:%s" % (n, r4 / 4.0, (c4[0] / 4.0, c4[1] / 4.0), origin),
                    detail=int(numpy.sum(got.astype(bool) != want)) if got.shape == (n, n) else got.shape)
    mi = (numpy.asarray(pupil.circle(60, 130)) - numpy.asarray(pupil.circle(17.5, 130, (3, -2)))).astype(numpy.int64)
    agg = _Agg()
    _check_selection(o, agg, wfslib, mi, [65, 26, 13, 10, 7], "annulus 130")
    agg.flush(o)
    return o


def _neartie(p):
    """'for arbitrary real r and c': radii a hair below and above every distance a pixel centre actually attains
    (relative offsets 1e-9 and 1e-13, far above float64 rounding of x^2 + y^2, far below single precision), for
    centres on the quarter-pixel lattice; and one disc whose radius and centre are millions of pixels away.  The
    pixels AT the attained distance are outside the smaller disc and inside the larger one."""
    from aotools.functions import pupil
    o = Out()
    n = p["n"]
    worst_bad = 0
    for origin in ("middle", "corner"):
        for (cx4, cy4) in ((0, 0), (2, 0), (1, -3), (4, 6)):
            d2 = geom.squared_distance_q(n, cx4, cy4, origin)          # integers, units (1/4 px)^2
            cc = (cx4 / 4.0, cy4 / 4.0)
            for v in numpy.unique(d2):
                if v == 0:
                    continue
                r = float(numpy.sqrt(float(v))) / 4.0
                for eps, want in ((-1e-9, d2 < v), (-1e-13, d2 < v), (1e-13, d2 <= v), (1e-9, d2 <= v)):
                    got = numpy.asarray(pupil.circle(r * (1.0 + eps), n, cc, origin))
                    o.stat("lib_calls", 1)
                    ok = got.shape == (n, n) and numpy.array_equal(got.astype(bool), want)
                    if not ok:
                        worst_bad += 1
                        if worst_bad <= 12:
                            o.check("exact_indicator_near_ties", False,
                                    sub="%s:c=%s:r=sqrt(%d)/4*(1%+g)" % (origin, cc, int(v), eps),
                                    detail="%d pixels differ" % (int(numpy.sum(got.astype(bool) != want)) if got.shape == (n, n) else -1))
    if worst_bad == 0:
        o.check("exact_indicator_near_ties", True)
    elif worst_bad > 12:
        o.check("exact_indicator_near_ties", False, sub="(more)", detail="%d failing (r, c) in all" % worst_bad)
    # far-away disc: r = 2^23 px, centre 2^23 + 20.25 px to the right of the corner (all values exact in float64)
    R = 2 ** 23
    k = numpy.arange(n)
    for dx4 in (81, 82, 4 * 20 + 3):                     # centre at 2^23 + 20.25 / 20.5 / 20.75
        cx4, cy4 = 4 * R + dx4, 12
        X = (4 * k + 2 - cx4).astype(object)
        Y = (4 * k + 2 - cy4).astype(object)
        want = numpy.array([[int(X[i]) ** 2 + int(Y[j]) ** 2 <= (4 * R) ** 2 for i in range(n)] for j in range(n)])
        got = numpy.asarray(pupil.circle(float(R), n, (cx4 / 4.0, cy4 / 4.0), "corner"))
        o.stat("lib_calls", 1)
        o.check("exact_indicator_far_centre", got.shape == (n, n) and numpy.array_equal(got.astype(bool), want),
                sub="cx=2^23+%g" % (dx4 / 4.0), detail=int(numpy.sum(got.astype(bool) != want)) if got.shape == (n, n) else None)
    return o


# ----------------------------------------------------------------------------- later additions

def _large_circle(p):
    """spot sizes 1030 / 2050 (/ 4100): the integer disc, radii with many distance == radius ties, off-centre
    quarter-pixel centres, both origins"""
    from aotools.functions import pupil
    o = Out()
    n = p["n"]
    for r4, c4, origin in ((4 * (n // 2), (0, 0), "middle"), (4 * (n // 3) + 1, (6, -10), "middle"),
                           (4 * (n // 2) - 3, (1, 3), "middle"), (4 * (n // 3) + 2, (4 * (n // 2) + 2, 4 * (n // 2) - 40), "corner")):
        got = numpy.asarray(pupil.circle(r4 / 4.0, n, (c4[0] / 4.0, c4[1] / 4.0), origin))
        o.stat("lib_calls", 1)
        want = geom.disc_q(n, r4, c4[0], c4[1], origin)
        ok = got.shape == (n, n) and bool(numpy.all((got == 0) | (got == 1))) and numpy.array_equal(got == 1, want)
        o.check("exact_indicator_large", ok, sub="n=%d:r=%g:c=%s:%s" % (n, r4 / 4.0, (c4[0] / 4.0, c4[1] / 4.0), origin),
                detail=int(numpy.sum((got == 1) != want)) if got.shape == (n, n) else got.shape)
        del got, want
    return o


def _pattern(shape):
    i, j = numpy.indices(shape)
    return (((i * i + 3 * j) % 5) < 2).astype(numpy.int64)


def _large_selection(p):
    """a 1040-pixel off-axis annulus with 8 ... 40 sub-apertures across (cells of up to 130 x 130 pixels)"""
    from aotools.functions import pupil
    from aotools.wfs import wfslib
    o = Out()
    mi = (numpy.asarray(pupil.circle(500, 1040)) - numpy.asarray(pupil.circle(150.5, 1040, (30, -20)))).astype(numpy.int64)
    o.stat("lib_calls", 2)
    agg = _Agg()
    _check_selection(o, agg, wfslib, mi, [8, 13, 16, 40, 7, 12], "annulus 1040")
    agg.flush(o)
    return o


def _tie_edges(p):
    """(size, count) pairs with cell edges at half-integer positions (no rule in the statement: the library's own
    choice, read off a probe mask, is used for those edges) and pairs where k * fl(n/s) is not the rounded k*n/s"""
    from aotools.wfs import wfslib
    o = Out()
    agg = _Agg()
    for n, s in ((5, 2), (7, 2), (9, 6), (15, 6), (25, 22), (29, 14), (100, 24), (130, 60), (28, 14), (26, 22)):
        _check_selection(o, agg, wfslib, _pattern((n, n)), [s], "pattern %dx%d" % (n, n))
        _check_selection(o, agg, wfslib, numpy.ones((n, n), dtype=numpy.int64) - _pattern((n, n)).T, [s],
                         "pattern' %dx%d" % (n, n))
    agg.flush(o)
    return o


def _rect_spot(p):
    """non-square masks beyond the exhaustive 2x3 ... 4x3: the two axes have their own spacing"""
    from aotools.wfs import wfslib
    o = Out()
    agg = _Agg()
    for shape in ((4, 8), (8, 4), (6, 9), (9, 6), (10, 15), (12, 7), (130, 65), (65, 130)):
        m = _pattern(shape)
        m[:, shape[1] - shape[1] // 4:] = 0
        subs = [s for s in range(1, min(shape) + 1)] if max(shape) < 100 else [5, 13, 10, 65]
        _check_selection(o, agg, wfslib, m, subs, "pattern %dx%d" % shape)
    agg.flush(o)
    return o


def _scatter_large(p):
    """scatter -> gather on maps larger than the exhaustive 4x4: an asymmetric 12x12 mask, the 26x26 and 65x65 maps
    of the cells of a 130-pixel annulus that are at least half lit; 0, 1 and 3 frames"""
    from aotools.wfs import wfslib
    o = Out()
    masks = [("asymmetric12", (geom.disc_q(12, 17, 6, -8) & ~geom.disc_q(12, 5, 10, 0)).astype(numpy.int64))]
    ann = (geom.disc_q(130, 240) & ~geom.disc_q(130, 70, 12, -8)).astype(numpy.int64)
    for s in (26, 65):
        ones, size = geom.cell_counts(ann, s)
        masks.append(("annulus130/%d" % s, (2 * ones >= size).astype(numpy.int64)))
    for name, mi in masks:
        ns = int(mi.sum())
        for frames in (0, 1, 3):
            for mdtype in (float, numpy.int64, bool):
                data = 0.37 + numpy.arange(frames * 2 * ns, dtype=float).reshape(frames, 2, ns)
                out = numpy.asarray(wfslib.make_subaps_2d(data.copy(), mi.astype(mdtype)))
                o.stat("lib_calls", 1)
                ok = out.shape == (frames, 2) + mi.shape
                back = out[:, :, mi == 1] if ok else None
                ok = ok and back.shape == data.shape and numpy.array_equal(back, data)
                o.check("scatter_gather_identity", ok, sub="%s:frames=%d:mask=%s" % (name, frames, numpy.dtype(mdtype).name),
                        detail=None if ok else {"out_shape": out.shape, "n_subaps": ns})
    return o


def _reuse(p):
    """call histories on objects the caller keeps: a result the caller edits in place (m -= circle(...) is how
    annuli are made) must not change what the next call returns; one caller-owned mask / slope array handed to
    the library repeatedly and edited in between (mc.variants.check_reuse)"""
    from mc import variants
    from aotools.wfs import wfslib
    from aotools.functions import pupil
    o = Out()
    for r4, n, c4, origin in ((8, 5, (0, 0), "middle"), (9, 6, (2, -1), "middle"), (10, 7, (14, 12), "corner"),
                              (4 * 40, 130, (0, 0), "middle")):
        args = (r4 / 4.0, n, (c4[0] / 4.0, c4[1] / 4.0), origin)
        want = geom.disc_q(n, r4, c4[0], c4[1], origin)
        sub = "r=%g:n=%d:c=%s:%s" % args
        m1 = pupil.circle(*args)
        ok1 = numpy.array_equal(numpy.asarray(m1) == 1, want)
        m2 = pupil.circle(*args)                       # same arguments again, first result still alive
        ok2 = numpy.array_equal(numpy.asarray(m2) == 1, want)
        edited = False
        try:
            m1 -= pupil.circle(r4 / 8.0, n, args[2], origin)      # the caller turns ITS array into an annulus
            m1[...] = 7
            edited = True
        except Exception:
            o.stat("circle_result_edit_not_claimed", 1)            # a read-only result: nothing to observe
        m3 = pupil.circle(*args)
        ok3 = numpy.array_equal(numpy.asarray(m3) == 1, want) and bool(numpy.all((numpy.asarray(m3) == 0) | (numpy.asarray(m3) == 1)))
        other = pupil.circle(r4 / 4.0, n, (c4[0] / 4.0 + 1, c4[1] / 4.0), origin)   # another centre in between
        ok4 = numpy.array_equal(numpy.asarray(other) == 1, geom.disc_q(n, r4, c4[0] + 4, c4[1], origin))
        m5 = pupil.circle(*args)
        ok5 = numpy.array_equal(numpy.asarray(m5) == 1, want)
        o.stat("lib_calls", 6)
        o.check("circle_independent_of_call_history", ok1 and ok2, sub=sub + ":repeat")
        o.check("circle_independent_of_call_history", ok3, sub=sub + ":after_caller_edit_of_result",
                detail=None if ok3 else {"edited": edited, "got": numpy.asarray(m3)[:8, :8]})
        o.check("circle_independent_of_call_history", ok4 and ok5, sub=sub + ":after_other_centre")
    amask = numpy.array(pupil.circle(4.25, 12, (1.5, -2.0)) - pupil.circle(1.25, 12, (2.5, 0.0)), dtype=float)
    ns = int(amask.sum())
    slopes = 0.37 + numpy.arange(2 * 2 * ns, dtype=float).reshape(2, 2, ns)
    pos = numpy.array([[0., 0.], [3., 3.], [6., 3.], [9., 9.], [3., 9.]])
    n = 0
    for subaps, thr in ((3, 0.5), (4, 0.25), (6, 0.0), (5, 0.5)):
        n += variants.check_reuse(o, "selection", lambda a: wfslib.findActiveSubaps(subaps, a, thr, returnFill=True),
                                  amask, 1e-12, sub="subaps=%d:thr=%g:fill" % (subaps, thr))
        n += variants.check_reuse(o, "selection", lambda a: wfslib.findActiveSubaps(subaps, a, thr),
                                  amask, 1e-12, sub="subaps=%d:thr=%g" % (subaps, thr))
    n += variants.check_reuse(o, "fill_factor", lambda a: wfslib.computeFillFactor(a, pos, 3), amask, 1e-12, sub="mask")
    n += variants.check_reuse(o, "scatter", lambda a: wfslib.make_subaps_2d(slopes, a), amask, 0.0, sub="mask")
    n += variants.check_reuse(o, "scatter", lambda a: wfslib.make_subaps_2d(a, amask), slopes, 0.0, sub="slopes")
    o.stat("lib_calls", n)
    return o


def _conventions(p):
    """the same call written the other ways callers write it: centre as list / ndarray / numpy scalars, keyword
    arguments (a keyword the function does not know is not claimed by the statement: guarded), the library's own
    EMPTY selection handed to computeFillFactor, integer sub-aperture positions"""
    from aotools.functions import pupil
    from aotools.wfs import wfslib
    o = Out()
    for r4, n, c4, origin in ((4, 4, (2, 2), "middle"), (9, 7, (-3, 6), "middle"), (10, 6, (14, 9), "corner")):
        want = geom.disc_q(n, r4, c4[0], c4[1], origin)
        r, c = r4 / 4.0, (c4[0] / 4.0, c4[1] / 4.0)
        for name, cc in (("list", list(c)), ("ndarray", numpy.array(c))):
            try:
                got = numpy.asarray(pupil.circle(r, n, cc, origin))
                ok = got.shape == (n, n) and numpy.array_equal(got == 1, want)
                det = None if ok else got
            except Exception as e:
                ok, det = False, "%s: %s" % (type(e).__name__, str(e)[:200])
            o.stat("lib_calls", 1)
            o.check("circle_accepts_array_centre", ok, sub="r=%g:n=%d:c=%s:%s:%s" % (r, n, c, origin, name), detail=det)
        try:
            got = numpy.asarray(pupil.circle(radius=r, size=n, circle_centre=c, origin=origin))
        except TypeError:
            o.stat("circle_keywords_not_claimed", 1)
        else:
            o.stat("lib_calls", 1)
            o.check("circle_keyword_call", got.shape == (n, n) and numpy.array_equal(got == 1, want),
                    sub="r=%g:n=%d:c=%s:%s" % (r, n, c, origin))
    mi = (geom.disc_q(12, 22, 2, -3) & ~geom.disc_q(12, 6, 2, -3)).astype(numpy.int64)
    mask = mi.astype(float)
    for s in (2, 3, 4, 6, 12):
        ones, size = geom.cell_counts(mi, s)
        for t in (0.0, 0.5, 1.0, 1.25):
            want = geom.active_cells_int(ones, size, t)
            try:
                got = wfslib.findActiveSubaps(subaps=s, mask=mask.copy(), threshold=t, returnFill=False)
            except TypeError:
                o.stat("selection_keywords_not_claimed", 1)
            else:
                o.stat("lib_calls", 1)
                _, cells = _cells(numpy.asarray(got, dtype=float).reshape(-1, 2), mi.shape, s)
                o.check("selection_keyword_call", sorted(cells) == want, sub="subaps=%d:thr=%g" % (s, t))
            # recomputation of the fill factors from exactly what the selection returned, empty or not
            raw, fills = wfslib.findActiveSubaps(s, mask.copy(), t, returnFill=True)
            o.stat("lib_calls", 1)
            fills = numpy.asarray(fills, dtype=float).ravel()
            for name, posn in (("as_returned", raw),
                               ("integer_positions", numpy.rint(numpy.asarray(raw, dtype=float).reshape(-1, 2)).astype(numpy.int64))):
                try:
                    ff = numpy.asarray(wfslib.computeFillFactor(mask.copy(), posn, 12 // s), dtype=float).ravel()
                    ok = ff.shape == fills.shape and (not len(ff) or float(numpy.max(numpy.abs(ff - fills))) <= FILL_TOL)
                    det = None if ok else {"recomputed": ff, "fills": fills}
                except Exception as e:
                    ok, det = False, "%s: %s" % (type(e).__name__, str(e)[:200])
                o.stat("lib_calls", 1)
                o.check("fills_equal_computeFillFactor", ok, sub="subaps=%d:thr=%g:%s:selected=%d" % (s, t, name, len(fills)),
                        detail=det)
    return o


def _nondyadic(p):
    """'for arbitrary real c': centres that are not on any dyadic lattice (0.1, 1/3, ...), radii a relative 1e-9 and
    1e-11 below / above every distance a pixel centre attains; the oracle is exact rational arithmetic on the exact
    values of the floats handed over.  A radius closer than 1e-12 (relative, in d^2) to some OTHER attained distance
    is skipped: float evaluation of (x - cx)^2 + (y - cy)^2 carries ~1e-15."""
    from fractions import Fraction
    import bisect
    from aotools.functions import pupil
    o = Out()
    n = p["n"]
    bad = skipped = 0
    for origin in ("middle", "corner"):
        for (cx, cy) in ((0.1, -0.3), (1.0 / 3.0, 2.0 / 3.0), (-1.7, 0.45)):
            if origin == "corner":
                cx, cy = cx + n / 2.0 + 0.3, cy + n / 2.0 - 0.7
            off = Fraction(n, 2) if origin == "middle" else Fraction(0)
            X = [Fraction(2 * i + 1, 2) - off - Fraction(cx) for i in range(n)]
            Y = [Fraction(2 * j + 1, 2) - off - Fraction(cy) for j in range(n)]
            d2 = [[Y[j] * Y[j] + X[i] * X[i] for i in range(n)] for j in range(n)]
            distinct = sorted(set(v for row in d2 for v in row))
            rank = numpy.array([[bisect.bisect_left(distinct, v) for v in row] for row in d2])
            approx = numpy.array([float(v) for v in distinct])
            for v in distinct:
                r0 = float(v) ** 0.5
                for eps in (-1e-9, -1e-11, 1e-11, 1e-9):
                    r = r0 * (1.0 + eps)
                    if r <= 0 or float(numpy.min(numpy.abs(approx / (r * r) - 1.0))) < 1e-12:
                        skipped += 1
                        continue
                    want = rank < bisect.bisect_right(distinct, Fraction(r) ** 2)     # d2 <= r^2, exactly
                    got = numpy.asarray(pupil.circle(r, n, (cx, cy), origin))
                    o.stat("lib_calls", 1)
                    ok = got.shape == (n, n) and numpy.array_equal(got == 1, want)
                    if not ok:
                        bad += 1
                        if bad <= 12:
                            o.check("exact_indicator_nondyadic_centre", False,
                                    sub="%s:c=(%r,%r):r=%r" % (origin, cx, cy, r),
                                    detail="%d pixels differ" % (int(numpy.sum((got == 1) != want)) if got.shape == (n, n) else -1))
    if bad == 0:
        o.check("exact_indicator_nondyadic_centre", True)
    elif bad > 12:
        o.check("exact_indicator_nondyadic_centre", False, sub="(more)", detail="%d failing (r, c) in all" % bad)
    o.stat("nondyadic_radii_too_close_to_another_distance_skipped", skipped)
    return o
