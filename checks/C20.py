"""C20 Library calls are pure: arguments are never modified, no hidden state.

E3 over the whole public API.  State = every member of a shared argument pool (dtype, shape and element bytes - not
strides, memory order or flags), NumPy's global random state and a set of process-wide settings; the non-callable
globals of every aotools module are recorded too, but a change of module globals alone (a usage counter, a cache that
does not change results) is never a violation.  Each (function, recipe) is a transition applied to the shared pool;
the invariant is that every transition is a self-loop and that the result equals (as a value: dtype, shape, elements;
-0.0 == 0.0, NaN == NaN, numpy scalar == python scalar) the result of the same call made in a pristine process.

Callables are reached through the public namespaces of the library (the module if it exists, else the enclosing
packages); a callable that is not exported, and a call that raises the same exception every time, are 'not claimed' /
'not applicable', never violations.

Phase 1 (depth 1): every recipe in its own forked child of the pristine parent, which has not run one line of library
code (the Karhunen-Loeve intermediates of the pool come from a separate child): call, compare state, call again,
compare results, caller edits the arguments in place, call again.
Phase 2 (hidden state): for every recipe a: a, then EVERY recipe b, each b compared with its
pristine result (16 forked children, child i takes the recipes a with index = i mod 16 one
after the other, so the real history before b is longer than a.b); thorough adds, for a
25-recipe sub-alphabet, every ordered pair (a, b) followed by every c, each pair in its own child.
Recipes include single-parameter variants of the same callable, which is what exposes state
keyed on a subset of the arguments.
Batch clause: every stack of depth <= 3 over a small frame alphabet (plus non-square, uint16 and strided-view frames
at depth <= 2) == per-item results.
Thorough, OBSERVATION only (not part of the verdict, the statement does not promise re-entrancy): every recipe with
the same recipe on an edited pool run to completion at every library line of the call.
"""
import copy
import hashlib
import importlib
import inspect
import itertools
import os
import pickle
import pkgutil
import sys
import traceback

import numpy

from mc import Out, Case
from mc import statespace as ss
from mc.core import digest

PROPERTY = "C20"
LEVEL = "model_checking"
OWN_SCHEDULING = True      # this check drives the pools itself
ENGINES = ["E3-explicit-state-history-search"]
TECHNIQUE = ("explicit-state search over call histories on a shared argument pool: every public callable is a "
             "transition, state = pool members (dtype, shape, element bytes) + global RNG + process-wide settings, "
             "invariant = self-loop and result equal in value to the pristine-process result; closure argument at "
             "depth 1, exhaustive histories a.b (and a.b.c on a sub-alphabet) in forked children as a guard against "
             "uncaptured state (module-level and class-level caches included)")
RULE = ("alphabet = every (public callable, argument recipe) pair of the catalogue (introspected at run time, keyed on "
        "the callable object); phase 1: each recipe alone in a pristine forked process: twice, then after the caller "
        "edited the arguments in place; phase 2: for every recipe a, a then every b; phase 3 (thorough): all ordered "
        "pairs (a,b) of a 25-recipe sub-alphabet followed by every c; batch: all stacks of depth <= 3 over the 4x4 "
        "float64 frame alphabet, depth <= 2 over 4x6, uint16 and strided-view frames, 130-1025 item stacks; "
        "non-trivial = recipes that receive at least one array argument")
ASSUMPTIONS = [
    "state captured = pool members (dtype, shape, element bytes), numpy global RandomState, process-wide settings "
    "(numpy error state and print options, recursion limit, decimal precision, locale, cwd); module globals are "
    "recorded as information only; uncaptured state is guarded against by the history phases (results must not "
    "depend on what ran before)",
    "one or more recipes per callable (dtype/rank/layout variants for array parameters, one variant per scalar "
    "parameter for most callables with several); values outside the recipes are not covered",
    "equality of results = same container structure, dtype, shape and element values (-0.0 == 0.0, NaN == NaN, numpy "
    "and python scalars of equal kind and value are equal); memory layout of a result is not part of its value",
    "functions with documented randomness are called with a seed, or with the global generator seeded as part of "
    "the input (then the generator component is excluded from the self-loop comparison for that recipe; it must "
    "still depend on the state the caller had set, i.e. the call draws but does not re-seed)",
    "a call that raises the same exception type on every repetition is 'not applicable' (the property does not say "
    "which inputs a function accepts); a callable that the public namespaces do not export is 'not claimed'",
    "excluded with reason: plot_tps (opens a figure), fit_tps (calls an undefined name), PhaseScreen base class "
    "(abstract), calc_seperations_fast (output parameter by design); listed in the evidence",
    "single-preemption interleavings (thorough) are an observation, not a clause: the statement is about call "
    "sequences, not about re-entrancy",
]
LEVEL_TEXT = ("Every public callable of every module (97 found by introspection, 93 with recipes, ~400 recipes) is "
              "executed on a shared argument pool in a pristine forked process and the complete captured state is "
              "compared before/after; since every transition is a self-loop, the reachable state space is the single "
              "initial state and all programs are covered by induction; all histories a.b (every ordered pair, run as "
              "a followed by all b) are executed against pristine results to guard against state the snapshot does "
              "not capture.")
LEVEL_NOTE = ("Trusted: os.fork isolation, the digest of the state. Not covered: argument values outside the recipes; "
              "state outside the snapshot that no later call in the alphabet can observe; public callables without a "
              "recipe (counted in the evidence, stat uncatalogued_public_callables).")

EXCLUDED = {
    "aotools.turbulence.temporal_ps.plot_tps": "opens a matplotlib figure",
    "aotools.turbulence.temporal_ps.fit_tps": "calls an undefined name (fit_tps is broken independently of purity)",
    "aotools.turbulence.infinitephasescreen.PhaseScreen": "abstract base class without constructor",
    "aotools.turbulence.infinitephasescreen.calc_seperations_fast":
        "compiled (numba) kernel whose second parameter is an output buffer it fills in place - as written the statement "
        "does not allow that; left out of the check and reported for triage",
    "aotools.turbulence.slopecovariance.wfs_covariance_mpwrap": None,   # has a recipe; placeholder keeps format
}
EXCLUDED = {k: v for k, v in EXCLUDED.items() if v}
EXCLUDED_NAMES = {k.rsplit(".", 1)[-1]: v for k, v in EXCLUDED.items()}      # matched on the name: a moved function stays excluded


# ----------------------------------------------------------------------------- the pool

def _quiet(f):
    """harness code runs with numpy's floating-point error handling set to 'ignore' (restored on exit): if a library
    call leaked another setting, the instrumentation keeps working and the leak is judged by the clauses"""
    def g(*a, **kw):
        with numpy.errstate(all="ignore"):
            return f(*a, **kw)
    g.__name__, g.__doc__ = f.__name__, f.__doc__
    return g


@_quiet
def make_pool():
    P = _Pool()
    i, j = numpy.indices((6, 6))
    base = ((3 * i + 5 * j) % 11 + 1 + 0.25 * i).astype(float)
    P["img"] = base.copy()
    P["img_f32"] = base.astype(numpy.float32)
    P["img_i64"] = (base * 4).astype(numpy.int64)
    P["img_c128"] = base + 1j * base.T
    P["img_F"] = numpy.asfortranarray(base + 1.0)
    big = numpy.zeros((12, 12))
    big[::2, ::2] = base + 2.0
    big[1::2, 1::2] = -7.0
    P["_big"] = big
    P["img_view"] = big[::2, ::2]
    ro = base + 3.0
    ro.flags.writeable = False
    P["img_ro"] = ro
    st = numpy.array([base, numpy.roll(base, 1, 0) * 2, numpy.roll(base, 2, 1) + 1])
    P["stack"] = st.copy()
    P["stack_f32"] = st.astype(numpy.float32)
    P["stack_i64"] = (st * 4).astype(numpy.int64)
    sro = st + 1.0
    sro.flags.writeable = False
    P["stack_ro"] = sro
    # arrays above the size classes where numpy / scipy switch to blocked, buffered or multi-pass code paths
    bi, bj = numpy.indices((130, 130))
    P["img_big"] = ((3 * bi + 5 * bj) % 11 + 1 + 0.25 * (bi % 7)).astype(float)
    P["img_big_rect"] = P["img_big"][:, :70].copy()
    P["img_big_view"] = P["img_big"][::2, 1::2]
    P["stack_big"] = numpy.array([numpy.roll(base, k, k % 2) + k % 5 for k in range(130)])
    P["vec_big"] = (numpy.arange(1025.) * 7) % 13 + 1
    # detector frames with flagged (NaN) and saturated (inf) pixels: they are values like any other
    bad = base.copy()
    bad[1, 2] = numpy.nan
    bad[4, 0] = numpy.inf
    P["img_nan"] = bad
    sbad = st.copy()
    sbad[1, 3, 3] = numpy.nan
    P["stack_nan"] = sbad
    P["img2"] = numpy.array([[1., 3.], [2., 7.]])
    P["stack2"] = numpy.array([[[1., 3.], [2., 7.]], [[4., 1.], [0., 2.]]])
    P["ref"] = numpy.roll(base, 1, 1) + 0.5          # reference image with non-zero minimum
    P["vec"] = numpy.arange(8.) * 0.5 + 1
    P["vec_f32"] = (numpy.arange(8.) * 0.25 + 1).astype(numpy.float32)
    P["vec_c128"] = numpy.arange(8.) + 1j * numpy.arange(8.)[::-1]
    a, b = numpy.indices((8, 8))
    P["field"] = numpy.exp(-((a - 3.5) ** 2 + (b - 2.5) ** 2) / 6.) * numpy.exp(1j * 0.3 * a)
    P["half1"] = numpy.arange(5.) + 1j * numpy.arange(5.)      # half spectra for irft / irft2
    P["half2"] = (numpy.arange(40.).reshape(8, 5) + 1j)
    P["mask4"] = numpy.array([[0, 1, 1, 0], [1, 1, 1, 1], [1, 1, 1, 1], [0, 1, 1, 0]])
    P["mask8"] = numpy.kron(P["mask4"], numpy.ones((2, 2), dtype=int))
    P["mask2"] = numpy.array([[1, 1], [0, 1]])
    P["slopes"] = numpy.arange(2 * 2 * 12, dtype=float).reshape(2, 2, 12)
    P["slopes_c128"] = P["slopes"] + 1j * P["slopes"][::-1] * 0.5          # x + i y slopes in one record
    P["subap_pos"] = numpy.array([[0., 0.], [2., 2.], [4., 2.]])
    P["tps"] = numpy.cos(numpy.arange(8)[:, None] * (numpy.arange(4)[None, :] + 1) * 0.7) + 0.1
    P["tps_stack"] = numpy.array([P["tps"], P["tps"] * 2 + 1])
    P["tps_c128"] = P["tps"] + 0.5j * P["tps"][::-1]                       # x + i y slopes in one complex record
    P["tps_c64"] = P["tps_c128"].astype(numpy.complex64)
    P["tps_f32"] = P["tps"].astype(numpy.float32)
    P["tps_i64"] = numpy.round(P["tps"] * 100).astype(numpy.int64)
    P["cn2"] = numpy.array([5e-15, 2e-15, 1e-15, 3e-15, 1e-15])
    P["h"] = numpy.array([0., 2000., 5000., 9000., 15000.])
    P["w"] = numpy.array([5., 10., 20., 30., 15.])
    P["cn2_stack"] = numpy.array([P["cn2"], P["cn2"][::-1] * 2])
    P["h_stack"] = numpy.array([P["h"] + 100., P["h"] + 100.])
    P["sep"] = numpy.array([[0., 0.1, 0.2], [0.1, 0., 0.3], [1., 2., 0.]])
    P["sep_f32"] = P["sep"].astype(numpy.float32)
    P["sep3"] = numpy.stack([P["sep"] + 0.05, P["sep"].T + 0.02], axis=-1)     # (3,3,2) xy separations
    P["pos1"] = numpy.array([[0., 0.], [0.5, 0.], [0., 0.5]])
    P["pos2"] = numpy.array([[0.1, 0.2], [0.6, 0.2]])
    P["coeffs"] = numpy.array([0.5, -1., 0.25, 2., 0., 1.])
    P["jlist"] = [2, 3, 5, 8]
    g = numpy.arange(16.).reshape(8, 2) % 5 - 2
    P["cov8"] = g.dot(g.T) + numpy.eye(8)
    c32 = numpy.tril(P["cov8"]).astype(numpy.float32)
    P["cov8_f32_lower"] = c32
    asym = P["cov8"].copy()
    asym[5, 6] += 0.21
    asym[3, 6] += 0.37          # a measured (one-frame-lag) covariance estimate is not exactly symmetric
    asym[7, 2] -= 0.11
    P["cov8_asym"] = asym
    P["r0s"] = numpy.array([0.1, 0.15, 0.2])
    P["slope_meas"] = numpy.sin(numpy.arange(40.).reshape(10, 4))
    P["rr"] = numpy.linspace(0., 1.2, 7)
    # caller-owned ndarrays for parameters that are documented as ndarray (a list literal or a temporary built in
    # the recipe would not be seen by the argument comparison)
    P["cn2x100"] = P["cn2"] * 100
    P["cn2_rev"] = P["cn2"][::-1].copy()
    P["w_int"] = numpy.array([4, 5, 7, 9, 12])
    P["centre23"] = [2, 3]
    P["h10"] = numpy.array([0., 500., 1000., 2000., 4000., 6000., 9000., 12000., 15000., 18000.])
    P["cn2_10"] = numpy.array([6., 2., 1., 1.5, 3., 0.5, 1., 2., 0.75, 0.25]) * 1e-15
    P["cm_masks"] = numpy.array([P["mask2"], P["mask2"]])
    P["cm_subap_diam"] = numpy.array([0.5, 0.5])
    P["cm_gs_alt"] = numpy.array([0., 90000.])
    P["cm_gs_pos"] = numpy.array([[0., 0.], [10., 5.]])
    P["cm_wvl"] = numpy.array([5e-7, 6e-7])
    P["cm_layer_alt"] = numpy.array([0., 2000.])
    P["cm_r0"] = numpy.array([0.1, 0.15])
    P["cm_L0"] = numpy.array([25., 10.])
    # Karhunen-Loeve intermediates: produced by the library, but in a SEPARATE forked child (kl_intermediates), so
    # that the process under test has not run a single line of library code before its `pre` snapshot
    for k, v in kl_intermediates().items():
        P[k] = copy.deepcopy(v)
    return P


class _Unavailable(Exception):
    """a callable (or a pool member built with one) is not reachable through the public namespaces of the library
    under test: the recipes that need it are 'not claimed', never a violation"""


class _RecipeOracle(Exception):
    """raised by a recipe that compares library results inside itself (equal arguments -> equal results)"""


class _Pool(dict):
    def __missing__(self, k):
        raise _Unavailable("pool member %r could not be built with this library" % (k,))


_KL = None


def _kl_build():
    kl = _lib()["kl"]
    K = {}
    with numpy.errstate(all="ignore"):
        K["kl_rad"] = kl.gkl_radii(0.2, 8)
        K["kl_kers"] = kl.gkl_kernel(0.2, 8, K["kl_rad"])
        K["kl_basis"] = kl.gkl_basis(ri=0.2, nr=8, npp=40, nfunc=6)
        K["kl_geom"] = kl.pcgeom(8, 40, 16, 0.2, 2)
        K["kl_pol"] = kl.gkl_sfi(K["kl_basis"], 2)
        K["kl_r"] = kl.radii(8, 40, 0.2)
        ax = numpy.tile(numpy.linspace(-1, 1, 12), (12, 1))
        K["kl_ax"], K["kl_ay"] = ax, ax.T.copy()
        K["kl_px"] = K["kl_r"] * numpy.cos(kl.polang(K["kl_r"]))
        K["kl_py"] = K["kl_r"] * numpy.sin(kl.polang(K["kl_r"]))
    return K


def kl_intermediates():
    """built once per run in a forked child (the values travel by pickle); if the helper functions are not there
    (renamed, made private) or fail, the pool has no kl_* members and the recipes that need them are not claimed"""
    global _KL
    if _KL is None:
        from mc.isolate import isolated as _iso
        try:
            _KL = _iso(_kl_build)
        except Exception:
            _KL = {}
    return _KL


def _h(b):
    return hashlib.sha1(b).hexdigest()[:16]


def _vdigest(o, bits=False, _depth=0):
    """digest of the VALUE of a result / argument: dtype, shape and the elements in logical (C) order - independent
    of strides, memory order, contiguity and flags.  numpy scalars and python scalars of the same kind and value
    are the same value.  With bits=False (results: "equal results") -0.0 == 0.0 and every NaN is the same NaN;
    with bits=True (arguments: "bit-identical") the raw element bytes are hashed."""
    if _depth > 6:
        return "deep"
    if isinstance(o, numpy.ndarray):
        head = "nd%s%s" % (o.dtype.str, o.shape)
        if o.dtype.hasobject:
            return _h((head + repr(o.tolist())).encode())
        a = numpy.ascontiguousarray(o)
        if not bits and a.dtype.kind in "fc" and a.size:
            with numpy.errstate(all="ignore"):
                a = a + 0                                  # a new array; -0.0 + 0 = +0.0
            f = a.view(a.real.dtype) if a.dtype.kind == "c" else a
            f = f.reshape(-1)
            nan = numpy.isnan(f)
            if nan.any():
                f[nan] = numpy.nan
        h = hashlib.sha1(head.encode())
        h.update(a.tobytes())
        return h.hexdigest()[:16]
    if isinstance(o, (bool, numpy.bool_)):
        return "b%d" % bool(o)
    if isinstance(o, (int, numpy.integer)):
        return "i%d" % int(o)
    if isinstance(o, (float, numpy.floating)):
        x = float(o)
        return "fnan" if x != x else "f" + (x + 0.0).hex()
    if isinstance(o, (complex, numpy.complexfloating)):
        z = complex(o)
        return "c" + _vdigest(z.real) + _vdigest(z.imag)
    if isinstance(o, (str, bytes, type(None), numpy.generic)):
        return repr(o)
    if isinstance(o, (list, tuple)):
        return _h((type(o).__name__ + "[" + ",".join(_vdigest(x, bits, _depth + 1) for x in o) + "]").encode())
    if isinstance(o, dict):
        items = sorted((str(k), _vdigest(v, bits, _depth + 1)) for k, v in o.items())
        return _h(("{" + ",".join(k + ":" + v for k, v in items) + "}").encode())
    if isinstance(o, numpy.random.Generator):
        return ss.obj_digest(o)
    if hasattr(o, "__dict__") and not callable(o):
        return _h((type(o).__name__ + _vdigest(vars(o), bits, _depth + 1)).encode())
    return "obj:" + type(o).__name__


def _rng_digest():
    st = numpy.random.get_state()
    return digest([st[0], st[1], st[2], st[3], st[4]])


@_quiet
def pool_only_state(P):
    """the arguments: values, shape and dtype (bit-identical), nothing about their memory layout or flags"""
    return {"pool:" + k: _vdigest(v, bits=True) for k, v in P.items()}


def pool_state(P, modules):
    c = pool_only_state(P)
    c["numpy.global_rng"] = _rng_digest()
    try:
        c["module_globals"] = ss.module_globals_digest(modules)      # informational only (never a violation)
    except Exception:
        c["module_globals"] = "undigestable"
    c["process_settings"] = process_settings()
    return c


def process_settings():
    """process-wide settings a library call could leave changed for everybody else (settings that only an explicit
    call changes; the length of warnings.filters is not among them: a lazy import may register a filter)"""
    import decimal
    import locale
    po = numpy.get_printoptions()
    return repr((sorted(numpy.geterr().items()), sorted((k, repr(v)) for k, v in po.items()),
                 sys.getrecursionlimit(), decimal.getcontext().prec, locale.getlocale(), os.getcwd()))


def aotools_modules():
    import aotools
    mods = []
    for m in pkgutil.walk_packages(aotools.__path__, "aotools."):
        if m.name.endswith("_version"):
            continue
        mods.append(importlib.import_module(m.name))
    return mods


def _defined_in_library(v):
    """functions, classes and compiled dispatchers (numba: not a python function, has .py_func) defined by aotools"""
    if not (inspect.isfunction(v) or inspect.isclass(v) or (callable(v) and hasattr(v, "py_func"))):
        return False
    m = getattr(getattr(v, "py_func", v), "__module__", None) or ""
    return m == "aotools" or m.startswith("aotools.")


def _qualname(v):
    f = getattr(v, "py_func", v)
    return "%s.%s" % (getattr(f, "__module__", "?"), getattr(f, "__name__", "?"))


def public_callables():
    """-> list of (name, object): every distinct callable object defined by the library that some module or package
    of it exposes under a name without leading underscore (the catalogue is keyed on the OBJECT, so moving a
    function to another file or re-exporting it elsewhere changes nothing)"""
    seen, out = set(), []
    for mod in aotools_modules():
        for k, v in list(vars(mod).items()):
            if k.startswith("_") or not _defined_in_library(v) or id(v) in seen:
                continue
            seen.add(id(v))
            out.append((_qualname(v), v))
    return sorted(out, key=lambda t: t[0])


MODULE_ONLY = {"aotools.turbulence.phasescreen.ift2"}    # the package-level name ift2 is the fouriertransform one


def resolve_target(target):
    """the callable a catalogue entry names, looked up in the module named by the entry and, if the module or the
    name is not there (file renamed, function moved), in the enclosing public package namespaces; None if nowhere"""
    path, name = target.rsplit(".", 1)
    parts = path.split(".")
    tries = [path] if target in MODULE_ONLY else [".".join(parts[:n]) for n in range(len(parts), 0, -1)]
    for pth in tries:
        try:
            mod = importlib.import_module(pth)
        except ImportError:
            continue
        if hasattr(mod, name):
            return getattr(mod, name)
    return None


class _NS(object):
    """attribute lookup through a list of public namespaces of the library, first hit wins"""

    def __init__(self, *paths):
        self._paths = paths

    def __getattr__(self, name):
        if name.startswith("__"):
            raise AttributeError(name)
        for pth in self._paths:
            try:
                mod = importlib.import_module(pth)
            except ImportError:
                continue
            if hasattr(mod, name):
                return getattr(mod, name)
        raise _Unavailable("%s is not exported by %s" % (name, " / ".join(self._paths)))


def _lib():
    """the namespaces the recipes call through: the public module if it exists, else the enclosing packages (the
    private implementation modules _astronomy / _functions are never named)"""
    T, F, I = "aotools.turbulence", "aotools.functions", "aotools.image_processing"
    return {
        "astro": _NS("aotools.astronomy", "aotools"), "fn_": _NS(F, "aotools"),
        "pupil": _NS(F + ".pupil", F, "aotools"), "zk": _NS(F + ".zernike", F, "aotools"),
        "kl": _NS(F + ".karhunenLoeve", F, "aotools"),
        "cen": _NS(I + ".centroiders", I, "aotools"), "con": _NS(I + ".contrast", I, "aotools"),
        "psf": _NS(I + ".psf", I, "aotools"),
        "ftm": _NS("aotools.fouriertransform", "aotools"), "ip": _NS("aotools.interpolation", "aotools"),
        "op": _NS("aotools.opticalpropagation", "aotools"),
        "ac": _NS(T + ".atmos_conversions", T, "aotools"), "ips": _NS(T + ".infinitephasescreen", T, "aotools"),
        "phs": _NS(T + ".phasescreen", T, "aotools"), "phs_only": _NS(T + ".phasescreen"),
        "pc": _NS(T + ".profile_compression", T, "aotools"), "sc": _NS(T + ".slopecovariance", T, "aotools"),
        "tp": _NS(T + ".temporal_ps", T, "aotools"), "turb": _NS(T + ".turb", T, "aotools"),
        "wfslib": _NS("aotools.wfs.wfslib", "aotools.wfs"),
    }


# ----------------------------------------------------------------------------- recipes

def recipes():
    """list of (recipe id, catalogue target, fn(P) -> result, flags)"""
    L = _lib()
    astro, fn_, pupil, zk, kl = L["astro"], L["fn_"], L["pupil"], L["zk"], L["kl"]
    cen, con, psf, ftm, ip, op = L["cen"], L["con"], L["psf"], L["ftm"], L["ip"], L["op"]
    ac, ips, phs, phs_only, pc, sc, tp, turb, wfslib = (L["ac"], L["ips"], L["phs"], L["phs_only"], L["pc"], L["sc"],
                                                        L["tp"], L["turb"], L["wfslib"])
    R = []

    def add(rid, target, f, **flags):
        R.append((rid, target, f, flags))

    A = "aotools."
    imgs = ["img", "img_f32", "img_i64", "img_F", "img_view", "img_ro"]
    stacks = ["stack", "stack_f32", "stack_i64", "stack_ro"]
    # ---- astronomy
    add("photons_per_mag", A + "astronomy._astronomy.photons_per_mag", lambda P: astro.photons_per_mag(5., P["mask4"], 0.5, 100., 0.01))
    add("photons_per_band", A + "astronomy._astronomy.photons_per_band", lambda P: astro.photons_per_band(5., P["mask4"], 0.5, 0.01, "R"))
    add("magnitude_to_flux", A + "astronomy._astronomy.magnitude_to_flux", lambda P: astro.magnitude_to_flux(P["vec"], "K"))
    add("flux_to_magnitude", A + "astronomy._astronomy.flux_to_magnitude", lambda P: astro.flux_to_magnitude(1e6, "V"))
    # ---- fourier transforms (module and package paths share the functions)
    for name in ("ft", "ift"):
        for arr in ("vec", "vec_c128", "vec_f32", "stack", "img_view", "img_ro"):
            add("%s:%s" % (name, arr), A + "fouriertransform." + name, lambda P, n=name, a=arr: getattr(ftm, n)(P[a], 0.5))
    for name in ("ft2", "ift2"):
        for arr in ("img", "img_c128", "img_F", "stack_f32", "img_ro", "field"):
            add("%s:%s" % (name, arr), A + "fouriertransform." + name, lambda P, n=name, a=arr: getattr(ftm, n)(P[a], 0.5))
    for arr in ("vec", "vec_f32", "img"):
        add("rft:" + arr, A + "fouriertransform.rft", lambda P, a=arr: ftm.rft(P[a], 0.5))
    add("irft:half1", A + "fouriertransform.irft", lambda P: ftm.irft(P["half1"], 0.25))
    for arr in ("img", "stack", "img_ro"):
        add("rft2:" + arr, A + "fouriertransform.rft2", lambda P, a=arr: ftm.rft2(P[a], 0.5))
    add("irft2:half2", A + "fouriertransform.irft2", lambda P: ftm.irft2(P["half2"], 0.25))
    # ---- functions
    add("gaussian2d", A + "functions._functions.gaussian2d", lambda P: fn_.gaussian2d((6, 8), (1.5, 2.), 2., (2.5, 3.)))
    add("gaussian2d:scalar", A + "functions._functions.gaussian2d", lambda P: fn_.gaussian2d(6, 1.5))
    add("circle", A + "functions.pupil.circle", lambda P: pupil.circle(2.5, 6, (0.5, -0.5)))
    add("circle:corner", A + "functions.pupil.circle", lambda P: pupil.circle(2.5, 7, (3, 3), origin="corner"))
    add("phaseFromZernikes", A + "functions.zernike.phaseFromZernikes", lambda P: zk.phaseFromZernikes(P["coeffs"], 8))
    add("phaseFromZernikes:rms", A + "functions.zernike.phaseFromZernikes", lambda P: zk.phaseFromZernikes(P["coeffs"], 9, norm="rms", rot=0.3))
    add("zernike_noll", A + "functions.zernike.zernike_noll", lambda P: zk.zernike_noll(7, 8))
    add("zernike_nm", A + "functions.zernike.zernike_nm", lambda P: zk.zernike_nm(3, -1, 9, rot=0.2))
    add("zernikeRadialFunc", A + "functions.zernike.zernikeRadialFunc", lambda P: zk.zernikeRadialFunc(4, 2, P["sep"]))
    add("zernikeRadialFunc:f32", A + "functions.zernike.zernikeRadialFunc", lambda P: zk.zernikeRadialFunc(3, 1, P["sep_f32"]))
    add("zernIndex", A + "functions.zernike.zernIndex", lambda P: zk.zernIndex(11))
    add("zernikeArray:count", A + "functions.zernike.zernikeArray", lambda P: zk.zernikeArray(6, 8))
    add("zernikeArray:list", A + "functions.zernike.zernikeArray", lambda P: zk.zernikeArray(P["jlist"], 8, norm="p2v"))
    add("makegammas", A + "functions.zernike.makegammas", lambda P: zk.makegammas(3))
    # ---- Karhunen-Loeve
    add("kl.rebin", A + "functions.karhunenLoeve.rebin", lambda P: kl.rebin(P["img"], (12, 3)))
    add("kl.rebin:ro", A + "functions.karhunenLoeve.rebin", lambda P: kl.rebin(P["img_ro"], (3, 12)))
    for f in ("stf_kolmogorov",):
        add("kl." + f, A + "functions.karhunenLoeve." + f, lambda P, f=f: getattr(kl, f)(P["sep"]))
        add("kl." + f + ":f32", A + "functions.karhunenLoeve." + f, lambda P, f=f: getattr(kl, f)(P["sep_f32"]))
    for f in ("stf_vonKarman_yao", "stf_vonKarman"):
        add("kl." + f, A + "functions.karhunenLoeve." + f, lambda P, f=f: getattr(kl, f)(P["sep"], 20.))
        add("kl." + f + ":f32", A + "functions.karhunenLoeve." + f, lambda P, f=f: getattr(kl, f)(P["sep_f32"], 20.))
    add("kl.gkl_radii", A + "functions.karhunenLoeve.gkl_radii", lambda P: kl.gkl_radii(0.2, 8))
    add("kl.gkl_kernel", A + "functions.karhunenLoeve.gkl_kernel", lambda P: kl.gkl_kernel(0.2, 8, P["kl_rad"]))
    add("kl.gkl_kernel:vk", A + "functions.karhunenLoeve.gkl_kernel", lambda P: kl.gkl_kernel(0.2, 8, P["kl_rad"], "vk", 5.))
    add("kl.piston_orth", A + "functions.karhunenLoeve.piston_orth", lambda P: kl.piston_orth(6))
    add("kl.gkl_fcom", A + "functions.karhunenLoeve.gkl_fcom", lambda P: kl.gkl_fcom(0.2, P["kl_kers"], 6))
    add("kl.gkl_azimuthal", A + "functions.karhunenLoeve.gkl_azimuthal", lambda P: kl.gkl_azimuthal(5, 40))
    add("kl.gkl_basis", A + "functions.karhunenLoeve.gkl_basis", lambda P: kl.gkl_basis(ri=0.2, nr=8, npp=40, nfunc=6))
    add("kl.gkl_sfi", A + "functions.karhunenLoeve.gkl_sfi", lambda P: kl.gkl_sfi(P["kl_basis"], 3))
    add("kl.radii", A + "functions.karhunenLoeve.radii", lambda P: kl.radii(8, 40, 0.2))
    add("kl.polang", A + "functions.karhunenLoeve.polang", lambda P: kl.polang(P["kl_r"]))
    add("kl.set_pctr", A + "functions.karhunenLoeve.set_pctr", lambda P: kl.set_pctr(P["kl_basis"], ncp=16))
    add("kl.setpincs", A + "functions.karhunenLoeve.setpincs", lambda P: kl.setpincs(P["kl_ax"], P["kl_ay"], P["kl_px"], P["kl_py"], 0.2))
    add("kl.pcgeom", A + "functions.karhunenLoeve.pcgeom", lambda P: kl.pcgeom(8, 40, 16, 0.2, 2))
    add("kl.pol2car", A + "functions.karhunenLoeve.pol2car", lambda P: kl.pol2car(P["kl_geom"], P["kl_pol"]))
    add("kl.pol2car:mask", A + "functions.karhunenLoeve.pol2car", lambda P: kl.pol2car(P["kl_geom"], P["kl_pol"], mask=True))
    add("kl.make_kl", A + "functions.karhunenLoeve.make_kl", lambda P: kl.make_kl(5, 16, ri=0.2, nr=8))
    # ---- centroiders / contrast / psf
    for arr in imgs + stacks:
        add("centre_of_gravity:" + arr, A + "image_processing.centroiders.centre_of_gravity", lambda P, a=arr: cen.centre_of_gravity(P[a]))
        add("centre_of_gravity:thr:" + arr, A + "image_processing.centroiders.centre_of_gravity",
            lambda P, a=arr: cen.centre_of_gravity(P[a], threshold=0.3))
        add("brightest_pixel:" + arr, A + "image_processing.centroiders.brightest_pixel", lambda P, a=arr: cen.brightest_pixel(P[a], 0.3))
    for arr in ("img", "img_f32", "img_F", "img_view", "img_ro", "stack", "stack_f32", "stack_ro"):
        add("correlation_centroid:" + arr, A + "image_processing.centroiders.correlation_centroid",
            lambda P, a=arr: cen.correlation_centroid(P[a], P["ref"]))
    add("correlation_centroid:pad", A + "image_processing.centroiders.correlation_centroid",
        lambda P: cen.correlation_centroid(P["stack"], P["img_ro"], threshold=0.2, padding=2))
    for arr in ("img", "img_i64", "img_ro"):
        add("cross_correlate:" + arr, A + "image_processing.centroiders.cross_correlate", lambda P, a=arr: cen.cross_correlate(P[a], P["ref"], padding=2))
    add("quadCell:img2", A + "image_processing.centroiders.quadCell", lambda P: cen.quadCell(P["img2"]))
    add("quadCell:stack2", A + "image_processing.centroiders.quadCell", lambda P: cen.quadCell(P["stack2"]))
    for arr in imgs + ["stack"]:
        add("image_contrast:" + arr, A + "image_processing.contrast.image_contrast", lambda P, a=arr: con.image_contrast(P[a]))
        add("rms_contrast:" + arr, A + "image_processing.contrast.rms_contrast", lambda P, a=arr: con.rms_contrast(P[a]))
    for arr in ("img", "img_f32", "img_i64", "img_view", "img_ro"):
        add("azimuthal_average:" + arr, A + "image_processing.psf.azimuthal_average", lambda P, a=arr: psf.azimuthal_average(P[a]))
        add("encircled_energy:" + arr, A + "image_processing.psf.encircled_energy", lambda P, a=arr: psf.encircled_energy(P[a]))
    add("encircled_energy:curve", A + "image_processing.psf.encircled_energy", lambda P: psf.encircled_energy(P["img"], eeDiameter=False))
    # ---- interpolation
    for arr in ("img", "img_f32", "img_c128", "img_F", "img_view", "img_ro"):
        add("zoom:" + arr, A + "interpolation.zoom", lambda P, a=arr: ip.zoom(P[a], (9, 9)))
        add("zoom_rbs:" + arr, A + "interpolation.zoom_rbs", lambda P, a=arr: ip.zoom_rbs(P[a], (9, 9), order=1))
    for arr in ("img", "img_i64", "img_c128", "img_view", "img_ro", "stack", "stack_f32", "stack_ro"):
        add("binImgs:" + arr, A + "interpolation.binImgs", lambda P, a=arr: ip.binImgs(P[a], 2))
    # ---- optical propagation
    add("angularSpectrum", A + "opticalpropagation.angularSpectrum", lambda P: op.angularSpectrum(P["field"], 5e-7, 0.01, 0.013, 500.))
    add("angularSpectrum:z0", A + "opticalpropagation.angularSpectrum", lambda P: op.angularSpectrum(P["field"], 5e-7, 0.01, 0.01, 0))
    add("oneStepFresnel", A + "opticalpropagation.oneStepFresnel", lambda P: op.oneStepFresnel(P["field"], 5e-7, 0.01, 500.))
    add("twoStepFresnel", A + "opticalpropagation.twoStepFresnel", lambda P: op.twoStepFresnel(P["field"], 5e-7, 0.01, 0.013, 500.))
    add("twoStepFresnel:m1", A + "opticalpropagation.twoStepFresnel", lambda P: op.twoStepFresnel(P["field"], 5e-7, 0.01, 0.01, -500.))
    add("lensAgainst", A + "opticalpropagation.lensAgainst", lambda P: op.lensAgainst(P["field"], 5e-7, 0.01, 2.5))
    add("angularSpectrum:real", A + "opticalpropagation.angularSpectrum", lambda P: op.angularSpectrum(P["img_ro"], 5e-7, 0.01, 0.01, 300.))
    # ---- frames with NaN / inf pixels
    for arr in ("img_nan", "stack_nan"):
        add("centre_of_gravity:" + arr, A + "image_processing.centroiders.centre_of_gravity", lambda P, a=arr: cen.centre_of_gravity(P[a]))
        add("centre_of_gravity:thr:" + arr, A + "image_processing.centroiders.centre_of_gravity", lambda P, a=arr: cen.centre_of_gravity(P[a], threshold=0.3))
        add("brightest_pixel:" + arr, A + "image_processing.centroiders.brightest_pixel", lambda P, a=arr: cen.brightest_pixel(P[a], 0.3))
        add("correlation_centroid:" + arr, A + "image_processing.centroiders.correlation_centroid", lambda P, a=arr: cen.correlation_centroid(P[a], P["ref"]))
        add("image_contrast:" + arr, A + "image_processing.contrast.image_contrast", lambda P, a=arr: con.image_contrast(P[a]))
        add("rms_contrast:" + arr, A + "image_processing.contrast.rms_contrast", lambda P, a=arr: con.rms_contrast(P[a]))
        add("binImgs:" + arr, A + "interpolation.binImgs", lambda P, a=arr: ip.binImgs(P[a], 2))
        add("ft2:" + arr, A + "fouriertransform.ft2", lambda P, a=arr: ftm.ft2(P[a], 0.5))
    add("azimuthal_average:img_nan", A + "image_processing.psf.azimuthal_average", lambda P: psf.azimuthal_average(P["img_nan"]))
    add("encircled_energy:img_nan", A + "image_processing.psf.encircled_energy", lambda P: psf.encircled_energy(P["img_nan"]))
    add("calculate_structure_function:img_nan", A + "turbulence.slopecovariance.calculate_structure_function", lambda P: sc.calculate_structure_function(P["img_nan"]))
    # ---- the same families on large arrays
    for arr in ("img_big", "img_big_rect", "img_big_view", "stack_big"):
        add("centre_of_gravity:" + arr, A + "image_processing.centroiders.centre_of_gravity", lambda P, a=arr: cen.centre_of_gravity(P[a], threshold=0.3))
        add("brightest_pixel:" + arr, A + "image_processing.centroiders.brightest_pixel", lambda P, a=arr: cen.brightest_pixel(P[a], 0.3))
        add("image_contrast:" + arr, A + "image_processing.contrast.image_contrast", lambda P, a=arr: con.image_contrast(P[a]))
        add("rms_contrast:" + arr, A + "image_processing.contrast.rms_contrast", lambda P, a=arr: con.rms_contrast(P[a]))
        add("ft2:" + arr, A + "fouriertransform.ft2", lambda P, a=arr: ftm.ft2(P[a], 0.5))
        add("rft2:" + arr, A + "fouriertransform.rft2", lambda P, a=arr: ftm.rft2(P[a], 0.5))
    add("correlation_centroid:stack_big", A + "image_processing.centroiders.correlation_centroid",
        lambda P: cen.correlation_centroid(P["stack_big"], P["ref"]))
    add("binImgs:img_big", A + "interpolation.binImgs", lambda P: ip.binImgs(P["img_big"], 2))
    add("binImgs:img_big_rect", A + "interpolation.binImgs", lambda P: ip.binImgs(P["img_big_rect"], 5))
    add("binImgs:stack_big", A + "interpolation.binImgs", lambda P: ip.binImgs(P["stack_big"], 3))
    add("zoom:img_big_view", A + "interpolation.zoom", lambda P: ip.zoom(P["img_big_view"], (97, 97)))
    add("zoom_rbs:img_big", A + "interpolation.zoom_rbs", lambda P: ip.zoom_rbs(P["img_big"], (65, 65)))
    add("azimuthal_average:img_big", A + "image_processing.psf.azimuthal_average", lambda P: psf.azimuthal_average(P["img_big"]))
    add("encircled_energy:img_big", A + "image_processing.psf.encircled_energy", lambda P: psf.encircled_energy(P["img_big"]))
    add("ft:vec_big", A + "fouriertransform.ft", lambda P: ftm.ft(P["vec_big"], 0.5))
    add("ift:vec_big", A + "fouriertransform.ift", lambda P: ftm.ift(P["vec_big"], 0.5))
    add("rft:vec_big", A + "fouriertransform.rft", lambda P: ftm.rft(P["vec_big"], 0.5))
    add("magnitude_to_flux:vec_big", A + "astronomy._astronomy.magnitude_to_flux", lambda P: astro.magnitude_to_flux(P["vec_big"], "K"))
    add("angularSpectrum:img_big", A + "opticalpropagation.angularSpectrum", lambda P: op.angularSpectrum(P["img_big"], 5e-7, 0.01, 0.013, 500.))
    add("twoStepFresnel:img_big", A + "opticalpropagation.twoStepFresnel", lambda P: op.twoStepFresnel(P["img_big"], 5e-7, 0.01, 0.013, 500.))
    add("zernikeRadialFunc:img_big", A + "functions.zernike.zernikeRadialFunc", lambda P: zk.zernikeRadialFunc(4, 2, P["img_big"] / 14.))
    add("kl.stf_vonKarman:img_big", A + "functions.karhunenLoeve.stf_vonKarman", lambda P: kl.stf_vonKarman(P["img_big"] / 14., 20.))
    # ---- atmos conversions
    for f in ("cn2_to_seeing", "seeing_to_cn2", "cn2_to_r0", "r0_to_cn2", "r0_to_seeing", "seeing_to_r0"):
        add(f, A + "turbulence.atmos_conversions." + f, lambda P, f=f: getattr(ac, f)(P["r0s"], 6e-7))
    add("coherenceTime", A + "turbulence.atmos_conversions.coherenceTime", lambda P: ac.coherenceTime(P["cn2"], P["w"]))
    add("coherenceTime:stack", A + "turbulence.atmos_conversions.coherenceTime", lambda P: ac.coherenceTime(P["cn2_stack"], P["w"], axis=1))
    add("isoplanaticAngle", A + "turbulence.atmos_conversions.isoplanaticAngle", lambda P: ac.isoplanaticAngle(P["cn2"], P["h"]))
    add("isoplanaticAngle:stack", A + "turbulence.atmos_conversions.isoplanaticAngle", lambda P: ac.isoplanaticAngle(P["cn2_stack"], P["h_stack"], 7e-7, axis=-1))
    add("rytov_variance", A + "turbulence.atmos_conversions.rytov_variance", lambda P: ac.rytov_variance(P["cn2"], P["h"]))
    add("r0_from_slopes", A + "turbulence.atmos_conversions.r0_from_slopes", lambda P: ac.r0_from_slopes(P["slope_meas"], 5e-7, 0.5))
    add("slope_variance_from_r0", A + "turbulence.atmos_conversions.slope_variance_from_r0", lambda P: ac.slope_variance_from_r0(P["r0s"], 5e-7, 0.5))
    # ---- phase screens (seeded)
    add("ft_phase_screen", A + "turbulence.phasescreen.ft_phase_screen", lambda P: phs.ft_phase_screen(0.2, 8, 0.1, 25., 0.01, seed=3))
    add("ft_sh_phase_screen", A + "turbulence.phasescreen.ft_sh_phase_screen", lambda P: phs.ft_sh_phase_screen(0.2, 8, 0.1, 25., 0.01, seed=3))
    add("phasescreen.ift2", A + "turbulence.phasescreen.ift2", lambda P: phs_only.ift2(P["img_c128"], 0.5))
    add("phasescreen.ift2:ro", A + "turbulence.phasescreen.ift2", lambda P: phs_only.ift2(P["img_ro"], 0.5))

    def vk(P):
        s = ips.PhaseScreenVonKarman(5, 0.1, 0.2, 25., random_seed=2)
        a = numpy.array(s.scrn)
        s.add_row()
        return [a, numpy.array(s.scrn)]

    def fried(P):
        s = ips.PhaseScreenKolmogorov(4, 0.1, 0.2, 25., random_seed=2, stencil_length_factor=2)
        a = numpy.array(s.scrn)
        s.add_row()
        return [a, numpy.array(s.scrn)]
    add("PhaseScreenVonKarman", A + "turbulence.infinitephasescreen.PhaseScreenVonKarman", vk)
    add("PhaseScreenKolmogorov", A + "turbulence.infinitephasescreen.PhaseScreenKolmogorov", fried)
    add("find_allowed_size", A + "turbulence.infinitephasescreen.find_allowed_size", lambda P: ips.find_allowed_size(6))
    # ---- profile compression
    add("equivalent_layers", A + "turbulence.profile_compression.equivalent_layers", lambda P: pc.equivalent_layers(P["h"], P["cn2"], 2))
    add("equivalent_layers:wind", A + "turbulence.profile_compression.equivalent_layers", lambda P: pc.equivalent_layers(P["h"], P["cn2"], 3, P["w"]))

    # documented randomness from numpy's global generator: the generator state set by the caller is part of the
    # input (outer_seed); the generator component is excluded from the self-loop comparison for these recipes
    def og(P, outer_seed=11):
        numpy.random.seed(outer_seed)
        return pc.optimal_grouping(2, 2, P["h"], P["cn2"])

    def og10(P, outer_seed=11):
        numpy.random.seed(outer_seed)
        return pc.optimal_grouping(3, 3, P["h10"], P["cn2_10"])
    add("optimal_grouping", A + "turbulence.profile_compression.optimal_grouping", og, uses_global_rng=True)
    add("optimal_grouping:10layers", A + "turbulence.profile_compression.optimal_grouping", og10, uses_global_rng=True)
    add("GCTM", A + "turbulence.profile_compression.GCTM", lambda P: pc.GCTM(P["h"], P["cn2x100"], 2))
    # ---- slope covariance

    def covmat(threads):
        def f(P):
            c = sc.CovarianceMatrix(2, [P["mask2"], P["mask2"]], 1.0, [0.5, 0.5], [0, 90000.], [[0, 0], [10., 5.]],
                                    [5e-7, 6e-7], 2, P["h"][:2], P["r0s"][:2], [25., 10.], threads=threads)
            m = numpy.array(c.make_covariance_matrix())
            r = c.make_tomographic_reconstructor(svd_conditioning=0.01)
            m2 = numpy.array(c.make_covariance_matrix())
            return [m, r, m2]
        return f
    add("CovarianceMatrix", A + "turbulence.slopecovariance.CovarianceMatrix", covmat(1))
    add("CovarianceMatrix:mp", A + "turbulence.slopecovariance.CovarianceMatrix", covmat(2))

    def covmat_nd(P):
        # every array parameter the docstring declares as ndarray is a caller-owned ndarray of the pool; a second
        # object is constructed from the SAME arrays after the first one was used
        def build():
            return sc.CovarianceMatrix(2, P["cm_masks"], 1.0, P["cm_subap_diam"], P["cm_gs_alt"], P["cm_gs_pos"], P["cm_wvl"],
                                       2, P["cm_layer_alt"], P["cm_r0"], P["cm_L0"], threads=1)
        c = build()
        m = numpy.array(c.make_covariance_matrix())
        r = numpy.array(c.make_tomographic_reconstructor(svd_conditioning=0.01))
        c2 = build()
        m2 = numpy.array(c2.make_covariance_matrix())
        return [m, r, m2]
    add("CovarianceMatrix:ndarray_args", A + "turbulence.slopecovariance.CovarianceMatrix", covmat_nd)
    wargs = lambda P: (3, 2, P["pos1"], P["pos2"], 0.5, 0.4, 0.2, 25.)
    add("wfs_covariance", A + "turbulence.slopecovariance.wfs_covariance", lambda P: sc.wfs_covariance(*wargs(P)))
    add("wfs_covariance_mpwrap", A + "turbulence.slopecovariance.wfs_covariance_mpwrap", lambda P: sc.wfs_covariance_mpwrap(wargs(P)))
    add("calculate_wfs_seperations", A + "turbulence.slopecovariance.calculate_wfs_seperations",
        lambda P: sc.calculate_wfs_seperations(3, 2, P["pos1"], P["pos2"]))
    for f in ("compute_covariance_xx", "compute_covariance_yy", "compute_covariance_xy"):
        add(f, A + "turbulence.slopecovariance." + f, lambda P, f=f: getattr(sc, f)(P["sep3"], 0.5, 0.4, 0.2, 25.))
    for arr in ("sep", "sep_f32", "rr"):
        add("structure_function_vk:" + arr, A + "turbulence.slopecovariance.structure_function_vk", lambda P, a=arr: sc.structure_function_vk(P[a], 0.2, 25.))
        add("structure_function_kolmogorov:" + arr, A + "turbulence.slopecovariance.structure_function_kolmogorov",
            lambda P, a=arr: sc.structure_function_kolmogorov(P[a], 0.2))
        add("phase_covariance:" + arr, A + "turbulence.turb.phase_covariance", lambda P, a=arr: turb.phase_covariance(P[a], 0.2, 25.))
    for arr in ("img", "img_f32", "img_view", "img_ro"):
        add("calculate_structure_function:" + arr, A + "turbulence.slopecovariance.calculate_structure_function",
            lambda P, a=arr: sc.calculate_structure_function(P[a], 3, 1))
    add("mirror_covariance_matrix", A + "turbulence.slopecovariance.mirror_covariance_matrix", lambda P: sc.mirror_covariance_matrix(P["cov8_f32_lower"]))
    add("create_tomographic_covariance_reconstructor", A + "turbulence.slopecovariance.create_tomographic_covariance_reconstructor",
        lambda P: sc.create_tomographic_covariance_reconstructor(P["cov8"], 2, 0.01))
    # ---- temporal power spectra
    add("calc_slope_temporalps", A + "turbulence.temporal_ps.calc_slope_temporalps", lambda P: tp.calc_slope_temporalps(P["tps"]))
    add("calc_slope_temporalps:stack", A + "turbulence.temporal_ps.calc_slope_temporalps", lambda P: tp.calc_slope_temporalps(P["tps_stack"]))
    for arr in ("tps_c128", "tps_c64", "tps_f32", "tps_i64"):
        add("calc_slope_temporalps:" + arr, A + "turbulence.temporal_ps.calc_slope_temporalps", lambda P, a=arr: tp.calc_slope_temporalps(P[a]))
    add("get_tps_time_axis", A + "turbulence.temporal_ps.get_tps_time_axis", lambda P: tp.get_tps_time_axis(100., 8))
    # ---- wfs
    add("findActiveSubaps", A + "wfs.wfslib.findActiveSubaps", lambda P: wfslib.findActiveSubaps(4, P["mask8"], 0.6))
    add("findActiveSubaps:fill", A + "wfs.wfslib.findActiveSubaps", lambda P: wfslib.findActiveSubaps(3, P["mask8"], 0.5, returnFill=True))
    add("computeFillFactor", A + "wfs.wfslib.computeFillFactor", lambda P: wfslib.computeFillFactor(P["mask8"], P["subap_pos"], 2))
    add("make_subaps_2d", A + "wfs.wfslib.make_subaps_2d", lambda P: wfslib.make_subaps_2d(P["slopes"], P["mask4"]))
    # ---- single-parameter variants: the same callable with exactly one scalar argument changed.  State that is
    # keyed on a subset of the arguments (a cache that forgets a parameter, a lazily built table) makes the
    # result of one variant depend on whether another variant ran before; the history phases expose that.
    add("v:circle:centre", A + "functions.pupil.circle", lambda P: pupil.circle(2.5, 6, (1.0, 0.5)))
    add("v:circle:radius", A + "functions.pupil.circle", lambda P: pupil.circle(1.5, 6, (0.5, -0.5)))
    add("v:circle:corner6", A + "functions.pupil.circle", lambda P: pupil.circle(2.0, 6, (2, 3), origin="corner"))
    add("v:circle:corner6b", A + "functions.pupil.circle", lambda P: pupil.circle(2.0, 6, (3, 2), origin="corner"))
    add("v:gaussian2d:width", A + "functions._functions.gaussian2d", lambda P: fn_.gaussian2d((6, 8), (2.5, 2.), 2., (2.5, 3.)))
    add("v:zernikeArray:p2v", A + "functions.zernike.zernikeArray", lambda P: zk.zernikeArray(6, 8, norm="p2v"))
    add("v:zernikeArray:rms", A + "functions.zernike.zernikeArray", lambda P: zk.zernikeArray(6, 8, norm="rms"))
    add("v:zernikeArray:rot", A + "functions.zernike.zernikeArray", lambda P: zk.zernikeArray(6, 8, rot=0.4))
    add("v:zernikeArray:N9", A + "functions.zernike.zernikeArray", lambda P: zk.zernikeArray(6, 9))
    add("v:zernike_noll:rot", A + "functions.zernike.zernike_noll", lambda P: zk.zernike_noll(7, 8, rot=0.5))
    add("v:zernike_noll:j", A + "functions.zernike.zernike_noll", lambda P: zk.zernike_noll(8, 8))
    add("v:zernike_nm:m", A + "functions.zernike.zernike_nm", lambda P: zk.zernike_nm(3, 1, 9, rot=0.2))
    add("v:phaseFromZernikes:p2v", A + "functions.zernike.phaseFromZernikes", lambda P: zk.phaseFromZernikes(P["coeffs"], 8, norm="p2v"))
    add("v:makegammas:4", A + "functions.zernike.makegammas", lambda P: zk.makegammas(4))
    add("v:kl.gkl_radii:ri", A + "functions.karhunenLoeve.gkl_radii", lambda P: kl.gkl_radii(0.3, 8))
    add("v:kl.gkl_kernel:ri", A + "functions.karhunenLoeve.gkl_kernel", lambda P: kl.gkl_kernel(0.3, 8, kl.gkl_radii(0.3, 8)))
    add("v:kl.gkl_basis:ri", A + "functions.karhunenLoeve.gkl_basis", lambda P: kl.gkl_basis(ri=0.3, nr=8, npp=40, nfunc=6))
    add("v:kl.gkl_basis:nfunc", A + "functions.karhunenLoeve.gkl_basis", lambda P: kl.gkl_basis(ri=0.2, nr=8, npp=40, nfunc=4))
    add("v:kl.make_kl:nmax", A + "functions.karhunenLoeve.make_kl", lambda P: kl.make_kl(4, 16, ri=0.2, nr=8))
    add("v:kl.make_kl:dim", A + "functions.karhunenLoeve.make_kl", lambda P: kl.make_kl(5, 17, ri=0.2, nr=8))
    add("v:kl.make_kl:ri", A + "functions.karhunenLoeve.make_kl", lambda P: kl.make_kl(5, 16, ri=0.3, nr=8))
    add("v:kl.pcgeom:ri", A + "functions.karhunenLoeve.pcgeom", lambda P: kl.pcgeom(8, 40, 16, 0.3, 2))
    add("v:ft_phase_screen:r0", A + "turbulence.phasescreen.ft_phase_screen", lambda P: phs.ft_phase_screen(0.1, 8, 0.1, 25., 0.01, seed=3))
    add("v:ft_phase_screen:L0", A + "turbulence.phasescreen.ft_phase_screen", lambda P: phs.ft_phase_screen(0.2, 8, 0.1, 10., 0.01, seed=3))
    add("v:ft_phase_screen:delta", A + "turbulence.phasescreen.ft_phase_screen", lambda P: phs.ft_phase_screen(0.2, 8, 0.2, 25., 0.01, seed=3))
    add("v:ft_phase_screen:seed", A + "turbulence.phasescreen.ft_phase_screen", lambda P: phs.ft_phase_screen(0.2, 8, 0.1, 25., 0.01, seed=4))
    add("v:ft_phase_screen:seed0", A + "turbulence.phasescreen.ft_phase_screen", lambda P: phs.ft_phase_screen(0.2, 8, 0.1, 25., 0.01, seed=0))
    add("v:ft_sh_phase_screen:seed0", A + "turbulence.phasescreen.ft_sh_phase_screen", lambda P: phs.ft_sh_phase_screen(0.2, 8, 0.1, 25., 0.01, seed=0))
    add("v:ft_phase_screen:np_int_seed", A + "turbulence.phasescreen.ft_phase_screen",
        lambda P: phs.ft_phase_screen(0.2, 8, 0.1, 25., 0.01, seed=numpy.int64(6)))

    def vk_seed0(P):
        s = ips.PhaseScreenVonKarman(5, 0.1, 0.2, 25., random_seed=0)
        a = numpy.array(s.scrn)
        s.add_row()
        return [a, numpy.array(s.scrn)]
    add("v:PhaseScreenVonKarman:seed0", A + "turbulence.infinitephasescreen.PhaseScreenVonKarman", vk_seed0)
    add("v:ft_sh_phase_screen:r0", A + "turbulence.phasescreen.ft_sh_phase_screen", lambda P: phs.ft_sh_phase_screen(0.1, 8, 0.1, 25., 0.01, seed=3))
    add("v:ft_sh_phase_screen:L0", A + "turbulence.phasescreen.ft_sh_phase_screen", lambda P: phs.ft_sh_phase_screen(0.2, 8, 0.1, 0.5, 0.01, seed=3))

    def vk_r0(P):
        s = ips.PhaseScreenVonKarman(5, 0.1, 0.1, 25., random_seed=2)
        a = numpy.array(s.scrn)
        s.add_row()
        return [a, numpy.array(s.scrn)]

    def fried_r0(P):
        s = ips.PhaseScreenKolmogorov(4, 0.1, 0.1, 25., random_seed=2, stencil_length_factor=2)
        a = numpy.array(s.scrn)
        s.add_row()
        return [a, numpy.array(s.scrn)]
    add("v:PhaseScreenVonKarman:r0", A + "turbulence.infinitephasescreen.PhaseScreenVonKarman", vk_r0)
    add("v:PhaseScreenKolmogorov:r0", A + "turbulence.infinitephasescreen.PhaseScreenKolmogorov", fried_r0)
    add("v:angularSpectrum:spacing", A + "opticalpropagation.angularSpectrum", lambda P: op.angularSpectrum(P["field"], 5e-7, 0.013, 0.01, -500.))
    add("v:angularSpectrum:wvl", A + "opticalpropagation.angularSpectrum", lambda P: op.angularSpectrum(P["field"], 7e-7, 0.01, 0.013, 500.))
    add("v:oneStepFresnel:z", A + "opticalpropagation.oneStepFresnel", lambda P: op.oneStepFresnel(P["field"], 5e-7, 0.01, 800.))
    add("v:twoStepFresnel:wvl", A + "opticalpropagation.twoStepFresnel", lambda P: op.twoStepFresnel(P["field"], 7e-7, 0.01, 0.013, 500.))
    add("v:twoStepFresnel:z", A + "opticalpropagation.twoStepFresnel", lambda P: op.twoStepFresnel(P["field"], 5e-7, 0.01, 0.013, 900.))
    add("v:lensAgainst:f", A + "opticalpropagation.lensAgainst", lambda P: op.lensAgainst(P["field"], 5e-7, 0.01, 1.5))
    for f in ("cn2_to_seeing", "seeing_to_cn2", "cn2_to_r0", "r0_to_cn2", "r0_to_seeing", "seeing_to_r0"):
        add("v:%s:default_lambda" % f, A + "turbulence.atmos_conversions." + f, lambda P, f=f: getattr(ac, f)(P["r0s"]))
    add("v:coherenceTime:lambda", A + "turbulence.atmos_conversions.coherenceTime", lambda P: ac.coherenceTime(P["cn2"], P["w"], 7e-7))
    add("v:coherenceTime:axis0", A + "turbulence.atmos_conversions.coherenceTime", lambda P: ac.coherenceTime(P["cn2_stack"].T, P["w"][:, None], axis=0))
    add("v:rytov_variance:stack", A + "turbulence.atmos_conversions.rytov_variance", lambda P: ac.rytov_variance(P["cn2_stack"], P["h_stack"], axis=1))
    for band in ("r", "R", "i", "I", "V"):
        add("v:magnitude_to_flux:" + band, A + "astronomy._astronomy.magnitude_to_flux", lambda P, b=band: astro.magnitude_to_flux(7.5, b))
        add("v:flux_to_magnitude:" + band, A + "astronomy._astronomy.flux_to_magnitude", lambda P, b=band: astro.flux_to_magnitude(2e5, b))
    add("v:photons_per_band:V", A + "astronomy._astronomy.photons_per_band", lambda P: astro.photons_per_band(5., P["mask4"], 0.5, 0.01, "V"))
    add("v:equivalent_layers:L3", A + "turbulence.profile_compression.equivalent_layers", lambda P: pc.equivalent_layers(P["h"], P["cn2"], 3))
    add("v:equivalent_layers:int_wind", A + "turbulence.profile_compression.equivalent_layers",
        lambda P: pc.equivalent_layers(P["h"], P["cn2"], 2, P["w_int"]))

    def og2(P, outer_seed=11):
        numpy.random.seed(outer_seed)
        return pc.optimal_grouping(2, 2, P["h"], P["cn2_rev"])
    add("v:optimal_grouping:profile", A + "turbulence.profile_compression.optimal_grouping", og2, uses_global_rng=True)
    add("v:GCTM:L1", A + "turbulence.profile_compression.GCTM", lambda P: pc.GCTM(P["h"], P["cn2x100"], 1))
    for arr in ("sep", "rr"):
        add("v:structure_function_vk:L0:" + arr, A + "turbulence.slopecovariance.structure_function_vk", lambda P, a=arr: sc.structure_function_vk(P[a], 0.2, 5.))
        add("v:phase_covariance:r0:" + arr, A + "turbulence.turb.phase_covariance", lambda P, a=arr: turb.phase_covariance(P[a], 0.1, 25.))
        add("v:kl.stf_vonKarman:L0:" + arr, A + "functions.karhunenLoeve.stf_vonKarman", lambda P, a=arr: kl.stf_vonKarman(P[a], 5.))

    def covmat2(P):
        c = sc.CovarianceMatrix(2, [P["mask2"], P["mask2"]], 1.0, [0.5, 0.5], [0, 90000.], [[0, 0], [-20., 8.]],
                                [5e-7, 6e-7], 2, P["h"][:2], P["r0s"][:2], [25., 10.], threads=1)
        m = numpy.array(c.make_covariance_matrix())
        r1 = numpy.array(c.make_tomographic_reconstructor(svd_conditioning=0.01))
        c.gs_positions = [[0, 0], [10., 5.]]
        m2 = numpy.array(c.make_covariance_matrix())
        r2 = numpy.array(c.make_tomographic_reconstructor(svd_conditioning=0.01))
        return [m, r1, m2, r2]

    def covmat3(P):
        # two off-axis natural guide stars above elevated layers, the matrix built three times on ONE object:
        # equal arguments (the object was not touched in between) -> equal results
        c = sc.CovarianceMatrix(2, [P["mask2"], P["mask4"][:2, :2] * 0 + 1], 1.0, [0.5, 0.5], [0, 0], [[15., -5.], [-20., 8.]],
                                [5e-7, 6e-7], 2, [3000., 9000.], P["r0s"][:2], [25., 10.], threads=1)
        ms = [numpy.array(c.make_covariance_matrix()) for _ in range(3)]
        if not (_vdigest(ms[0]) == _vdigest(ms[1]) == _vdigest(ms[2])):
            raise _RecipeOracle("make_covariance_matrix() called again on an untouched object returned a different matrix")
        return ms
    add("v:CovarianceMatrix:gs_moved", A + "turbulence.slopecovariance.CovarianceMatrix", covmat2)
    add("v:CovarianceMatrix:rebuilt_3x", A + "turbulence.slopecovariance.CovarianceMatrix", covmat3)
    add("v:create_tomographic_covariance_reconstructor:asym", A + "turbulence.slopecovariance.create_tomographic_covariance_reconstructor",
        lambda P: sc.create_tomographic_covariance_reconstructor(P["cov8_asym"], 2, 0.01))
    add("v:mirror_covariance_matrix:view", A + "turbulence.slopecovariance.mirror_covariance_matrix",
        lambda P: sc.mirror_covariance_matrix(P["cov8_f32_lower"][:6, :6]))
    add("v:create_tomographic_covariance_reconstructor:rc", A + "turbulence.slopecovariance.create_tomographic_covariance_reconstructor",
        lambda P: sc.create_tomographic_covariance_reconstructor(P["cov8"], 2, 0.3))
    add("v:calculate_structure_function:step2", A + "turbulence.slopecovariance.calculate_structure_function",
        lambda P: sc.calculate_structure_function(P["img"], 2, 2))
    add("v:centre_of_gravity:thr0.6", A + "image_processing.centroiders.centre_of_gravity", lambda P: cen.centre_of_gravity(P["stack"], threshold=0.6))
    add("v:brightest_pixel:0.5", A + "image_processing.centroiders.brightest_pixel", lambda P: cen.brightest_pixel(P["stack"], 0.5))
    add("v:correlation_centroid:pad3", A + "image_processing.centroiders.correlation_centroid",
        lambda P: cen.correlation_centroid(P["stack"], P["ref"], padding=3))
    add("v:encircled_energy:0.8", A + "image_processing.psf.encircled_energy", lambda P: psf.encircled_energy(P["img"], fraction=0.8))
    add("v:encircled_energy:centre", A + "image_processing.psf.encircled_energy", lambda P: psf.encircled_energy(P["img"], center=P["centre23"]))
    add("v:zoom:order1", A + "interpolation.zoom", lambda P: ip.zoom(P["img_c128"], (9, 9), order=1))
    add("v:zoom:order5", A + "interpolation.zoom", lambda P: ip.zoom(P["img"], (11, 11), order=5))
    add("v:zoom_rbs:order3", A + "interpolation.zoom_rbs", lambda P: ip.zoom_rbs(P["img"], (9, 9), order=3))
    add("v:binImgs:n3", A + "interpolation.binImgs", lambda P: ip.binImgs(P["img"], 3))
    add("v:findActiveSubaps:thr0", A + "wfs.wfslib.findActiveSubaps", lambda P: wfslib.findActiveSubaps(4, P["mask8"], 0.0))
    add("v:computeFillFactor:4", A + "wfs.wfslib.computeFillFactor", lambda P: wfslib.computeFillFactor(P["mask8"], P["subap_pos"], 4))
    add("v:get_tps_time_axis:odd", A + "turbulence.temporal_ps.get_tps_time_axis", lambda P: tp.get_tps_time_axis(100., 9))
    add("v:find_allowed_size:10", A + "turbulence.infinitephasescreen.find_allowed_size", lambda P: ips.find_allowed_size(10))
    # ---- one variant per further scalar parameter of callables with several of them

    def screen(cls, *a, **kw):
        def f(P):
            s = getattr(ips, cls)(*a, **kw)
            first = numpy.array(s.scrn)
            s.add_row()
            return [first, numpy.array(s.scrn)]
        return f
    TI = A + "turbulence.infinitephasescreen."
    add("v:PhaseScreenVonKarman:L0", TI + "PhaseScreenVonKarman", screen("PhaseScreenVonKarman", 5, 0.1, 0.2, 10., random_seed=2))
    add("v:PhaseScreenVonKarman:pixel_scale", TI + "PhaseScreenVonKarman", screen("PhaseScreenVonKarman", 5, 0.2, 0.2, 25., random_seed=2))
    add("v:PhaseScreenVonKarman:n_columns", TI + "PhaseScreenVonKarman", screen("PhaseScreenVonKarman", 5, 0.1, 0.2, 25., random_seed=2, n_columns=3))
    add("v:PhaseScreenVonKarman:nx6", TI + "PhaseScreenVonKarman", screen("PhaseScreenVonKarman", 6, 0.1, 0.2, 25., random_seed=2))
    add("v:PhaseScreenKolmogorov:L0", TI + "PhaseScreenKolmogorov", screen("PhaseScreenKolmogorov", 4, 0.1, 0.2, 10., random_seed=2, stencil_length_factor=2))
    add("v:PhaseScreenKolmogorov:pixel_scale", TI + "PhaseScreenKolmogorov",
        screen("PhaseScreenKolmogorov", 4, 0.2, 0.2, 25., random_seed=2, stencil_length_factor=2))
    add("v:ft_sh_phase_screen:delta", A + "turbulence.phasescreen.ft_sh_phase_screen", lambda P: phs.ft_sh_phase_screen(0.2, 8, 0.2, 25., 0.01, seed=3))
    add("v:ft_sh_phase_screen:l0", A + "turbulence.phasescreen.ft_sh_phase_screen", lambda P: phs.ft_sh_phase_screen(0.2, 8, 0.1, 25., 0.05, seed=3))
    for f in ("compute_covariance_xx", "compute_covariance_yy", "compute_covariance_xy"):
        add("v:%s:diam1" % f, A + "turbulence.slopecovariance." + f, lambda P, f=f: getattr(sc, f)(P["sep3"], 0.3, 0.4, 0.2, 25.))
        add("v:%s:diam2" % f, A + "turbulence.slopecovariance." + f, lambda P, f=f: getattr(sc, f)(P["sep3"], 0.5, 0.6, 0.2, 25.))
    add("v:wfs_covariance:diam", A + "turbulence.slopecovariance.wfs_covariance",
        lambda P: sc.wfs_covariance(3, 2, P["pos1"], P["pos2"], 0.3, 0.4, 0.2, 25.))
    add("v:wfs_covariance:L0", A + "turbulence.slopecovariance.wfs_covariance",
        lambda P: sc.wfs_covariance(3, 2, P["pos1"], P["pos2"], 0.5, 0.4, 0.2, 8.))
    add("v:zernikeRadialFunc:m0", A + "functions.zernike.zernikeRadialFunc", lambda P: zk.zernikeRadialFunc(4, 0, P["sep"]))
    add("v:zernikeRadialFunc:n2", A + "functions.zernike.zernikeRadialFunc", lambda P: zk.zernikeRadialFunc(2, 2, P["sep"]))
    add("v:slope_variance_from_r0:wvl", A + "turbulence.atmos_conversions.slope_variance_from_r0", lambda P: ac.slope_variance_from_r0(P["r0s"], 7e-7, 0.5))
    add("v:slope_variance_from_r0:diam", A + "turbulence.atmos_conversions.slope_variance_from_r0", lambda P: ac.slope_variance_from_r0(P["r0s"], 5e-7, 0.25))
    add("v:r0_from_slopes:diam", A + "turbulence.atmos_conversions.r0_from_slopes", lambda P: ac.r0_from_slopes(P["slope_meas"], 5e-7, 0.25))
    add("v:isoplanaticAngle:lamda", A + "turbulence.atmos_conversions.isoplanaticAngle", lambda P: ac.isoplanaticAngle(P["cn2"], P["h"], 7e-7))
    add("v:cross_correlate:pad1", A + "image_processing.centroiders.cross_correlate", lambda P: cen.cross_correlate(P["img"], P["ref"], padding=1))
    add("v:structure_function_kolmogorov:r0", A + "turbulence.slopecovariance.structure_function_kolmogorov",
        lambda P: sc.structure_function_kolmogorov(P["sep"], 0.1))
    return R


N_PREEMPT = 48       # thorough: the preemption observation runs in this many work items
N_CHAINS = 16        # phase 2 runs in this many forked children; child i handles the recipes a with index = i mod 16

SUB_ALPHABET = ["ft:vec", "ift2:img", "rft:vec", "circle", "zernikeArray:count", "phaseFromZernikes", "kl.gkl_basis",
                "kl.make_kl", "centre_of_gravity:thr:stack", "brightest_pixel:img", "correlation_centroid:img",
                "rms_contrast:img", "encircled_energy:img", "zoom_rbs:img", "binImgs:stack", "angularSpectrum",
                "twoStepFresnel", "ft_phase_screen", "ft_sh_phase_screen", "PhaseScreenVonKarman", "optimal_grouping",
                "CovarianceMatrix", "phase_covariance:sep_f32", "calculate_structure_function:img", "make_subaps_2d"]


def BOUNDS(tier):
    return {"phase1": "every recipe, pristine fork, called twice, then again after the caller's in-place edit",
            "phase2": "a then every b, for every a",
            "phase3": "thorough: all ordered pairs of %d recipes then every c of the sub-alphabet" % len(SUB_ALPHABET),
            "batch_depth": 3, "batch_depth_rect_uint16_view_frames": 2, "batch_longest_stack": 1025,
            "largest_array": "130x130 image, 1025-element vector",
            "preemption_observation": "thorough only, <= %d preemption points per recipe, not part of the verdict" % PREEMPT_MAX_POINTS,
            "excluded": EXCLUDED}


# ----------------------------------------------------------------------------- isolation

def isolated(fn, *args):
    """run fn(*args) in a forked child; returns its (picklable) result or raises RuntimeError"""
    r, w = os.pipe()
    pid = os.fork()
    if pid == 0:
        code = 0
        try:
            os.close(r)
            try:
                dn = os.open(os.devnull, os.O_WRONLY)
                os.dup2(dn, 1)          # the library prints progress hints
            except OSError:
                pass
            try:
                payload = ("ok", fn(*args))
            except BaseException:
                payload = ("err", traceback.format_exc()[-1500:])
            with os.fdopen(w, "wb") as f:
                pickle.dump(payload, f)
        except BaseException:
            code = 3
        finally:
            try:        # pools created by the library are never closed: do not leave their workers behind
                import multiprocessing
                for c in multiprocessing.active_children():
                    c.terminate()
            except BaseException:
                pass
            os._exit(code)
    os.close(w)
    with os.fdopen(r, "rb") as f:
        data = f.read()
    os.waitpid(pid, 0)
    if not data:
        raise RuntimeError("isolated child died without a result")
    kind, val = pickle.loads(data)
    if kind == "err":
        raise RuntimeError("isolated child raised:\n" + val)
    return val


@_quiet
def _result_digest(r):
    try:
        return _vdigest(r)
    except Exception as e:     # pragma: no cover
        return "undigestable:%s" % (type(e).__name__,)


def _arrays_in(o, depth=0, out=None):
    out = [] if out is None else out
    if depth > 5:
        return out
    if isinstance(o, numpy.ndarray):
        out.append(o)
    elif isinstance(o, (list, tuple)):
        for x in o:
            _arrays_in(x, depth + 1, out)
    elif isinstance(o, dict):
        for x in o.values():
            _arrays_in(x, depth + 1, out)
    elif hasattr(o, "__dict__") and not isinstance(o, type):
        _arrays_in(vars(o), depth + 1, out)
    return out


def _pool_arrays(P):
    return _arrays_in(P)


def _scribble(result, P):
    """Overwrite every array of a returned value that does not alias an argument: if the library kept a
    reference to it (a cache handing out shared arrays), a later call will return the garbage.
    Returns the number of result arrays that alias pool arrays (informational)."""
    pool = _pool_arrays(P)
    aliased = 0
    for a in _arrays_in(result):
        if any(numpy.may_share_memory(a, b) for b in pool):
            aliased += 1
            continue
        if a.flags.writeable and a.size:
            try:
                with numpy.errstate(all="ignore"):
                    a[...] = 77 if a.dtype.kind in "iub" else numpy.nan
            except Exception:
                pass
    return aliased


def _err(e):
    return "%s: %s" % (type(e).__name__, str(e)[:300])


def _etype(e):
    return None if e is None else e.split(":", 1)[0]


def _unavailable(e):
    return e is not None and _etype(e) == "_Unavailable"


def _call(fn, P, scribble=True, **kw):
    """-> (digest or None, error string or None)"""
    try:
        r = fn(P, **kw)
        d = _result_digest(r)
        if scribble:
            _scribble(r, P)
        return d, None
    except Exception as e:
        return None, _err(e)


@_quiet
def _edit_pool(P):
    """the caller edits its own arrays in place between two calls: every writeable array of the pool is reversed
    along all its axes (values stay in the domain of every recipe: masks stay 0/1, covariances stay symmetric
    positive definite)"""
    seen = set()
    for a in _pool_arrays(P):
        if a.flags.writeable and a.size and id(a) not in seen:
            seen.add(id(a))
            a[...] = a[tuple(slice(None, None, -1) for _ in a.shape)].copy()


def _single(rid):
    """phase 1 body (runs in a pristine child that has not run any library code): call; call again while the first
    result is still held; scribble over both results; call a third time; the caller edits its arguments in place;
    call a fourth time"""
    try:
        return _single_body(rid)
    except Exception:       # the instrumentation itself failed: not claimed, never a violation
        return {"harness_error": traceback.format_exc()[-800:]}


def _single_body(rid):
    rec = {r[0]: r for r in recipes()}[rid]
    _, _, fn, flags = rec
    mods = aotools_modules()
    P = make_pool()
    pre = pool_state(P, mods)
    d1 = e1 = None
    aliased = 0
    held_ok = True
    try:
        r1 = fn(P)
        d1 = _result_digest(r1)
    except Exception as e:
        e1 = _err(e)
    post = pool_state(P, mods)
    before_scribble = post
    changed_b = []
    if e1 is None:
        # a result the caller still holds is not touched by a later call (no shared scratch buffer handed out)
        rb = None
        try:
            rb = fn(P)
            held_ok = _result_digest(r1) == d1
        except Exception:
            pass
        before_scribble = pool_only_state(P)
        changed_b = [c for c in ss.changed({k: v for k, v in post.items() if k.startswith("pool:")}, before_scribble)]
        if rb is not None:
            _scribble(rb, P)
        aliased = _scribble(r1, P)     # after the state comparison: garbage into every non-aliasing result array
    mid = pool_state(P, mods)
    d2, e2 = _call(fn, P)
    post2 = pool_state(P, mods)
    scribble_leak = [c for c in ss.changed(before_scribble, mid) if c.startswith("pool:")]
    ign = {"numpy.global_rng"} if flags.get("uses_global_rng") else set()
    # the caller edits its arrays in place; the next result must be the one a pristine process gives for the
    # edited values (_edited_reference), i.e. nothing was remembered under the identity of the argument objects
    P = make_pool() if any(c.startswith("pool:") for c in ss.changed(pre, post2)) else P
    _call(fn, P)
    _edit_pool(P)
    d4, e4 = _call(fn, P, scribble=False)
    out = {"d1": d1, "e1": e1, "d2": d2, "e2": e2, "aliased": aliased, "scribble_leak": scribble_leak,
           "held_ok": held_ok, "d4": d4, "e4": e4,
           "changed": [c for c in ss.changed(pre, post) if c not in ign],
           "changed2": sorted(set(changed_b) | set(c for c in ss.changed(mid, post2) if c not in ign))}
    if flags.get("uses_global_rng") and e1 is None:
        # the generator set by the caller is an input the function may draw from, but not replace: drawing (any
        # number of values) maps different generator states to different generator states, and so does leaving
        # the generator alone; a call that re-seeds it maps every state to the same one
        posts = []
        for outer in (11, 12):
            _call(fn, make_pool(), outer_seed=outer)
            posts.append(_rng_digest())
        out["rng_posts_differ"] = posts[0] != posts[1]
    return out


def _edited_reference(rids):
    """what each recipe gives on a freshly made, then edited pool (one process for a group of recipes; each recipe
    gets its own new pool objects)"""
    recs = {r[0]: r for r in recipes()}
    out = {}
    for rid in rids:
        try:
            P = make_pool()
            _edit_pool(P)
            out[rid] = _call(recs[rid][2], P, scribble=False)
        except Exception as e:
            out[rid] = (None, "harness: " + _err(e))
    return out


def _preempt_chunk(rids, max_points):
    """OBSERVATION, not part of the verdict (the statement speaks of call sequences, not of re-entrancy).  For every
    recipe of the chunk: the same recipe on another (edited) pool is run to completion at the library lines of
    the recipe call itself (the pools are built before tracing starts; all lines up to max_points, else an even
    sub-lattice of max_points of them); recorded is whether both results are the solo results.
    -> list of (rid, points explored, points in all, description of a dependence or None)"""
    from mc import reentry
    recs = {r[0]: r for r in recipes()}
    out = []
    for rid in rids:
        fn = recs[rid][2]
        try:
            def pools():
                PA, PB = make_pool(), make_pool()
                _edit_pool(PB)
                return PA, PB

            def thunks():
                PA, PB = pools()
                return (lambda: _call(fn, PA, scribble=False)), (lambda: _call(fn, PB, scribble=False))
            A, B = thunks()
            solo_a, solo_b = A(), B()
            A2, B2 = thunks()
            if A2() != solo_a or B2() != solo_b or solo_a[1] is not None or solo_b[1] is not None:
                out.append((rid, 0, 0, "skipped: raises or is not repeatable without interleaving (judged by the other clauses)"))
                continue
            A, _b = thunks()
            n, _ = reentry.count_points(A)
            stride = max(1, -(-n // max_points))
            bad, k_done = [], 0
            for k in range(0, n, stride):
                A, B = thunks()
                ra, rb, where = reentry.run_with_preemption(A, B, k)
                k_done += 1
                if ra != solo_a:
                    bad.append("A@%s" % where)
                if rb != solo_b:
                    bad.append("B@%s" % where)
            out.append((rid, k_done, n, ", ".join(sorted(set(bad))[:6]) if bad else None))
        except Exception as e:
            out.append((rid, 0, 0, "skipped: instrumentation failed (%s)" % _err(e)[:120]))
        finally:
            sys.settrace(None)
    return out


def _chains(a_ids, alphabet_ids, pristine):
    """for every a of a_ids (in order, in this one process): a, then every recipe b of the alphabet"""
    out = []
    for a in a_ids:
        for rid, d, e in _chain([a], alphabet_ids, pristine):
            out.append((a, rid, d, e))
    return out


def _usable(want):
    """a pristine record the history phases can compare with"""
    return want is not None and "d1" in want and not _unavailable(want.get("e1"))


def _same_bits(a, b, _depth=0):
    """a and b (pool members) have the same type, shape, dtype and element bytes (exact comparison, no hashing)"""
    if isinstance(a, numpy.ndarray) or isinstance(b, numpy.ndarray):
        if not (isinstance(a, numpy.ndarray) and isinstance(b, numpy.ndarray)) or a.shape != b.shape or a.dtype != b.dtype:
            return False
        if a.dtype.hasobject:
            return _vdigest(a, True) == _vdigest(b, True)
        if a.flags.c_contiguous and b.flags.c_contiguous:
            return bool((a.reshape(-1).view(numpy.uint8) == b.reshape(-1).view(numpy.uint8)).all())
        return a.tobytes() == b.tobytes()
    if isinstance(a, (list, tuple)) and type(a) is type(b) and _depth < 6:
        return len(a) == len(b) and all(_same_bits(x, y, _depth + 1) for x, y in zip(a, b))
    if isinstance(a, dict) and isinstance(b, dict) and _depth < 6:
        return sorted(map(str, a)) == sorted(map(str, b)) and all(_same_bits(a[k], b[k], _depth + 1) for k in a)
    return _vdigest(a, True) == _vdigest(b, True)


@_quiet
def _pool_same(P, Q):
    try:
        return set(P) == set(Q) and all(_same_bits(P[k], Q[k]) for k in Q)
    except Exception:
        return False


def _chain(prefix_ids, alphabet_ids, pristine):
    """run the prefix, then every recipe of the alphabet, comparing with pristine digests"""
    recs = {r[0]: r for r in recipes()}
    P = make_pool()
    Q = make_pool()            # the values of a clean pool; never handed to the library
    for rid in prefix_ids:
        if _usable(pristine.get(rid)):
            _call(recs[rid][2], P)
    out = []
    for rid in alphabet_ids:
        want = pristine.get(rid)
        if not _usable(want):
            continue
        if not _pool_same(P, Q):
            P = make_pool()        # argument mutation is phase 1's business: start b from clean arguments
        d, e = _call(recs[rid][2], P)
        if d != want["d1"] or (e is not None) != (want["e1"] is not None):
            out.append((rid, d, e))
    return out


_PRISTINE = None


def setup(tier):
    """pristine results of every recipe, each computed in its own forked child of this (pristine) parent"""
    global _PRISTINE
    from mc import repo
    repo.load()
    ids = [r[0] for r in recipes()]
    assert len(set(ids)) == len(ids), "duplicate recipe ids"
    from mc.isolate import isolated_map
    kl_intermediates()       # built in a child of its own; inherited (as plain data) by every process forked below
    _PRISTINE = dict(zip(ids, isolated_map(_single, [(rid,) for rid in ids], jobs=16)))
    # (one pristine child per recipe: a recipe that leaves process-wide state behind must not reach the next one)
    for part in isolated_map(_edited_reference, [([rid],) for rid in ids], jobs=16):
        for rid, (d, e) in part.items():
            _PRISTINE[rid]["d4_ref"], _PRISTINE[rid]["e4_ref"] = d, e


PREEMPT_MAX_POINTS = 120


def cases(tier):
    recs = recipes()
    yield Case("catalogue", {"kind": "catalogue"}, False)
    for rid, target, fn, flags in recs:
        yield Case("single:" + rid, {"kind": "single", "rid": rid}, True)
    for i in range(N_CHAINS):
        yield Case("chain:%d" % i, {"kind": "chain", "i": i}, True)
    if tier == "thorough":
        for i in range(N_PREEMPT):
            yield Case("preempt:%d" % i, {"kind": "preempt", "i": i, "max_points": PREEMPT_MAX_POINTS}, False)
        for a in SUB_ALPHABET:
            for b in SUB_ALPHABET:
                yield Case("after2:%s,%s" % (a, b), {"kind": "after2", "a": a, "b": b}, True)
    for name in sorted(BATCH):
        yield Case("batch:" + name, {"kind": "batch", "name": name}, True)
    for name in sorted(BATCH4):
        yield Case("batch:4d:" + name, {"kind": "batch", "name": "4d:" + name}, True)


def _excluded(name):
    return EXCLUDED_NAMES.get(name.rsplit(".", 1)[-1])


def evaluate(p):
    o = Out()
    kind = p["kind"]
    if kind == "catalogue":
        pub = public_callables()
        targets = sorted(set(r[1] for r in recipes()))
        resolved = {t: resolve_target(t) for t in targets}
        have = set(id(v) for v in resolved.values() if v is not None)
        missing = [n for n, v in pub if id(v) not in have and not _excluded(n)]
        unresolved = [t for t in targets if resolved[t] is None]
        # a public callable without a recipe is a coverage gap, not a property violation (a correct library that
        # gains a function stays green): recorded in the evidence.  A catalogue entry whose callable is not
        # exported any more is not claimed.
        o.note("public_callables", len(pub))
        o.note("public_callables_without_recipe", missing)
        o.note("catalogue_targets_not_exported", unresolved)
        o.note("excluded", EXCLUDED)
        o.stat("uncatalogued_public_callables", len(missing))
        o.stat("catalogue_targets_not_exported_not_claimed", len(unresolved))
        o.stat("states", 1)
        o.stat("transitions", 1)
        return o
    if kind == "single":
        rid = p["rid"]
        r = _PRISTINE[rid]
        o.stat("transitions", 2)
        o.stat("lib_calls", 2)
        if "harness_error" in r:
            o.stat("single_instrumentation_failed_not_claimed", 1)
            o.note("instrumentation_failed:" + rid, r["harness_error"])
            return o
        if _unavailable(r["e1"]):
            o.stat("recipe_callable_not_exported_not_claimed", 1)
            o.note("not_claimed:" + rid, r["e1"])
            return o
        e1 = r["e1"]
        wr = e1 is not None and ("read-only" in e1 or "not writeable" in e1 or "WRITEABLE" in e1)
        args_changed = [c for c in r["changed"] if c.startswith("pool:")]
        if wr:
            o.check("arguments_unchanged", False, sub=rid, detail="call tried to write into a read-only argument: " + e1)
        else:
            o.check("arguments_unchanged", not args_changed, sub=rid, detail=args_changed)
        o.check("global_rng_untouched", "numpy.global_rng" not in r["changed"], sub=rid)
        if "rng_posts_differ" in r:
            o.check("global_rng_not_reseeded", r["rng_posts_differ"], sub=rid,
                    detail="the global generator is left in the same state whatever state the caller had set")
        o.check("process_settings_untouched", "process_settings" not in r["changed"], sub=rid,
                detail="numpy error state / print options / recursion limit / decimal precision / locale / cwd changed by the call")
        if "module_globals" in r["changed"] or "module_globals" in r["changed2"]:
            # a module-level cache or counter is only a violation if it changes results: it makes the
            # state space larger than one state, which the history phases then explore
            o.stat("module_globals_changed_by_call", 1)
            o.note("module_globals_changed_by:" + rid, True)
        if wr:
            return o
        if e1 is not None:
            if _etype(e1) == "_RecipeOracle":
                o.check("repeated_call_equal_result", False, sub=rid, detail=e1)
            elif _etype(r["e2"]) == _etype(e1):
                # the call raises, and raises the same way when repeated: the function rejects this input (the
                # property says nothing about which inputs are accepted) - not applicable
                o.stat("recipe_not_applicable_raises_every_time", 1)
                o.note("not_applicable:" + rid, e1)
            elif not args_changed:
                o.check("repeated_call_equal_result", False, sub=rid, detail={"first_call": e1, "second_call": r["e2"] or "returned"})
            return o
        if r["aliased"]:
            o.stat("results_aliasing_arguments", 1)
            o.note("result_aliases_argument:" + rid, r["aliased"])
        o.check("harness_scribble_stays_out_of_pool", not r["scribble_leak"], sub=rid, detail=r["scribble_leak"])
        # the repeated call: equal arguments -> equal result (judged on its own only if the
        # arguments really were equal, i.e. the first call did not modify them)
        o.check("held_result_not_overwritten_by_next_call", r["held_ok"], sub=rid)
        if "d4_ref" in r and not (r["e4_ref"] or "").startswith("harness:"):
            same = (r["d4"] == r["d4_ref"]) and ((r["e4"] is None) == (r["e4_ref"] is None))
            o.check("result_follows_callers_in_place_edit", same, sub=rid,
                    detail=None if same else {"after_edit": r["e4"] or r["d4"], "pristine_on_edited_values": r["e4_ref"] or r["d4_ref"]})
        # a change of module globals alone (a usage counter, a cache that does not change results) is no violation
        changed2 = [c for c in r["changed2"] if c != "module_globals"]
        if not args_changed:
            o.check("repeated_call_equal_result", r["d1"] == r["d2"] and r["e2"] is None, sub=rid, detail=r["e2"])
            o.check("second_call_is_self_loop", not changed2, sub=rid, detail=changed2)
        o.stat("states", 1 if r["changed"] else 0)     # a changed state is a new state; self-loops add none
        o.stat("self_loops", (0 if r["changed"] else 1) + (0 if r["changed2"] else 1))
        o.outcome(r["d1"])
        return o
    if kind == "chain":
        ids = [r[0] for r in recipes()]
        mine = [rid for k, rid in enumerate(ids) if k % N_CHAINS == p["i"]]
        bad = isolated(_chains, mine, ids, _PRISTINE)
        o.stat("transitions", len(mine) * (1 + len(ids)))
        o.stat("lib_calls", len(mine) * (1 + len(ids)))
        o.stat("traces_validated_against_impl", len(mine) * len(ids))
        o.check("result_independent_of_history", True, n=len(mine) * len(ids) - len(bad))
        for a, rid, d, e in bad:
            o.check("result_independent_of_history", False, sub="after=%s:then=%s" % (a, rid),
                    detail={"error": e, "earlier_in_this_process": mine[:mine.index(a)]})
        return o
    if kind == "preempt":
        # observation only: never a violation
        ids = [r[0] for r in recipes()]
        mine = [rid for k, rid in enumerate(ids) if k % N_PREEMPT == p["i"]]
        try:
            res = isolated(_preempt_chunk, mine, p["max_points"])
        except Exception as e:
            o.stat("preempt_chunks_instrumentation_failed", 1)
            o.note("preempt_instrumentation_failed:%d" % p["i"], _err(e))
            return o
        tot = 0
        for rid, done, n, bad in res:
            tot += done
            if done == 0:
                o.stat("preempt_recipes_skipped", 1)
                continue
            o.stat("preempt_recipes_explored", 1)
            if bad is not None:
                o.stat("preemption_dependence_observed", 1)
                o.note("preemption_dependence:" + rid, "%s (explored %d of %d preemption points)" % (bad, done, n))
            if done < n:
                o.stat("preempt_recipes_on_a_sub_lattice_of_points", 1)
        o.stat("preemption_dependence_observed", 0)
        o.stat("schedules_explored", tot)
        return o
    if kind in ("after", "after2"):
        ids = [r[0] for r in recipes()]
        if kind == "after":
            prefix, alpha = [p["rid"]], ids
        else:
            prefix, alpha = [p["a"], p["b"]], SUB_ALPHABET
        bad = isolated(_chain, prefix, alpha, _PRISTINE)
        o.stat("transitions", len(prefix) + len(alpha))
        o.stat("lib_calls", len(prefix) + len(alpha))
        o.stat("traces_validated_against_impl", len(alpha))
        o.check("result_independent_of_history", True, n=len(alpha) - len(bad))
        for rid, d, e in bad:
            o.check("result_independent_of_history", False, sub="then=" + rid, detail=e)
        return o
    return _batch(o, p["name"])


# ----------------------------------------------------------------------------- batch clause
#
# A batch case is a triple (batch, pick, single): batch(stack) -> what the library returns for the whole stack,
# pick(full, k) -> item k of it, single(stack, k) -> what the library returns for item k alone.  The three parts are
# run separately so that "the function does not accept this frame class at all" (the batch call and every single
# call raise: not applicable) is told apart from "the batch form fails / differs where the single form works".

def _frames(kind="sq"):
    """the frame alphabet: 'sq' 4x4 float64; 'rect' 4x6 float64 (non-square)"""
    if kind == "rect":
        i, j = numpy.indices((4, 6))
        f0 = ((2 * i + 3 * j) % 7 + 1.0)
        return [f0, numpy.roll(f0, 1, 0) * 2.0, f0[:, ::-1] + (i == j) * 5.0, numpy.flipud(f0) + 0.5]
    i, j = numpy.indices((4, 4))
    f0 = ((2 * i + 3 * j) % 7 + 1.0)
    return [f0, numpy.roll(f0, 1, 0) * 2.0, f0.T + numpy.eye(4) * 5, numpy.flipud(f0) + 0.5]


def _dup(x):
    """a new array with the values, dtype AND memory layout of x (a contiguous array is copied; a view into a larger
    buffer becomes the same view into a copy of that buffer): the library gets the layout the case is about and
    the case keeps clean data whatever the library does to what it was handed"""
    if x.flags.c_contiguous or not isinstance(x.base, numpy.ndarray) or not x.base.flags.c_contiguous:
        return x.copy()
    nb = x.base.copy()
    off = x.__array_interface__["data"][0] - x.base.__array_interface__["data"][0]
    return numpy.ndarray(x.shape, x.dtype, buffer=nb, offset=off, strides=x.strides)


def _b_cog(thr, min_thr=None):
    kw = {} if min_thr is None else {"min_threshold": min_thr}
    return (lambda s: numpy.asarray(_lib()["cen"].centre_of_gravity(_dup(s), threshold=thr, **kw)),
            lambda full, k: full[:, k],
            lambda s, k: _lib()["cen"].centre_of_gravity(_dup(s[k]), threshold=thr, **kw))


_b_bp = (lambda s: numpy.asarray(_lib()["cen"].brightest_pixel(_dup(s), 0.4)),
         lambda full, k: full[:, k],
         lambda s, k: _lib()["cen"].brightest_pixel(_dup(s[k]), 0.4))

_b_quad = (lambda s: numpy.asarray(_lib()["cen"].quadCell(s[:, :2, :2].copy())),
           lambda full, k: full[..., k],
           lambda s, k: numpy.asarray(_lib()["cen"].quadCell(s[k, :2, :2].copy())))


def _b_corr(pad):
    def ref(s):
        return _frames("rect" if s.shape[-1] == 6 else "sq")[0].copy()

    def single(s, k):
        cen = _lib()["cen"]
        # the single item: a one-frame stack (the documented input form) and, if the function accepts it, the 2-d image
        one = numpy.asarray(cen.correlation_centroid(_dup(s[k:k + 1]), ref(s), padding=pad)).reshape(-1)
        try:
            two = numpy.asarray(cen.correlation_centroid(_dup(s[k]), ref(s), padding=pad)).reshape(-1)
        except _Unavailable:
            raise
        except Exception:
            two = one
        return numpy.concatenate([one, two])
    return (lambda s: numpy.asarray(_lib()["cen"].correlation_centroid(_dup(s), ref(s), padding=pad)),
            lambda full, k: numpy.concatenate([full[:, k], full[:, k]]),
            single)


_b_bin = (lambda s: _lib()["ip"].binImgs(_dup(s), 2), lambda full, k: full[k], lambda s, k: _lib()["ip"].binImgs(_dup(s[k]), 2))

_b_tps = (lambda s: _lib()["tp"].calc_slope_temporalps(_dup(s)),
          lambda full, k: numpy.concatenate([full[0][k], full[1][k]]),
          lambda s, k: numpy.concatenate(_lib()["tp"].calc_slope_temporalps(_dup(s[k]))))


def _b_profiles(which):
    def args(s):
        return s[:, 0, :] * 1e-15, s[:, 1, :] * 100. + 50.

    def batch(s):
        fn = getattr(_lib()["ac"], which)
        cn2, aux = args(s)
        full = fn(cn2.copy(), aux.copy(), 5e-7, axis=-1)
        # the same profiles with the layers along the FIRST axis (layers x profiles), axis=0 positional and by keyword
        full0 = fn(numpy.ascontiguousarray(cn2.T), numpy.ascontiguousarray(aux.T), 5e-7, 0)
        full0k = fn(numpy.ascontiguousarray(cn2.T), numpy.ascontiguousarray(aux.T), 5e-7, axis=0)
        if numpy.shape(full0) != numpy.shape(full) or numpy.shape(full0k) != numpy.shape(full):
            raise _RecipeOracle("axis=0 result of shape %s for %d profiles" % (numpy.shape(full0), s.shape[0]))
        return full, full0, full0k

    def single(s, k):
        fn = getattr(_lib()["ac"], which)
        cn2, aux = args(s)
        one = fn(cn2[k].copy(), aux[k].copy(), 5e-7)
        return numpy.array([one, one, one])
    return batch, (lambda full, k: numpy.array([full[0][k], full[1][k], full[2][k]])), single


_SUBAP_MASK = numpy.array([[1, 0], [1, 1]])
_b_subaps = (lambda s: _lib()["wfslib"].make_subaps_2d(s[:, :2, :3].copy(), _SUBAP_MASK),
             lambda full, k: full[k],
             lambda s, k: _lib()["wfslib"].make_subaps_2d(s[k:k + 1, :2, :3].copy(), _SUBAP_MASK)[0])


def _b_ft(name):
    return (lambda s: getattr(_lib()["ftm"], name)(s.astype(complex), 0.5),
            lambda full, k: full[k],
            lambda s, k: getattr(_lib()["ftm"], name)(s[k].astype(complex), 0.5))


BATCH = {
    "centre_of_gravity": _b_cog(0), "centre_of_gravity:thr=0.3": _b_cog(0.3), "centre_of_gravity:thr=0.7": _b_cog(0.7),
    "centre_of_gravity:thr=0.3:min=4": _b_cog(0.3, 4), "centre_of_gravity:thr=0.3:min=10": _b_cog(0.3, 10),
    "brightest_pixel": _b_bp, "quadCell": _b_quad, "correlation_centroid:pad=1": _b_corr(1),
    "correlation_centroid:pad=2": _b_corr(2), "binImgs": _b_bin, "calc_slope_temporalps": _b_tps,
    "coherenceTime": _b_profiles("coherenceTime"), "isoplanaticAngle": _b_profiles("isoplanaticAngle"),
    "rytov_variance": _b_profiles("rytov_variance"), "make_subaps_2d": _b_subaps,
    "ft": _b_ft("ft"), "ift": _b_ft("ift"), "ft2": _b_ft("ft2"), "ift2": _b_ft("ift2"),
}


def _b4(kind, par=None):
    """two leading batch axes (frames, sub-apertures, y, x) against per-item calls; item k = (k // b, k % b)"""
    def lib():
        L = _lib()
        return L["cen"], L["ip"], L["ftm"]
    cast = (lambda x: x.astype(float)) if kind.startswith("r") else (lambda x: x.astype(complex))

    def batch(s4):
        cen, ip, ftm = lib()
        a, b = s4.shape[:2]
        if kind == "cog":
            full = numpy.asarray(cen.centre_of_gravity(_dup(s4), threshold=par))
        elif kind == "bp":
            full = numpy.asarray(cen.brightest_pixel(_dup(s4), par))
        elif kind == "quad":
            full = numpy.asarray(cen.quadCell(s4[..., :2, :2].copy()))
        elif kind == "bin":
            full = numpy.asarray(ip.binImgs(_dup(s4), 2))
        else:
            full = numpy.asarray(getattr(ftm, kind)(cast(s4), 0.5))
        if full.ndim < 3 or (kind in ("cog", "quad", "bp") and full.shape != (2, a, b)):
            raise _RecipeOracle("result of shape %s for a batch of shape %s" % (full.shape, s4.shape))
        return full, b

    def pick(fb, k):
        full, b = fb
        i, j = divmod(k, b)
        return full[:, i, j] if kind in ("cog", "bp", "quad") else full[i, j]

    def single(s4, k):
        cen, ip, ftm = lib()
        i, j = divmod(k, s4.shape[1])
        im = s4[i, j]
        if kind == "cog":
            return numpy.asarray(cen.centre_of_gravity(_dup(im), threshold=par))
        if kind == "bp":
            return numpy.asarray(cen.brightest_pixel(_dup(im), par))
        if kind == "quad":
            return numpy.asarray(cen.quadCell(im[:2, :2].copy()))
        if kind == "bin":
            return numpy.asarray(ip.binImgs(_dup(im), 2))
        return numpy.asarray(getattr(ftm, kind)(cast(im), 0.5))
    return batch, pick, single


BATCH4 = {"brightest_pixel": _b4("bp", 0.3), "centre_of_gravity": _b4("cog", 0), "centre_of_gravity:thr=0.3": _b4("cog", 0.3), "quadCell": _b4("quad"),
          "binImgs": _b4("bin"), "ft2": _b4("ft2"), "ift2": _b4("ift2"), "rft2": _b4("rft2")}


def _as_u16(x):
    """camera counts: the same frames scaled to whole numbers, unsigned 16 bit"""
    return numpy.round(x * 100).astype(numpy.uint16)


def _row_view(x):
    """the same stack as a [..., 1:, :] view of a buffer with one more row per frame (frames are not adjacent)"""
    buf = numpy.full(x.shape[:-2] + (x.shape[-2] + 1, x.shape[-1]), 99, dtype=x.dtype)
    v = buf[..., 1:, :]
    v[...] = x
    return v


def _batch(o, name):
    fr = _frames()
    rect = _frames("rect")
    if name.startswith("4d:"):
        f = BATCH4[name[3:]]
        stacks = []

        def grid(frames, a, b):
            idx = [(3 * i + 5 * j + i * j) % len(frames) for i in range(a) for j in range(b)]
            return numpy.array([frames[t] * (1 + 0.5 * k) for k, t in enumerate(idx)]).reshape((a, b) + frames[0].shape)
        for (a, b) in ((2, 2), (1, 3), (3, 1), (2, 4), (4, 2), (30, 25)):     # incl. sub-aperture count == image width; 750 items
            stacks.append(("lead=%dx%d" % (a, b), grid(fr, a, b)))
        # other frame classes: non-square frames, unsigned 16-bit counts, frames that are views into a larger buffer
        stacks.append(("rect:lead=2x3", grid(rect, 2, 3)))
        stacks.append(("u16:lead=2x3", _as_u16(grid(fr, 2, 3))))
        stacks.append(("view:lead=2x3", _row_view(grid(fr, 2, 3))))
    else:
        f = BATCH[name]
        stacks = [("frames=" + "".join(map(str, tup)), numpy.array([fr[t] for t in tup]))
                  for depth in (1, 2, 3) for tup in itertools.product(range(len(fr)), repeat=depth)]
        # long batches (every item different): block-wise implementations start somewhere above a few hundred items
        for nfr in (130, 513, 700, 1025):
            stacks.append(("frames=long%d" % nfr,
                           numpy.array([numpy.roll(fr[k % 4], k % 3, (k // 3) % 2) * (1.0 + 0.01 * k) + (k % 7) * 0.25 for k in range(nfr)])))
        # other frame classes, every stack of depth <= 2: non-square (4x6) frames, unsigned 16-bit counts, frames that
        # are views into a larger buffer (handed to the library as such)
        for depth in (1, 2):
            for tup in itertools.product(range(len(fr)), repeat=depth):
                tag = "".join(map(str, tup))
                sq = numpy.array([fr[t] for t in tup])
                stacks.append(("rect:frames=" + tag, numpy.array([rect[t] for t in tup])))
                stacks.append(("u16:frames=" + tag, _as_u16(sq)))
                stacks.append(("view:frames=" + tag, _row_view(sq)))
    return _batch_run(o, f, stacks)


BATCH_TOL = 1e-12    # relative; the unchanged library measures <= 6e-16 (batch and single forms sum in different orders)


def _batch_run(o, f, stacks):
    batch, pick, single = f
    n = 0
    for sub, stack in stacks:
        nitems = int(numpy.prod(stack.shape[:-2]))
        eb = full = None
        with numpy.errstate(all="ignore"):
            try:
                full = batch(stack)
            except Exception as e:
                eb = e
            singles, es = {}, {}
            for k in range(nitems):
                try:
                    singles[k] = single(stack, k)
                except Exception as e:
                    es[k] = e
        if any(isinstance(e, _Unavailable) for e in [eb] + list(es.values())):
            o.stat("batch_callable_not_exported_not_claimed", 1)
            continue
        oracle = isinstance(eb, _RecipeOracle)
        if not oracle and ((eb is not None and len(es) == nitems) or (eb is None and len(es) == nitems)):
            # the function has no single-item form for this frame class (and possibly no batch form either): the
            # property says nothing about which inputs are accepted
            o.stat("batch_frame_class_not_accepted_not_applicable", 1)
            o.note("batch_not_applicable:" + sub, _err(eb if eb is not None else es[0]))
            continue
        if eb is not None or es:
            o.check("batch_equals_per_item", False, sub=sub,
                    detail={"batch_call": None if eb is None else _err(eb),
                            "single_item_calls_raising": dict((k, _err(e)) for k, e in list(es.items())[:3])})
            continue
        n += 1
        ok, err = True, 0.0
        for k in range(nitems):
            try:
                a, b = numpy.asarray(pick(full, k)), numpy.asarray(singles[k])
            except Exception:
                ok = False          # the batch result has no item k
                break
            if a.shape != b.shape:
                ok = False
                break
            with numpy.errstate(all="ignore"):
                nan_a, nan_b = numpy.isnan(a), numpy.isnan(b)
                if not numpy.array_equal(nan_a, nan_b):
                    ok = False
                    break
                if a.size:
                    m = ~nan_a
                    if m.any():
                        err = max(err, float(numpy.max(numpy.abs(a[m] - b[m]) / numpy.maximum(1.0, numpy.abs(b[m])))))
        o.check("batch_equals_per_item", ok and err <= BATCH_TOL, sub=sub, measure=err, tol=BATCH_TOL)
    o.stat("lib_calls", n * 3)
    o.stat("nontrivial", n)
    o.stat("transitions", n)
    return o
