"""C20 Library calls are pure: arguments are never modified, no hidden state.

E3 over the whole public API.  State = every array of a shared argument pool (bytes,
shape, dtype, strides, writeable flag), the non-callable globals of every aotools module
and NumPy's global random state.  Each (function, recipe) is a transition applied to the
shared pool; the invariant is that every transition is a self-loop and that the result
equals the result of the same call made in a pristine process.

Phase 1 (depth 1): every recipe in its own forked child of the pristine parent (call,
compare state, call again, compare results).  If every transition is a self-loop the
BFS frontier is empty after depth 1 and any longer program over the alphabet is covered
by induction on the captured state.
Phase 2 (hidden state): for every recipe a: a, then EVERY recipe b, each b compared with its
pristine result (16 forked children, child i takes the recipes a with index = i mod 16 one
after the other, so the real history before b is longer than a.b); thorough adds, for a
25-recipe sub-alphabet, every ordered pair (a, b) followed by every c, each pair in its own child.
Recipes include single-parameter variants of the same callable, which is what exposes state
keyed on a subset of the arguments.
Batch clause: every stack of depth <= 3 over a small frame alphabet == per-item results.
"""
import importlib
import inspect
import itertools
import os
import pickle
import pkgutil
import sys
import traceback

import numpy

from mc import Out, Case
from mc import statespace as ss
from mc.core import digest

PROPERTY = "C20"
LEVEL = "model_checking"
OWN_SCHEDULING = True      # this check drives the pools itself
ENGINES = ["E3-explicit-state-history-search"]
TECHNIQUE = ("explicit-state search over call histories on a shared argument pool: every public callable is a "
             "transition, state = pool arrays + module globals + global RNG, invariant = self-loop and result equal "
             "to the pristine-process result; closure argument at depth 1, exhaustive histories a.b (and a.b.c on a "
             "sub-alphabet) in forked children as a guard against uncaptured state")
RULE = ("alphabet = every (public callable, argument recipe) pair of the catalogue (introspected at run time); "
        "phase 1: each recipe alone in a pristine forked process, twice; phase 2: for every recipe a, a then every "
        "b; phase 3 (thorough): all ordered pairs (a,b) of a 25-recipe sub-alphabet followed by every c; batch: all "
        "stacks of depth <= 3 over the frame alphabet; non-trivial = recipes that receive at least one array argument")
ASSUMPTIONS = [
    "state captured = pool arrays (bytes, shape, dtype, strides, writeable), non-callable module globals of every "
    "aotools module, numpy global RandomState; uncaptured state is only guarded against by the history phases",
    "one or more recipes per callable (dtype/rank/layout variants for array parameters); values outside the recipes "
    "are not covered",
    "functions with documented randomness are called with a seed, or with the global generator seeded as part of "
    "the input (then the generator component is excluded from the self-loop comparison for that recipe)",
    "excluded with reason: plot_tps (opens a figure), fit_tps (calls an undefined name), PhaseScreen base class "
    "(abstract); listed in the evidence",
]
LEVEL_TEXT = ("Every public callable of every module (96 found by introspection, 93 with recipes, ~190 recipes) is "
              "executed on a shared argument pool in a pristine forked process and the complete captured state is "
              "compared before/after; since every transition is a self-loop, the reachable state space is the single "
              "initial state and all programs are covered by induction; all histories a.b (every ordered pair, run as "
              "a followed by all b) are executed against pristine results to guard against state the snapshot does "
              "not capture.")
LEVEL_NOTE = ("Trusted: os.fork isolation, the digest of the state. Not covered: argument values outside the recipes; "
              "state outside the snapshot that no later call in the alphabet can observe.")

EXCLUDED = {
    "aotools.turbulence.temporal_ps.plot_tps": "opens a matplotlib figure",
    "aotools.turbulence.temporal_ps.fit_tps": "calls an undefined name (fit_tps is broken independently of purity)",
    "aotools.turbulence.infinitephasescreen.PhaseScreen": "abstract base class without constructor",
    "aotools.turbulence.slopecovariance.wfs_covariance_mpwrap": None,   # has a recipe; placeholder keeps format
}
EXCLUDED = {k: v for k, v in EXCLUDED.items() if v}


# ----------------------------------------------------------------------------- the pool

def make_pool():
    import aotools
    from aotools.functions import karhunenLoeve as kl
    P = {}
    i, j = numpy.indices((6, 6))
    base = ((3 * i + 5 * j) % 11 + 1 + 0.25 * i).astype(float)
    P["img"] = base.copy()
    P["img_f32"] = base.astype(numpy.float32)
    P["img_i64"] = (base * 4).astype(numpy.int64)
    P["img_c128"] = base + 1j * base.T
    P["img_F"] = numpy.asfortranarray(base + 1.0)
    big = numpy.zeros((12, 12))
    big[::2, ::2] = base + 2.0
    big[1::2, 1::2] = -7.0
    P["_big"] = big
    P["img_view"] = big[::2, ::2]
    ro = base + 3.0
    ro.flags.writeable = False
    P["img_ro"] = ro
    st = numpy.array([base, numpy.roll(base, 1, 0) * 2, numpy.roll(base, 2, 1) + 1])
    P["stack"] = st.copy()
    P["stack_f32"] = st.astype(numpy.float32)
    P["stack_i64"] = (st * 4).astype(numpy.int64)
    sro = st + 1.0
    sro.flags.writeable = False
    P["stack_ro"] = sro
    # arrays above the size classes where numpy / scipy switch to blocked, buffered or multi-pass code paths
    bi, bj = numpy.indices((130, 130))
    P["img_big"] = ((3 * bi + 5 * bj) % 11 + 1 + 0.25 * (bi % 7)).astype(float)
    P["img_big_rect"] = P["img_big"][:, :70].copy()
    P["img_big_view"] = P["img_big"][::2, 1::2]
    P["stack_big"] = numpy.array([numpy.roll(base, k, k % 2) + k % 5 for k in range(130)])
    P["vec_big"] = (numpy.arange(1025.) * 7) % 13 + 1
    # detector frames with flagged (NaN) and saturated (inf) pixels: they are values like any other
    bad = base.copy()
    bad[1, 2] = numpy.nan
    bad[4, 0] = numpy.inf
    P["img_nan"] = bad
    sbad = st.copy()
    sbad[1, 3, 3] = numpy.nan
    P["stack_nan"] = sbad
    P["img2"] = numpy.array([[1., 3.], [2., 7.]])
    P["stack2"] = numpy.array([[[1., 3.], [2., 7.]], [[4., 1.], [0., 2.]]])
    P["ref"] = numpy.roll(base, 1, 1) + 0.5          # reference image with non-zero minimum
    P["vec"] = numpy.arange(8.) * 0.5 + 1
    P["vec_f32"] = (numpy.arange(8.) * 0.25 + 1).astype(numpy.float32)
    P["vec_c128"] = numpy.arange(8.) + 1j * numpy.arange(8.)[::-1]
    a, b = numpy.indices((8, 8))
    P["field"] = numpy.exp(-((a - 3.5) ** 2 + (b - 2.5) ** 2) / 6.) * numpy.exp(1j * 0.3 * a)
    P["half1"] = numpy.arange(5.) + 1j * numpy.arange(5.)      # half spectra for irft / irft2
    P["half2"] = (numpy.arange(40.).reshape(8, 5) + 1j)
    P["mask4"] = numpy.array([[0, 1, 1, 0], [1, 1, 1, 1], [1, 1, 1, 1], [0, 1, 1, 0]])
    P["mask8"] = numpy.kron(P["mask4"], numpy.ones((2, 2), dtype=int))
    P["mask2"] = numpy.array([[1, 1], [0, 1]])
    P["slopes"] = numpy.arange(2 * 2 * 12, dtype=float).reshape(2, 2, 12)
    P["slopes_c128"] = P["slopes"] + 1j * P["slopes"][::-1] * 0.5          # x + i y slopes in one record
    P["subap_pos"] = numpy.array([[0., 0.], [2., 2.], [4., 2.]])
    P["tps"] = numpy.cos(numpy.arange(8)[:, None] * (numpy.arange(4)[None, :] + 1) * 0.7) + 0.1
    P["tps_stack"] = numpy.array([P["tps"], P["tps"] * 2 + 1])
    P["tps_c128"] = P["tps"] + 0.5j * P["tps"][::-1]                       # x + i y slopes in one complex record
    P["tps_c64"] = P["tps_c128"].astype(numpy.complex64)
    P["tps_f32"] = P["tps"].astype(numpy.float32)
    P["tps_i64"] = numpy.round(P["tps"] * 100).astype(numpy.int64)
    P["cn2"] = numpy.array([5e-15, 2e-15, 1e-15, 3e-15, 1e-15])
    P["h"] = numpy.array([0., 2000., 5000., 9000., 15000.])
    P["w"] = numpy.array([5., 10., 20., 30., 15.])
    P["cn2_stack"] = numpy.array([P["cn2"], P["cn2"][::-1] * 2])
    P["h_stack"] = numpy.array([P["h"] + 100., P["h"] + 100.])
    P["sep"] = numpy.array([[0., 0.1, 0.2], [0.1, 0., 0.3], [1., 2., 0.]])
    P["sep_f32"] = P["sep"].astype(numpy.float32)
    P["sep3"] = numpy.stack([P["sep"] + 0.05, P["sep"].T + 0.02], axis=-1)     # (3,3,2) xy separations
    P["pos1"] = numpy.array([[0., 0.], [0.5, 0.], [0., 0.5]])
    P["pos2"] = numpy.array([[0.1, 0.2], [0.6, 0.2]])
    P["coeffs"] = numpy.array([0.5, -1., 0.25, 2., 0., 1.])
    P["jlist"] = [2, 3, 5, 8]
    g = numpy.arange(16.).reshape(8, 2) % 5 - 2
    P["cov8"] = g.dot(g.T) + numpy.eye(8)
    c32 = numpy.tril(P["cov8"]).astype(numpy.float32)
    P["cov8_f32_lower"] = c32
    asym = P["cov8"].copy()
    asym[5, 6] += 0.21
    asym[3, 6] += 0.37          # a measured (one-frame-lag) covariance estimate is not exactly symmetric
    asym[7, 2] -= 0.11
    P["cov8_asym"] = asym
    P["r0s"] = numpy.array([0.1, 0.15, 0.2])
    P["slope_meas"] = numpy.sin(numpy.arange(40.).reshape(10, 4))
    P["rr"] = numpy.linspace(0., 1.2, 7)
    # Karhunen-Loeve intermediates, produced by the library itself in this (pristine) process
    P["kl_rad"] = kl.gkl_radii(0.2, 8)
    P["kl_kers"] = kl.gkl_kernel(0.2, 8, P["kl_rad"])
    P["kl_basis"] = kl.gkl_basis(ri=0.2, nr=8, npp=40, nfunc=6)
    P["kl_geom"] = kl.pcgeom(8, 40, 16, 0.2, 2)
    P["kl_pol"] = kl.gkl_sfi(P["kl_basis"], 2)
    P["kl_r"] = kl.radii(8, 40, 0.2)
    ax = numpy.tile(numpy.linspace(-1, 1, 12), (12, 1))
    P["kl_ax"], P["kl_ay"] = ax, ax.T.copy()
    P["kl_px"] = P["kl_r"] * numpy.cos(kl.polang(P["kl_r"]))
    P["kl_py"] = P["kl_r"] * numpy.sin(kl.polang(P["kl_r"]))
    return P


def pool_state(P, modules):
    c = {}
    for k, v in P.items():
        c["pool:" + k] = ss.obj_digest(v) + ((":w%d" % v.flags.writeable) if isinstance(v, numpy.ndarray) else "")
    st = numpy.random.get_state()
    c["numpy.global_rng"] = digest([st[0], st[1], st[2], st[3], st[4]])
    c["module_globals"] = ss.module_globals_digest(modules)
    c["process_settings"] = process_settings()
    return c


def process_settings():
    """process-wide settings a library call could leave changed for everybody else"""
    import decimal
    import locale
    import warnings
    po = numpy.get_printoptions()
    return repr((sorted(numpy.geterr().items()), sorted((k, repr(v)) for k, v in po.items()),
                 len(warnings.filters), sys.getrecursionlimit(), decimal.getcontext().prec,
                 locale.getlocale(), os.getcwd(), numpy.get_default_printoptions() if hasattr(numpy, "get_default_printoptions") else 0))


def aotools_modules():
    import aotools
    mods = []
    for m in pkgutil.walk_packages(aotools.__path__, "aotools."):
        if m.name.endswith("_version"):
            continue
        mods.append(importlib.import_module(m.name))
    return mods


def public_callables():
    out = []
    for mod in aotools_modules():
        if getattr(mod, "__path__", None):
            continue
        for k, v in vars(mod).items():
            if k.startswith("_"):
                continue
            if (inspect.isfunction(v) or inspect.isclass(v)) and v.__module__ == mod.__name__:
                out.append(mod.__name__ + "." + k)
    return sorted(out)


# ----------------------------------------------------------------------------- recipes

def recipes():
    """list of (recipe id, catalogue target, fn(P) -> result, flags)"""
    import aotools
    from aotools import fouriertransform as ftm, interpolation as ip, opticalpropagation as op
    from aotools.astronomy import _astronomy as astro
    from aotools.functions import _functions as fn_, karhunenLoeve as kl, pupil, zernike as zk
    from aotools.image_processing import centroiders as cen, contrast as con, psf
    from aotools.turbulence import (atmos_conversions as ac, infinitephasescreen as ips, phasescreen as phs,
                                    profile_compression as pc, slopecovariance as sc, temporal_ps as tp, turb)
    from aotools.wfs import wfslib
    R = []

    def add(rid, target, f, **flags):
        R.append((rid, target, f, flags))

    A = "aotools."
    imgs = ["img", "img_f32", "img_i64", "img_F", "img_view", "img_ro"]
    stacks = ["stack", "stack_f32", "stack_i64", "stack_ro"]
    # ---- astronomy
    add("photons_per_mag", A + "astronomy._astronomy.photons_per_mag", lambda P: astro.photons_per_mag(5., P["mask4"], 0.5, 100., 0.01))
    add("photons_per_band", A + "astronomy._astronomy.photons_per_band", lambda P: astro.photons_per_band(5., P["mask4"], 0.5, 0.01, "R"))
    add("magnitude_to_flux", A + "astronomy._astronomy.magnitude_to_flux", lambda P: astro.magnitude_to_flux(P["vec"], "K"))
    add("flux_to_magnitude", A + "astronomy._astronomy.flux_to_magnitude", lambda P: astro.flux_to_magnitude(1e6, "V"))
    # ---- fourier transforms (module and package paths share the functions)
    for name in ("ft", "ift"):
        for arr in ("vec", "vec_c128", "vec_f32", "stack", "img_view", "img_ro"):
            add("%s:%s" % (name, arr), A + "fouriertransform." + name, lambda P, n=name, a=arr: getattr(ftm, n)(P[a], 0.5))
    for name in ("ft2", "ift2"):
        for arr in ("img", "img_c128", "img_F", "stack_f32", "img_ro", "field"):
            add("%s:%s" % (name, arr), A + "fouriertransform." + name, lambda P, n=name, a=arr: getattr(ftm, n)(P[a], 0.5))
    for arr in ("vec", "vec_f32", "img"):
        add("rft:" + arr, A + "fouriertransform.rft", lambda P, a=arr: ftm.rft(P[a], 0.5))
    add("irft:half1", A + "fouriertransform.irft", lambda P: ftm.irft(P["half1"], 0.25))
    for arr in ("img", "stack", "img_ro"):
        add("rft2:" + arr, A + "fouriertransform.rft2", lambda P, a=arr: ftm.rft2(P[a], 0.5))
    add("irft2:half2", A + "fouriertransform.irft2", lambda P: ftm.irft2(P["half2"], 0.25))
    # ---- functions
    add("gaussian2d", A + "functions._functions.gaussian2d", lambda P: fn_.gaussian2d((6, 8), (1.5, 2.), 2., (2.5, 3.)))
    add("gaussian2d:scalar", A + "functions._functions.gaussian2d", lambda P: fn_.gaussian2d(6, 1.5))
    add("circle", A + "functions.pupil.circle", lambda P: pupil.circle(2.5, 6, (0.5, -0.5)))
    add("circle:corner", A + "functions.pupil.circle", lambda P: pupil.circle(2.5, 7, (3, 3), origin="corner"))
    add("phaseFromZernikes", A + "functions.zernike.phaseFromZernikes", lambda P: zk.phaseFromZernikes(P["coeffs"], 8))
    add("phaseFromZernikes:rms", A + "functions.zernike.phaseFromZernikes", lambda P: zk.phaseFromZernikes(P["coeffs"], 9, norm="rms", rot=0.3))
    add("zernike_noll", A + "functions.zernike.zernike_noll", lambda P: zk.zernike_noll(7, 8))
    add("zernike_nm", A + "functions.zernike.zernike_nm", lambda P: zk.zernike_nm(3, -1, 9, rot=0.2))
    add("zernikeRadialFunc", A + "functions.zernike.zernikeRadialFunc", lambda P: zk.zernikeRadialFunc(4, 2, P["sep"]))
    add("zernikeRadialFunc:f32", A + "functions.zernike.zernikeRadialFunc", lambda P: zk.zernikeRadialFunc(3, 1, P["sep_f32"]))
    add("zernIndex", A + "functions.zernike.zernIndex", lambda P: zk.zernIndex(11))
    add("zernikeArray:count", A + "functions.zernike.zernikeArray", lambda P: zk.zernikeArray(6, 8))
    add("zernikeArray:list", A + "functions.zernike.zernikeArray", lambda P: zk.zernikeArray(P["jlist"], 8, norm="p2v"))
    add("makegammas", A + "functions.zernike.makegammas", lambda P: zk.makegammas(3))
    # ---- Karhunen-Loeve
    add("kl.rebin", A + "functions.karhunenLoeve.rebin", lambda P: kl.rebin(P["img"], (12, 3)))
    add("kl.rebin:ro", A + "functions.karhunenLoeve.rebin", lambda P: kl.rebin(P["img_ro"], (3, 12)))
    for f in ("stf_kolmogorov",):
        add("kl." + f, A + "functions.karhunenLoeve." + f, lambda P, f=f: getattr(kl, f)(P["sep"]))
        add("kl." + f + ":f32", A + "functions.karhunenLoeve." + f, lambda P, f=f: getattr(kl, f)(P["sep_f32"]))
    for f in ("stf_vonKarman_yao", "stf_vonKarman"):
        add("kl." + f, A + "functions.karhunenLoeve." + f, lambda P, f=f: getattr(kl, f)(P["sep"], 20.))
        add("kl." + f + ":f32", A + "functions.karhunenLoeve." + f, lambda P, f=f: getattr(kl, f)(P["sep_f32"], 20.))
    add("kl.gkl_radii", A + "functions.karhunenLoeve.gkl_radii", lambda P: kl.gkl_radii(0.2, 8))
    add("kl.gkl_kernel", A + "functions.karhunenLoeve.gkl_kernel", lambda P: kl.gkl_kernel(0.2, 8, P["kl_rad"]))
    add("kl.gkl_kernel:vk", A + "functions.karhunenLoeve.gkl_kernel", lambda P: kl.gkl_kernel(0.2, 8, P["kl_rad"], "vk", 5.))
    add("kl.piston_orth", A + "functions.karhunenLoeve.piston_orth", lambda P: kl.piston_orth(6))
    add("kl.gkl_fcom", A + "functions.karhunenLoeve.gkl_fcom", lambda P: kl.gkl_fcom(0.2, P["kl_kers"], 6))
    add("kl.gkl_azimuthal", A + "functions.karhunenLoeve.gkl_azimuthal", lambda P: kl.gkl_azimuthal(5, 40))
    add("kl.gkl_basis", A + "functions.karhunenLoeve.gkl_basis", lambda P: kl.gkl_basis(ri=0.2, nr=8, npp=40, nfunc=6))
    add("kl.gkl_sfi", A + "functions.karhunenLoeve.gkl_sfi", lambda P: kl.gkl_sfi(P["kl_basis"], 3))
    add("kl.radii", A + "functions.karhunenLoeve.radii", lambda P: kl.radii(8, 40, 0.2))
    add("kl.polang", A + "functions.karhunenLoeve.polang", lambda P: kl.polang(P["kl_r"]))
    add("kl.set_pctr", A + "functions.karhunenLoeve.set_pctr", lambda P: kl.set_pctr(P["kl_basis"], ncp=16))
    add("kl.setpincs", A + "functions.karhunenLoeve.setpincs", lambda P: kl.setpincs(P["kl_ax"], P["kl_ay"], P["kl_px"], P["kl_py"], 0.2))
    add("kl.pcgeom", A + "functions.karhunenLoeve.pcgeom", lambda P: kl.pcgeom(8, 40, 16, 0.2, 2))
    add("kl.pol2car", A + "functions.karhunenLoeve.pol2car", lambda P: kl.pol2car(P["kl_geom"], P["kl_pol"]))
    add("kl.pol2car:mask", A + "functions.karhunenLoeve.pol2car", lambda P: kl.pol2car(P["kl_geom"], P["kl_pol"], mask=True))
    add("kl.make_kl", A + "functions.karhunenLoeve.make_kl", lambda P: kl.make_kl(5, 16, ri=0.2, nr=8))
    # ---- centroiders / contrast / psf
    for arr in imgs + stacks:
        add("centre_of_gravity:" + arr, A + "image_processing.centroiders.centre_of_gravity", lambda P, a=arr: cen.centre_of_gravity(P[a]))
        add("centre_of_gravity:thr:" + arr, A + "image_processing.centroiders.centre_of_gravity",
            lambda P, a=arr: cen.centre_of_gravity(P[a], threshold=0.3))
        add("brightest_pixel:" + arr, A + "image_processing.centroiders.brightest_pixel", lambda P, a=arr: cen.brightest_pixel(P[a], 0.3))
    for arr in ("img", "img_f32", "img_F", "img_view", "img_ro", "stack", "stack_f32", "stack_ro"):
        add("correlation_centroid:" + arr, A + "image_processing.centroiders.correlation_centroid",
            lambda P, a=arr: cen.correlation_centroid(P[a], P["ref"]))
    add("correlation_centroid:pad", A + "image_processing.centroiders.correlation_centroid",
        lambda P: cen.correlation_centroid(P["stack"], P["img_ro"], threshold=0.2, padding=2))
    for arr in ("img", "img_i64", "img_ro"):
        add("cross_correlate:" + arr, A + "image_processing.centroiders.cross_correlate", lambda P, a=arr: cen.cross_correlate(P[a], P["ref"], padding=2))
    add("quadCell:img2", A + "image_processing.centroiders.quadCell", lambda P: cen.quadCell(P["img2"]))
    add("quadCell:stack2", A + "image_processing.centroiders.quadCell", lambda P: cen.quadCell(P["stack2"]))
    for arr in imgs + ["stack"]:
        add("image_contrast:" + arr, A + "image_processing.contrast.image_contrast", lambda P, a=arr: con.image_contrast(P[a]))
        add("rms_contrast:" + arr, A + "image_processing.contrast.rms_contrast", lambda P, a=arr: con.rms_contrast(P[a]))
    for arr in ("img", "img_f32", "img_i64", "img_view", "img_ro"):
        add("azimuthal_average:" + arr, A + "image_processing.psf.azimuthal_average", lambda P, a=arr: psf.azimuthal_average(P[a]))
        add("encircled_energy:" + arr, A + "image_processing.psf.encircled_energy", lambda P, a=arr: psf.encircled_energy(P[a]))
    add("encircled_energy:curve", A + "image_processing.psf.encircled_energy", lambda P: psf.encircled_energy(P["img"], eeDiameter=False))
    # ---- interpolation
    for arr in ("img", "img_f32", "img_c128", "img_F", "img_view", "img_ro"):
        add("zoom:" + arr, A + "interpolation.zoom", lambda P, a=arr: ip.zoom(P[a], (9, 9)))
        add("zoom_rbs:" + arr, A + "interpolation.zoom_rbs", lambda P, a=arr: ip.zoom_rbs(P[a], (9, 9), order=1))
    for arr in ("img", "img_i64", "img_c128", "img_view", "img_ro", "stack", "stack_f32", "stack_ro"):
        add("binImgs:" + arr, A + "interpolation.binImgs", lambda P, a=arr: ip.binImgs(P[a], 2))
    # ---- optical propagation
    add("angularSpectrum", A + "opticalpropagation.angularSpectrum", lambda P: op.angularSpectrum(P["field"], 5e-7, 0.01, 0.013, 500.))
    add("angularSpectrum:z0", A + "opticalpropagation.angularSpectrum", lambda P: op.angularSpectrum(P["field"], 5e-7, 0.01, 0.01, 0))
    add("oneStepFresnel", A + "opticalpropagation.oneStepFresnel", lambda P: op.oneStepFresnel(P["field"], 5e-7, 0.01, 500.))
    add("twoStepFresnel", A + "opticalpropagation.twoStepFresnel", lambda P: op.twoStepFresnel(P["field"], 5e-7, 0.01, 0.013, 500.))
    add("twoStepFresnel:m1", A + "opticalpropagation.twoStepFresnel", lambda P: op.twoStepFresnel(P["field"], 5e-7, 0.01, 0.01, -500.))
    add("lensAgainst", A + "opticalpropagation.lensAgainst", lambda P: op.lensAgainst(P["field"], 5e-7, 0.01, 2.5))
    add("angularSpectrum:real", A + "opticalpropagation.angularSpectrum", lambda P: op.angularSpectrum(P["img_ro"], 5e-7, 0.01, 0.01, 300.))
    # ---- frames with NaN / inf pixels
    for arr in ("img_nan", "stack_nan"):
        add("centre_of_gravity:" + arr, A + "image_processing.centroiders.centre_of_gravity", lambda P, a=arr: cen.centre_of_gravity(P[a]))
        add("centre_of_gravity:thr:" + arr, A + "image_processing.centroiders.centre_of_gravity", lambda P, a=arr: cen.centre_of_gravity(P[a], threshold=0.3))
        add("brightest_pixel:" + arr, A + "image_processing.centroiders.brightest_pixel", lambda P, a=arr: cen.brightest_pixel(P[a], 0.3))
        add("correlation_centroid:" + arr, A + "image_processing.centroiders.correlation_centroid", lambda P, a=arr: cen.correlation_centroid(P[a], P["ref"]))
        add("image_contrast:" + arr, A + "image_processing.contrast.image_contrast", lambda P, a=arr: con.image_contrast(P[a]))
        add("rms_contrast:" + arr, A + "image_processing.contrast.rms_contrast", lambda P, a=arr: con.rms_contrast(P[a]))
        add("binImgs:" + arr, A + "interpolation.binImgs", lambda P, a=arr: ip.binImgs(P[a], 2))
        add("ft2:" + arr, A + "fouriertransform.ft2", lambda P, a=arr: ftm.ft2(P[a], 0.5))
    add("azimuthal_average:img_nan", A + "image_processing.psf.azimuthal_average", lambda P: psf.azimuthal_average(P["img_nan"]))
    add("encircled_energy:img_nan", A + "image_processing.psf.encircled_energy", lambda P: psf.encircled_energy(P["img_nan"]))
    add("calculate_structure_function:img_nan", A + "turbulence.slopecovariance.calculate_structure_function", lambda P: sc.calculate_structure_function(P["img_nan"]))
    # ---- the same families on large arrays
    for arr in ("img_big", "img_big_rect", "img_big_view", "stack_big"):
        add("centre_of_gravity:" + arr, A + "image_processing.centroiders.centre_of_gravity", lambda P, a=arr: cen.centre_of_gravity(P[a], threshold=0.3))
        add("brightest_pixel:" + arr, A + "image_processing.centroiders.brightest_pixel", lambda P, a=arr: cen.brightest_pixel(P[a], 0.3))
        add("image_contrast:" + arr, A + "image_processing.contrast.image_contrast", lambda P, a=arr: con.image_contrast(P[a]))
        add("rms_contrast:" + arr, A + "image_processing.contrast.rms_contrast", lambda P, a=arr: con.rms_contrast(P[a]))
        add("ft2:" + arr, A + "fouriertransform.ft2", lambda P, a=arr: ftm.ft2(P[a], 0.5))
        add("rft2:" + arr, A + "fouriertransform.rft2", lambda P, a=arr: ftm.rft2(P[a], 0.5))
    add("correlation_centroid:stack_big", A + "image_processing.centroiders.correlation_centroid",
        lambda P: cen.correlation_centroid(P["stack_big"], P["ref"]))
    add("binImgs:img_big", A + "interpolation.binImgs", lambda P: ip.binImgs(P["img_big"], 2))
    add("binImgs:img_big_rect", A + "interpolation.binImgs", lambda P: ip.binImgs(P["img_big_rect"], 5))
    add("binImgs:stack_big", A + "interpolation.binImgs", lambda P: ip.binImgs(P["stack_big"], 3))
    add("zoom:img_big_view", A + "interpolation.zoom", lambda P: ip.zoom(P["img_big_view"], (97, 97)))
    add("zoom_rbs:img_big", A + "interpolation.zoom_rbs", lambda P: ip.zoom_rbs(P["img_big"], (65, 65)))
    add("azimuthal_average:img_big", A + "image_processing.psf.azimuthal_average", lambda P: psf.azimuthal_average(P["img_big"]))
    add("encircled_energy:img_big", A + "image_processing.psf.encircled_energy", lambda P: psf.encircled_energy(P["img_big"]))
    add("ft:vec_big", A + "fouriertransform.ft", lambda P: ftm.ft(P["vec_big"], 0.5))
    add("ift:vec_big", A + "fouriertransform.ift", lambda P: ftm.ift(P["vec_big"], 0.5))
    add("rft:vec_big", A + "fouriertransform.rft", lambda P: ftm.rft(P["vec_big"], 0.5))
    add("magnitude_to_flux:vec_big", A + "astronomy._astronomy.magnitude_to_flux", lambda P: astro.magnitude_to_flux(P["vec_big"], "K"))
    add("angularSpectrum:img_big", A + "opticalpropagation.angularSpectrum", lambda P: op.angularSpectrum(P["img_big"], 5e-7, 0.01, 0.013, 500.))
    add("twoStepFresnel:img_big", A + "opticalpropagation.twoStepFresnel", lambda P: op.twoStepFresnel(P["img_big"], 5e-7, 0.01, 0.013, 500.))
    add("zernikeRadialFunc:img_big", A + "functions.zernike.zernikeRadialFunc", lambda P: zk.zernikeRadialFunc(4, 2, P["img_big"] / 14.))
    add("kl.stf_vonKarman:img_big", A + "functions.karhunenLoeve.stf_vonKarman", lambda P: kl.stf_vonKarman(P["img_big"] / 14., 20.))
    # ---- atmos conversions
    for f in ("cn2_to_seeing", "seeing_to_cn2", "cn2_to_r0", "r0_to_cn2", "r0_to_seeing", "seeing_to_r0"):
        add(f, A + "turbulence.atmos_conversions." + f, lambda P, f=f: getattr(ac, f)(P["r0s"], 6e-7))
    add("coherenceTime", A + "turbulence.atmos_conversions.coherenceTime", lambda P: ac.coherenceTime(P["cn2"], P["w"]))
    add("coherenceTime:stack", A + "turbulence.atmos_conversions.coherenceTime", lambda P: ac.coherenceTime(P["cn2_stack"], P["w"], axis=1))
    add("isoplanaticAngle", A + "turbulence.atmos_conversions.isoplanaticAngle", lambda P: ac.isoplanaticAngle(P["cn2"], P["h"]))
    add("isoplanaticAngle:stack", A + "turbulence.atmos_conversions.isoplanaticAngle", lambda P: ac.isoplanaticAngle(P["cn2_stack"], P["h_stack"], 7e-7, axis=-1))
    add("rytov_variance", A + "turbulence.atmos_conversions.rytov_variance", lambda P: ac.rytov_variance(P["cn2"], P["h"]))
    add("r0_from_slopes", A + "turbulence.atmos_conversions.r0_from_slopes", lambda P: ac.r0_from_slopes(P["slope_meas"], 5e-7, 0.5))
    add("slope_variance_from_r0", A + "turbulence.atmos_conversions.slope_variance_from_r0", lambda P: ac.slope_variance_from_r0(P["r0s"], 5e-7, 0.5))
    # ---- phase screens (seeded)
    add("ft_phase_screen", A + "turbulence.phasescreen.ft_phase_screen", lambda P: phs.ft_phase_screen(0.2, 8, 0.1, 25., 0.01, seed=3))
    add("ft_sh_phase_screen", A + "turbulence.phasescreen.ft_sh_phase_screen", lambda P: phs.ft_sh_phase_screen(0.2, 8, 0.1, 25., 0.01, seed=3))
    add("phasescreen.ift2", A + "turbulence.phasescreen.ift2", lambda P: phs.ift2(P["img_c128"], 0.5))
    add("phasescreen.ift2:ro", A + "turbulence.phasescreen.ift2", lambda P: phs.ift2(P["img_ro"], 0.5))

    def vk(P):
        s = ips.PhaseScreenVonKarman(5, 0.1, 0.2, 25., random_seed=2)
        a = numpy.array(s.scrn)
        s.add_row()
        return [a, numpy.array(s.scrn)]

    def fried(P):
        s = ips.PhaseScreenKolmogorov(4, 0.1, 0.2, 25., random_seed=2, stencil_length_factor=2)
        a = numpy.array(s.scrn)
        s.add_row()
        return [a, numpy.array(s.scrn), repr(s)]
    add("PhaseScreenVonKarman", A + "turbulence.infinitephasescreen.PhaseScreenVonKarman", vk)
    add("PhaseScreenKolmogorov", A + "turbulence.infinitephasescreen.PhaseScreenKolmogorov", fried)
    add("find_allowed_size", A + "turbulence.infinitephasescreen.find_allowed_size", lambda P: ips.find_allowed_size(6))
    # ---- profile compression
    add("equivalent_layers", A + "turbulence.profile_compression.equivalent_layers", lambda P: pc.equivalent_layers(P["h"], P["cn2"], 2))
    add("equivalent_layers:wind", A + "turbulence.profile_compression.equivalent_layers", lambda P: pc.equivalent_layers(P["h"], P["cn2"], 3, P["w"]))

    def og(P):
        numpy.random.seed(11)
        return pc.optimal_grouping(2, 2, P["h"], P["cn2"])
    add("optimal_grouping", A + "turbulence.profile_compression.optimal_grouping", og, uses_global_rng=True)
    add("GCTM", A + "turbulence.profile_compression.GCTM", lambda P: pc.GCTM(P["h"], P["cn2"] * 100, 2))
    # ---- slope covariance

    def covmat(threads):
        def f(P):
            c = sc.CovarianceMatrix(2, [P["mask2"], P["mask2"]], 1.0, [0.5, 0.5], [0, 90000.], [[0, 0], [10., 5.]],
                                    [5e-7, 6e-7], 2, P["h"][:2], P["r0s"][:2], [25., 10.], threads=threads)
            m = numpy.array(c.make_covariance_matrix())
            r = c.make_tomographic_reconstructor(svd_conditioning=0.01)
            m2 = numpy.array(c.make_covariance_matrix())
            return [m, r, m2]
        return f
    add("CovarianceMatrix", A + "turbulence.slopecovariance.CovarianceMatrix", covmat(1))
    add("CovarianceMatrix:mp", A + "turbulence.slopecovariance.CovarianceMatrix", covmat(2))
    wargs = lambda P: (3, 2, P["pos1"], P["pos2"], 0.5, 0.4, 0.2, 25.)
    add("wfs_covariance", A + "turbulence.slopecovariance.wfs_covariance", lambda P: sc.wfs_covariance(*wargs(P)))
    add("wfs_covariance_mpwrap", A + "turbulence.slopecovariance.wfs_covariance_mpwrap", lambda P: sc.wfs_covariance_mpwrap(wargs(P)))
    add("calculate_wfs_seperations", A + "turbulence.slopecovariance.calculate_wfs_seperations",
        lambda P: sc.calculate_wfs_seperations(3, 2, P["pos1"], P["pos2"]))
    for f in ("compute_covariance_xx", "compute_covariance_yy", "compute_covariance_xy"):
        add(f, A + "turbulence.slopecovariance." + f, lambda P, f=f: getattr(sc, f)(P["sep3"], 0.5, 0.4, 0.2, 25.))
    for arr in ("sep", "sep_f32", "rr"):
        add("structure_function_vk:" + arr, A + "turbulence.slopecovariance.structure_function_vk", lambda P, a=arr: sc.structure_function_vk(P[a], 0.2, 25.))
        add("structure_function_kolmogorov:" + arr, A + "turbulence.slopecovariance.structure_function_kolmogorov",
            lambda P, a=arr: sc.structure_function_kolmogorov(P[a], 0.2))
        add("phase_covariance:" + arr, A + "turbulence.turb.phase_covariance", lambda P, a=arr: turb.phase_covariance(P[a], 0.2, 25.))
    for arr in ("img", "img_f32", "img_view", "img_ro"):
        add("calculate_structure_function:" + arr, A + "turbulence.slopecovariance.calculate_structure_function",
            lambda P, a=arr: sc.calculate_structure_function(P[a], 3, 1))
    add("mirror_covariance_matrix", A + "turbulence.slopecovariance.mirror_covariance_matrix", lambda P: sc.mirror_covariance_matrix(P["cov8_f32_lower"]))
    add("create_tomographic_covariance_reconstructor", A + "turbulence.slopecovariance.create_tomographic_covariance_reconstructor",
        lambda P: sc.create_tomographic_covariance_reconstructor(P["cov8"], 2, 0.01))
    # ---- temporal power spectra
    add("calc_slope_temporalps", A + "turbulence.temporal_ps.calc_slope_temporalps", lambda P: tp.calc_slope_temporalps(P["tps"]))
    add("calc_slope_temporalps:stack", A + "turbulence.temporal_ps.calc_slope_temporalps", lambda P: tp.calc_slope_temporalps(P["tps_stack"]))
    for arr in ("tps_c128", "tps_c64", "tps_f32", "tps_i64"):
        add("calc_slope_temporalps:" + arr, A + "turbulence.temporal_ps.calc_slope_temporalps", lambda P, a=arr: tp.calc_slope_temporalps(P[a]))
    add("get_tps_time_axis", A + "turbulence.temporal_ps.get_tps_time_axis", lambda P: tp.get_tps_time_axis(100., 8))
    # ---- wfs
    add("findActiveSubaps", A + "wfs.wfslib.findActiveSubaps", lambda P: wfslib.findActiveSubaps(4, P["mask8"], 0.6))
    add("findActiveSubaps:fill", A + "wfs.wfslib.findActiveSubaps", lambda P: wfslib.findActiveSubaps(3, P["mask8"], 0.5, returnFill=True))
    add("computeFillFactor", A + "wfs.wfslib.computeFillFactor", lambda P: wfslib.computeFillFactor(P["mask8"], P["subap_pos"], 2))
    add("make_subaps_2d", A + "wfs.wfslib.make_subaps_2d", lambda P: wfslib.make_subaps_2d(P["slopes"], P["mask4"]))
    # ---- single-parameter variants: the same callable with exactly one scalar argument changed.  State that is
    # keyed on a subset of the arguments (a cache that forgets a parameter, a lazily built table) makes the
    # result of one variant depend on whether another variant ran before; the history phases expose that.
    add("v:circle:centre", A + "functions.pupil.circle", lambda P: pupil.circle(2.5, 6, (1.0, 0.5)))
    add("v:circle:radius", A + "functions.pupil.circle", lambda P: pupil.circle(1.5, 6, (0.5, -0.5)))
    add("v:circle:corner6", A + "functions.pupil.circle", lambda P: pupil.circle(2.0, 6, (2, 3), origin="corner"))
    add("v:circle:corner6b", A + "functions.pupil.circle", lambda P: pupil.circle(2.0, 6, (3, 2), origin="corner"))
    add("v:gaussian2d:width", A + "functions._functions.gaussian2d", lambda P: fn_.gaussian2d((6, 8), (2.5, 2.), 2., (2.5, 3.)))
    add("v:zernikeArray:p2v", A + "functions.zernike.zernikeArray", lambda P: zk.zernikeArray(6, 8, norm="p2v"))
    add("v:zernikeArray:rms", A + "functions.zernike.zernikeArray", lambda P: zk.zernikeArray(6, 8, norm="rms"))
    add("v:zernikeArray:rot", A + "functions.zernike.zernikeArray", lambda P: zk.zernikeArray(6, 8, rot=0.4))
    add("v:zernikeArray:N9", A + "functions.zernike.zernikeArray", lambda P: zk.zernikeArray(6, 9))
    add("v:zernike_noll:rot", A + "functions.zernike.zernike_noll", lambda P: zk.zernike_noll(7, 8, rot=0.5))
    add("v:zernike_noll:j", A + "functions.zernike.zernike_noll", lambda P: zk.zernike_noll(8, 8))
    add("v:zernike_nm:m", A + "functions.zernike.zernike_nm", lambda P: zk.zernike_nm(3, 1, 9, rot=0.2))
    add("v:phaseFromZernikes:p2v", A + "functions.zernike.phaseFromZernikes", lambda P: zk.phaseFromZernikes(P["coeffs"], 8, norm="p2v"))
    add("v:makegammas:4", A + "functions.zernike.makegammas", lambda P: zk.makegammas(4))
    add("v:kl.gkl_radii:ri", A + "functions.karhunenLoeve.gkl_radii", lambda P: kl.gkl_radii(0.3, 8))
    add("v:kl.gkl_kernel:ri", A + "functions.karhunenLoeve.gkl_kernel", lambda P: kl.gkl_kernel(0.3, 8, kl.gkl_radii(0.3, 8)))
    add("v:kl.gkl_basis:ri", A + "functions.karhunenLoeve.gkl_basis", lambda P: kl.gkl_basis(ri=0.3, nr=8, npp=40, nfunc=6))
    add("v:kl.gkl_basis:nfunc", A + "functions.karhunenLoeve.gkl_basis", lambda P: kl.gkl_basis(ri=0.2, nr=8, npp=40, nfunc=4))
    add("v:kl.make_kl:nmax", A + "functions.karhunenLoeve.make_kl", lambda P: kl.make_kl(4, 16, ri=0.2, nr=8))
    add("v:kl.make_kl:dim", A + "functions.karhunenLoeve.make_kl", lambda P: kl.make_kl(5, 17, ri=0.2, nr=8))
    add("v:kl.make_kl:ri", A + "functions.karhunenLoeve.make_kl", lambda P: kl.make_kl(5, 16, ri=0.3, nr=8))
    add("v:kl.pcgeom:ri", A + "functions.karhunenLoeve.pcgeom", lambda P: kl.pcgeom(8, 40, 16, 0.3, 2))
    add("v:ft_phase_screen:r0", A + "turbulence.phasescreen.ft_phase_screen", lambda P: phs.ft_phase_screen(0.1, 8, 0.1, 25., 0.01, seed=3))
    add("v:ft_phase_screen:L0", A + "turbulence.phasescreen.ft_phase_screen", lambda P: phs.ft_phase_screen(0.2, 8, 0.1, 10., 0.01, seed=3))
    add("v:ft_phase_screen:delta", A + "turbulence.phasescreen.ft_phase_screen", lambda P: phs.ft_phase_screen(0.2, 8, 0.2, 25., 0.01, seed=3))
    add("v:ft_phase_screen:seed", A + "turbulence.phasescreen.ft_phase_screen", lambda P: phs.ft_phase_screen(0.2, 8, 0.1, 25., 0.01, seed=4))
    add("v:ft_phase_screen:seed0", A + "turbulence.phasescreen.ft_phase_screen", lambda P: phs.ft_phase_screen(0.2, 8, 0.1, 25., 0.01, seed=0))
    add("v:ft_sh_phase_screen:seed0", A + "turbulence.phasescreen.ft_sh_phase_screen", lambda P: phs.ft_sh_phase_screen(0.2, 8, 0.1, 25., 0.01, seed=0))
    add("v:ft_phase_screen:np_int_seed", A + "turbulence.phasescreen.ft_phase_screen",
        lambda P: phs.ft_phase_screen(0.2, 8, 0.1, 25., 0.01, seed=numpy.int64(6)))

    def vk_seed0(P):
        s = ips.PhaseScreenVonKarman(5, 0.1, 0.2, 25., random_seed=0)
        a = numpy.array(s.scrn)
        s.add_row()
        return [a, numpy.array(s.scrn)]
    add("v:PhaseScreenVonKarman:seed0", A + "turbulence.infinitephasescreen.PhaseScreenVonKarman", vk_seed0)
    add("v:ft_sh_phase_screen:r0", A + "turbulence.phasescreen.ft_sh_phase_screen", lambda P: phs.ft_sh_phase_screen(0.1, 8, 0.1, 25., 0.01, seed=3))
    add("v:ft_sh_phase_screen:L0", A + "turbulence.phasescreen.ft_sh_phase_screen", lambda P: phs.ft_sh_phase_screen(0.2, 8, 0.1, 0.5, 0.01, seed=3))

    def vk_r0(P):
        s = ips.PhaseScreenVonKarman(5, 0.1, 0.1, 25., random_seed=2)
        a = numpy.array(s.scrn)
        s.add_row()
        return [a, numpy.array(s.scrn)]

    def fried_r0(P):
        s = ips.PhaseScreenKolmogorov(4, 0.1, 0.1, 25., random_seed=2, stencil_length_factor=2)
        a = numpy.array(s.scrn)
        s.add_row()
        return [a, numpy.array(s.scrn)]
    add("v:PhaseScreenVonKarman:r0", A + "turbulence.infinitephasescreen.PhaseScreenVonKarman", vk_r0)
    add("v:PhaseScreenKolmogorov:r0", A + "turbulence.infinitephasescreen.PhaseScreenKolmogorov", fried_r0)
    add("v:angularSpectrum:spacing", A + "opticalpropagation.angularSpectrum", lambda P: op.angularSpectrum(P["field"], 5e-7, 0.013, 0.01, -500.))
    add("v:angularSpectrum:wvl", A + "opticalpropagation.angularSpectrum", lambda P: op.angularSpectrum(P["field"], 7e-7, 0.01, 0.013, 500.))
    add("v:oneStepFresnel:z", A + "opticalpropagation.oneStepFresnel", lambda P: op.oneStepFresnel(P["field"], 5e-7, 0.01, 800.))
    add("v:twoStepFresnel:wvl", A + "opticalpropagation.twoStepFresnel", lambda P: op.twoStepFresnel(P["field"], 7e-7, 0.01, 0.013, 500.))
    add("v:twoStepFresnel:z", A + "opticalpropagation.twoStepFresnel", lambda P: op.twoStepFresnel(P["field"], 5e-7, 0.01, 0.013, 900.))
    add("v:lensAgainst:f", A + "opticalpropagation.lensAgainst", lambda P: op.lensAgainst(P["field"], 5e-7, 0.01, 1.5))
    for f in ("cn2_to_seeing", "seeing_to_cn2", "cn2_to_r0", "r0_to_cn2", "r0_to_seeing", "seeing_to_r0"):
        add("v:%s:default_lambda" % f, A + "turbulence.atmos_conversions." + f, lambda P, f=f: getattr(ac, f)(P["r0s"]))
    add("v:coherenceTime:lambda", A + "turbulence.atmos_conversions.coherenceTime", lambda P: ac.coherenceTime(P["cn2"], P["w"], 7e-7))
    add("v:coherenceTime:axis0", A + "turbulence.atmos_conversions.coherenceTime", lambda P: ac.coherenceTime(P["cn2_stack"].T, P["w"][:, None], axis=0))
    add("v:rytov_variance:stack", A + "turbulence.atmos_conversions.rytov_variance", lambda P: ac.rytov_variance(P["cn2_stack"], P["h_stack"], axis=1))
    for band in ("r", "R", "i", "I", "V"):
        add("v:magnitude_to_flux:" + band, A + "astronomy._astronomy.magnitude_to_flux", lambda P, b=band: astro.magnitude_to_flux(7.5, b))
        add("v:flux_to_magnitude:" + band, A + "astronomy._astronomy.flux_to_magnitude", lambda P, b=band: astro.flux_to_magnitude(2e5, b))
    add("v:photons_per_band:V", A + "astronomy._astronomy.photons_per_band", lambda P: astro.photons_per_band(5., P["mask4"], 0.5, 0.01, "V"))
    add("v:equivalent_layers:L3", A + "turbulence.profile_compression.equivalent_layers", lambda P: pc.equivalent_layers(P["h"], P["cn2"], 3))
    add("v:equivalent_layers:int_wind", A + "turbulence.profile_compression.equivalent_layers",
        lambda P: pc.equivalent_layers(P["h"], P["cn2"], 2, numpy.array([4, 5, 7, 9, 12])))

    def og2(P):
        numpy.random.seed(11)
        return pc.optimal_grouping(2, 2, P["h"], P["cn2"][::-1].copy())
    add("v:optimal_grouping:profile", A + "turbulence.profile_compression.optimal_grouping", og2, uses_global_rng=True)
    add("v:GCTM:L1", A + "turbulence.profile_compression.GCTM", lambda P: pc.GCTM(P["h"], P["cn2"] * 100, 1))
    for arr in ("sep", "rr"):
        add("v:structure_function_vk:L0:" + arr, A + "turbulence.slopecovariance.structure_function_vk", lambda P, a=arr: sc.structure_function_vk(P[a], 0.2, 5.))
        add("v:phase_covariance:r0:" + arr, A + "turbulence.turb.phase_covariance", lambda P, a=arr: turb.phase_covariance(P[a], 0.1, 25.))
        add("v:kl.stf_vonKarman:L0:" + arr, A + "functions.karhunenLoeve.stf_vonKarman", lambda P, a=arr: kl.stf_vonKarman(P[a], 5.))

    def covmat2(P):
        c = sc.CovarianceMatrix(2, [P["mask2"], P["mask2"]], 1.0, [0.5, 0.5], [0, 90000.], [[0, 0], [-20., 8.]],
                                [5e-7, 6e-7], 2, P["h"][:2], P["r0s"][:2], [25., 10.], threads=1)
        m = numpy.array(c.make_covariance_matrix())
        r1 = numpy.array(c.make_tomographic_reconstructor(svd_conditioning=0.01))
        c.gs_positions = [[0, 0], [10., 5.]]
        m2 = numpy.array(c.make_covariance_matrix())
        r2 = numpy.array(c.make_tomographic_reconstructor(svd_conditioning=0.01))
        return [m, r1, m2, r2]

    def covmat3(P):
        # two off-axis natural guide stars above elevated layers, the matrix built three times on ONE object:
        # equal arguments (the object was not touched in between) -> equal results
        c = sc.CovarianceMatrix(2, [P["mask2"], P["mask4"][:2, :2] * 0 + 1], 1.0, [0.5, 0.5], [0, 0], [[15., -5.], [-20., 8.]],
                                [5e-7, 6e-7], 2, [3000., 9000.], P["r0s"][:2], [25., 10.], threads=1)
        ms = [numpy.array(c.make_covariance_matrix()) for _ in range(3)]
        if not (ms[0].tobytes() == ms[1].tobytes() == ms[2].tobytes()):
            raise AssertionError("make_covariance_matrix() called again on an untouched object returned a different matrix")
        return ms
    add("v:CovarianceMatrix:gs_moved", A + "turbulence.slopecovariance.CovarianceMatrix", covmat2)
    add("v:CovarianceMatrix:rebuilt_3x", A + "turbulence.slopecovariance.CovarianceMatrix", covmat3)
    add("v:create_tomographic_covariance_reconstructor:asym", A + "turbulence.slopecovariance.create_tomographic_covariance_reconstructor",
        lambda P: sc.create_tomographic_covariance_reconstructor(P["cov8_asym"], 2, 0.01))
    add("v:mirror_covariance_matrix:view", A + "turbulence.slopecovariance.mirror_covariance_matrix",
        lambda P: sc.mirror_covariance_matrix(P["cov8_f32_lower"][:6, :6]))
    add("v:create_tomographic_covariance_reconstructor:rc", A + "turbulence.slopecovariance.create_tomographic_covariance_reconstructor",
        lambda P: sc.create_tomographic_covariance_reconstructor(P["cov8"], 2, 0.3))
    add("v:calculate_structure_function:step2", A + "turbulence.slopecovariance.calculate_structure_function",
        lambda P: sc.calculate_structure_function(P["img"], 2, 2))
    add("v:centre_of_gravity:thr0.6", A + "image_processing.centroiders.centre_of_gravity", lambda P: cen.centre_of_gravity(P["stack"], threshold=0.6))
    add("v:brightest_pixel:0.5", A + "image_processing.centroiders.brightest_pixel", lambda P: cen.brightest_pixel(P["stack"], 0.5))
    add("v:correlation_centroid:pad3", A + "image_processing.centroiders.correlation_centroid",
        lambda P: cen.correlation_centroid(P["stack"], P["ref"], padding=3))
    add("v:encircled_energy:0.8", A + "image_processing.psf.encircled_energy", lambda P: psf.encircled_energy(P["img"], fraction=0.8))
    add("v:encircled_energy:centre", A + "image_processing.psf.encircled_energy", lambda P: psf.encircled_energy(P["img"], center=[2, 3]))
    add("v:zoom:order1", A + "interpolation.zoom", lambda P: ip.zoom(P["img_c128"], (9, 9), order=1))
    add("v:zoom:order5", A + "interpolation.zoom", lambda P: ip.zoom(P["img"], (11, 11), order=5))
    add("v:zoom_rbs:order3", A + "interpolation.zoom_rbs", lambda P: ip.zoom_rbs(P["img"], (9, 9), order=3))
    add("v:binImgs:n3", A + "interpolation.binImgs", lambda P: ip.binImgs(P["img"], 3))
    add("v:findActiveSubaps:thr0", A + "wfs.wfslib.findActiveSubaps", lambda P: wfslib.findActiveSubaps(4, P["mask8"], 0.0))
    add("v:computeFillFactor:4", A + "wfs.wfslib.computeFillFactor", lambda P: wfslib.computeFillFactor(P["mask8"], P["subap_pos"], 4))
    add("v:get_tps_time_axis:odd", A + "turbulence.temporal_ps.get_tps_time_axis", lambda P: tp.get_tps_time_axis(100., 9))
    add("v:find_allowed_size:10", A + "turbulence.infinitephasescreen.find_allowed_size", lambda P: ips.find_allowed_size(10))
    return R


N_CHAINS = 16        # phase 2 runs in this many forked children; child i handles the recipes a with index = i mod 16

SUB_ALPHABET = ["ft:vec", "ift2:img", "rft:vec", "circle", "zernikeArray:count", "phaseFromZernikes", "kl.gkl_basis",
                "kl.make_kl", "centre_of_gravity:thr:stack", "brightest_pixel:img", "correlation_centroid:img",
                "rms_contrast:img", "encircled_energy:img", "zoom_rbs:img", "binImgs:stack", "angularSpectrum",
                "twoStepFresnel", "ft_phase_screen", "ft_sh_phase_screen", "PhaseScreenVonKarman", "optimal_grouping",
                "CovarianceMatrix", "phase_covariance:sep_f32", "calculate_structure_function:img", "make_subaps_2d"]


def BOUNDS(tier):
    return {"phase1": "every recipe, pristine fork, called twice", "phase2": "a then every b, for every a",
            "phase3": "thorough: all ordered pairs of %d recipes then every c of the sub-alphabet" % len(SUB_ALPHABET),
            "batch_depth": 3, "excluded": EXCLUDED}


# ----------------------------------------------------------------------------- isolation

def isolated(fn, *args):
    """run fn(*args) in a forked child; returns its (picklable) result or raises RuntimeError"""
    r, w = os.pipe()
    pid = os.fork()
    if pid == 0:
        code = 0
        try:
            os.close(r)
            try:
                dn = os.open(os.devnull, os.O_WRONLY)
                os.dup2(dn, 1)          # the library prints progress hints
            except OSError:
                pass
            try:
                payload = ("ok", fn(*args))
            except BaseException:
                payload = ("err", traceback.format_exc()[-1500:])
            with os.fdopen(w, "wb") as f:
                pickle.dump(payload, f)
        except BaseException:
            code = 3
        finally:
            try:        # pools created by the library are never closed: do not leave their workers behind
                import multiprocessing
                for c in multiprocessing.active_children():
                    c.terminate()
            except BaseException:
                pass
            os._exit(code)
    os.close(w)
    with os.fdopen(r, "rb") as f:
        data = f.read()
    os.waitpid(pid, 0)
    if not data:
        raise RuntimeError("isolated child died without a result")
    kind, val = pickle.loads(data)
    if kind == "err":
        raise RuntimeError("isolated child raised:\n" + val)
    return val


def _result_digest(r):
    try:
        return ss.obj_digest(r)
    except Exception as e:     # pragma: no cover
        return "undigestable:%r" % (e,)


def _arrays_in(o, depth=0, out=None):
    out = [] if out is None else out
    if depth > 5:
        return out
    if isinstance(o, numpy.ndarray):
        out.append(o)
    elif isinstance(o, (list, tuple)):
        for x in o:
            _arrays_in(x, depth + 1, out)
    elif isinstance(o, dict):
        for x in o.values():
            _arrays_in(x, depth + 1, out)
    elif hasattr(o, "__dict__") and not isinstance(o, type):
        _arrays_in(vars(o), depth + 1, out)
    return out


def _pool_arrays(P):
    return _arrays_in(P)


def _scribble(result, P):
    """Overwrite every array of a returned value that does not alias an argument: if the library kept a
    reference to it (a cache handing out shared arrays), a later call will return the garbage.
    Returns the number of result arrays that alias pool arrays (informational)."""
    pool = _pool_arrays(P)
    aliased = 0
    for a in _arrays_in(result):
        if any(numpy.may_share_memory(a, b) for b in pool):
            aliased += 1
            continue
        if a.flags.writeable and a.size:
            try:
                a[...] = 77 if a.dtype.kind in "iub" else numpy.nan
            except Exception:
                pass
    return aliased


def _call(fn, P, scribble=True):
    """-> (digest or None, error string or None)"""
    try:
        r = fn(P)
        d = _result_digest(r)
        if scribble:
            _scribble(r, P)
        return d, None
    except Exception as e:
        return None, "%s: %s" % (type(e).__name__, str(e)[:300])


def _edit_pool(P):
    """the caller edits its own arrays in place between two calls: every writeable array of the pool is reversed
    along all its axes (values stay in the domain of every recipe: masks stay 0/1, covariances stay symmetric
    positive definite)"""
    seen = set()
    for a in _pool_arrays(P):
        if a.flags.writeable and a.size and id(a) not in seen:
            seen.add(id(a))
            a[...] = a[tuple(slice(None, None, -1) for _ in a.shape)].copy()


def _single(rid):
    """phase 1 body (runs in a pristine child): call; call again while the first result is still held; scribble over
    both results; call a third time; the caller edits its arguments in place; call a fourth time"""
    rec = {r[0]: r for r in recipes()}[rid]
    _, _, fn, flags = rec
    mods = aotools_modules()
    P = make_pool()
    pre = pool_state(P, mods)
    d1 = e1 = None
    aliased = 0
    held_ok = True
    try:
        r1 = fn(P)
        d1 = _result_digest(r1)
    except Exception as e:
        e1 = "%s: %s" % (type(e).__name__, str(e)[:300])
    post = pool_state(P, mods)
    if e1 is None:
        # a result the caller still holds is not touched by a later call (no shared scratch buffer handed out)
        try:
            rb = fn(P)
            held_ok = _result_digest(r1) == d1
            _scribble(rb, P)
        except Exception:
            pass
        aliased = _scribble(r1, P)     # after the state comparison: garbage into every non-aliasing result array
    mid = pool_state(P, mods)
    d2, e2 = _call(fn, P)
    post2 = pool_state(P, mods)
    scribble_leak = [c for c in ss.changed(post, mid) if c.startswith("pool:")]
    ign = {"numpy.global_rng"} if flags.get("uses_global_rng") else set()
    # the caller edits its arrays in place; the next result must be the one a pristine process gives for the
    # edited values (_edited_reference), i.e. nothing was remembered under the identity of the argument objects
    P = make_pool() if any(c.startswith("pool:") for c in ss.changed(pre, post2)) else P
    if P is not None:
        _call(fn, P)
        _edit_pool(P)
        d4, e4 = _call(fn, P, scribble=False)
    return {"d1": d1, "e1": e1, "d2": d2, "e2": e2, "aliased": aliased, "scribble_leak": scribble_leak,
            "held_ok": held_ok, "d4": d4, "e4": e4,
            "changed": [c for c in ss.changed(pre, post) if c not in ign],
            "changed2": [c for c in ss.changed(mid, post2) if c not in ign]}


def _edited_reference(rids):
    """what each recipe gives on a freshly made, then edited pool (one process for a group of recipes; each recipe
    gets its own new pool objects)"""
    recs = {r[0]: r for r in recipes()}
    out = {}
    for rid in rids:
        P = make_pool()
        _edit_pool(P)
        out[rid] = _call(recs[rid][2], P, scribble=False)
    return out


def _preempt_chunk(rids, max_points):
    """for every recipe of the chunk: the same recipe on another (edited) pool is run to completion at the library
    lines of the call (all of them up to max_points, else an even sub-lattice of max_points of them); both results must be
    the solo results.  -> list of (rid, points explored, points in all, bad description or None)"""
    from mc import reentry
    recs = {r[0]: r for r in recipes()}
    out = []
    for rid in rids:
        fn = recs[rid][2]

        def A():
            return _call(fn, make_pool(), scribble=False)

        def B():
            P = make_pool()
            _edit_pool(P)
            return _call(fn, P, scribble=False)
        solo_a, solo_b = A(), B()
        if A() != solo_a or B() != solo_b:
            out.append((rid, 0, 0, "not repeatable without interleaving (judged by the other clauses)"))
            continue
        n, _ = reentry.count_points(A)
        stride = max(1, -(-n // max_points))
        bad, k_done = [], 0
        for k, where, ra, rb in reentry.explore(A, B, stride=stride):
            k_done += 1
            if ra != solo_a:
                bad.append("A@%s" % where)
            if rb != solo_b:
                bad.append("B@%s" % where)
        out.append((rid, k_done, n, ", ".join(sorted(set(bad))[:6]) if bad else None))
    return out


def _chains(a_ids, alphabet_ids, pristine):
    """for every a of a_ids (in order, in this one process): a, then every recipe b of the alphabet"""
    out = []
    for a in a_ids:
        for rid, d, e in _chain([a], alphabet_ids, pristine):
            out.append((a, rid, d, e))
    return out


def _chain(prefix_ids, alphabet_ids, pristine):
    """run the prefix, then every recipe of the alphabet, comparing with pristine digests"""
    recs = {r[0]: r for r in recipes()}
    mods = aotools_modules()
    P = make_pool()
    clean = pool_state(P, mods)
    for rid in prefix_ids:
        _call(recs[rid][2], P)
    out = []
    for rid in alphabet_ids:
        st = pool_state(P, mods)
        if any(c.startswith("pool:") for c in ss.changed(clean, st)):
            P = make_pool()        # argument mutation is phase 1's business: start b from clean arguments
        d, e = _call(recs[rid][2], P)
        want = pristine.get(rid)
        if want is None:
            continue
        if d != want["d1"] or (e is not None) != (want["e1"] is not None):
            out.append((rid, d, e))
    return out


_PRISTINE = None


def setup(tier):
    """pristine results of every recipe, each computed in its own forked child of this (pristine) parent"""
    global _PRISTINE
    from mc import repo
    repo.load()
    ids = [r[0] for r in recipes()]
    assert len(set(ids)) == len(ids), "duplicate recipe ids"
    from mc.isolate import isolated_map
    _PRISTINE = dict(zip(ids, isolated_map(_single, [(rid,) for rid in ids], jobs=16)))
    # (one pristine child per recipe: a recipe that leaves process-wide state behind must not reach the next one)
    for part in isolated_map(_edited_reference, [([rid],) for rid in ids], jobs=16):
        for rid, (d, e) in part.items():
            _PRISTINE[rid]["d4_ref"], _PRISTINE[rid]["e4_ref"] = d, e


def cases(tier):
    recs = recipes()
    yield Case("catalogue", {"kind": "catalogue"}, False)
    for rid, target, fn, flags in recs:
        yield Case("single:" + rid, {"kind": "single", "rid": rid}, True)
    for i in range(N_CHAINS):
        yield Case("chain:%d" % i, {"kind": "chain", "i": i}, True)
    for i in range(N_CHAINS):
        yield Case("preempt:%d" % i, {"kind": "preempt", "i": i, "max_points": 60 if tier == "quick" else 400}, True)
    if tier == "thorough":
        for a in SUB_ALPHABET:
            for b in SUB_ALPHABET:
                yield Case("after2:%s,%s" % (a, b), {"kind": "after2", "a": a, "b": b}, True)
    for name in sorted(BATCH):
        yield Case("batch:" + name, {"kind": "batch", "name": name}, True)
    for name in sorted(BATCH4):
        yield Case("batch:4d:" + name, {"kind": "batch", "name": "4d:" + name}, True)


def evaluate(p):
    o = Out()
    kind = p["kind"]
    if kind == "catalogue":
        targets = set(r[1] for r in recipes())
        pub = public_callables()
        missing = [c for c in pub if c not in targets and c not in EXCLUDED]
        # a public callable without a recipe is a coverage gap, not a property violation: recorded loudly
        o.note("public_callables", len(pub))
        o.note("public_callables_without_recipe", missing)
        o.note("excluded", EXCLUDED)
        o.check("catalogue_targets_exist", all(t in pub for t in targets), detail=sorted(t for t in targets if t not in pub))
        o.stat("uncatalogued_public_callables", len(missing))
        o.stat("states", 1)
        o.stat("transitions", 1)
        return o
    if kind == "single":
        rid = p["rid"]
        r = _PRISTINE[rid]
        o.stat("transitions", 2)
        o.stat("lib_calls", 2)
        ro = rid.endswith("_ro") or ":ro" in rid
        if r["e1"] is not None:
            wr = "read-only" in r["e1"] or "not writeable" in r["e1"] or "WRITEABLE" in r["e1"]
            if wr:
                o.check("arguments_unchanged", False, sub=rid, detail="call tried to write into a read-only argument: " + r["e1"])
            else:
                o.check("recipe_runs", False, sub=rid, detail=r["e1"])
            return o
        args_changed = [c for c in r["changed"] if c.startswith("pool:")]
        o.check("arguments_unchanged", not args_changed, sub=rid, detail=args_changed)
        o.check("global_rng_untouched", "numpy.global_rng" not in r["changed"], sub=rid)
        o.check("process_settings_untouched", "process_settings" not in r["changed"], sub=rid,
                detail="numpy error state / print options / warning filters / recursion limit / cwd changed by the call")
        if "module_globals" in r["changed"]:
            # a module-level cache is hidden state but only a violation if it changes results: it makes the
            # state space larger than one state, which the history phases then explore
            o.stat("module_globals_changed_by_call", 1)
            o.note("module_globals_changed_by:" + rid, True)
        if r["aliased"]:
            o.stat("results_aliasing_arguments", 1)
            o.note("result_aliases_argument:" + rid, r["aliased"])
        o.check("harness_scribble_stays_out_of_pool", not r["scribble_leak"], sub=rid, detail=r["scribble_leak"])
        # the repeated call: equal arguments -> equal result (judged on its own only if the
        # arguments really were equal, i.e. the first call did not modify them)
        o.check("held_result_not_overwritten_by_next_call", r["held_ok"], sub=rid)
        if "d4_ref" in r:
            same = (r["d4"] == r["d4_ref"]) and ((r["e4"] is None) == (r["e4_ref"] is None))
            o.check("result_follows_callers_in_place_edit", same, sub=rid,
                    detail=None if same else {"after_edit": r["e4"] or r["d4"], "pristine_on_edited_values": r["e4_ref"] or r["d4_ref"]})
        if not args_changed:
            o.check("repeated_call_equal_result", r["d1"] == r["d2"] and r["e2"] is None, sub=rid, detail=r["e2"])
            o.check("second_call_is_self_loop", not r["changed2"], sub=rid, detail=r["changed2"])
        o.stat("states", 1 if r["changed"] else 0)     # a changed state is a new state; self-loops add none
        o.stat("self_loops", (0 if r["changed"] else 1) + (0 if r["changed2"] else 1))
        o.outcome(r["d1"])
        return o
    if kind == "chain":
        ids = [r[0] for r in recipes()]
        mine = [rid for k, rid in enumerate(ids) if k % N_CHAINS == p["i"]]
        bad = isolated(_chains, mine, ids, _PRISTINE)
        o.stat("transitions", len(mine) * (1 + len(ids)))
        o.stat("lib_calls", len(mine) * (1 + len(ids)))
        o.stat("traces_validated_against_impl", len(mine) * len(ids))
        o.check("result_independent_of_history", True, n=len(mine) * len(ids) - len(bad))
        for a, rid, d, e in bad:
            o.check("result_independent_of_history", False, sub="after=%s:then=%s" % (a, rid),
                    detail={"error": e, "earlier_in_this_process": mine[:mine.index(a)]})
        return o
    if kind == "preempt":
        ids = [r[0] for r in recipes()]
        mine = [rid for k, rid in enumerate(ids) if k % N_CHAINS == p["i"]]
        res = isolated(_preempt_chunk, mine, p["max_points"])
        tot = 0
        for rid, done, n, bad in res:
            tot += done
            if done == 0 and bad:
                o.stat("preempt_recipes_not_repeatable_skipped", 1)
                continue
            o.check("result_independent_of_a_call_interleaved_at_any_line", bad is None, sub=rid, n=max(done, 1),
                    detail=None if bad is None else "%s (explored %d of %d preemption points)" % (bad, done, n))
            if done < n:
                o.stat("preempt_recipes_on_a_sub_lattice_of_points", 1)
        o.stat("schedules_explored", tot)
        o.stat("transitions", tot)
        o.stat("lib_calls", 2 * tot)
        return o
    if kind in ("after", "after2"):
        ids = [r[0] for r in recipes()]
        if kind == "after":
            prefix, alpha = [p["rid"]], ids
        else:
            prefix, alpha = [p["a"], p["b"]], SUB_ALPHABET
        bad = isolated(_chain, prefix, alpha, _PRISTINE)
        o.stat("transitions", len(prefix) + len(alpha))
        o.stat("lib_calls", len(prefix) + len(alpha))
        o.stat("traces_validated_against_impl", len(alpha))
        o.check("result_independent_of_history", True, n=len(alpha) - len(bad))
        for rid, d, e in bad:
            o.check("result_independent_of_history", False, sub="then=" + rid, detail=e)
        return o
    return _batch(o, p["name"])


# ----------------------------------------------------------------------------- batch clause

def _frames():
    i, j = numpy.indices((4, 4))
    f0 = ((2 * i + 3 * j) % 7 + 1.0)
    return [f0, numpy.roll(f0, 1, 0) * 2.0, f0.T + numpy.eye(4) * 5, numpy.flipud(f0) + 0.5]


def _b_cog(thr):
    def f(stack):
        from aotools.image_processing import centroiders as cen
        full = cen.centre_of_gravity(stack.copy(), threshold=thr)
        return [full[:, k] for k in range(stack.shape[0])], \
            [cen.centre_of_gravity(stack[k].copy(), threshold=thr) for k in range(stack.shape[0])]
    return f


def _b_bp(stack):
    from aotools.image_processing import centroiders as cen
    full = cen.brightest_pixel(stack.copy(), 0.4)
    return [full[:, k] for k in range(stack.shape[0])], [cen.brightest_pixel(stack[k].copy(), 0.4) for k in range(stack.shape[0])]


def _b_quad(stack):
    from aotools.image_processing import centroiders as cen
    s2 = stack[:, :2, :2]
    full = numpy.asarray(cen.quadCell(s2.copy()))
    return [full[..., k] for k in range(s2.shape[0])], [numpy.asarray(cen.quadCell(s2[k].copy())) for k in range(s2.shape[0])]


def _b_corr(pad):
    def f(stack):
        from aotools.image_processing import centroiders as cen
        ref = _frames()[0]
        full = cen.correlation_centroid(stack.copy(), ref.copy(), padding=pad)
        return [full[:, k] for k in range(stack.shape[0])], \
            [cen.correlation_centroid(stack[k].copy(), ref.copy(), padding=pad)[:, 0] for k in range(stack.shape[0])]
    return f


def _b_bin(stack):
    from aotools import interpolation as ip
    full = ip.binImgs(stack.copy(), 2)
    return [full[k] for k in range(stack.shape[0])], [ip.binImgs(stack[k].copy(), 2) for k in range(stack.shape[0])]


def _b_tps(stack):
    from aotools.turbulence import temporal_ps as tp
    m, e = tp.calc_slope_temporalps(stack.copy())
    singles = [tp.calc_slope_temporalps(stack[k].copy()) for k in range(stack.shape[0])]
    return [numpy.concatenate([m[k], e[k]]) for k in range(stack.shape[0])], [numpy.concatenate([a, b]) for a, b in singles]


def _b_profiles(which):
    def f(stack):
        from aotools.turbulence import atmos_conversions as ac
        fn = getattr(ac, which)
        cn2 = stack[:, 0, :] * 1e-15
        aux = stack[:, 1, :] * 100. + 50.
        full = fn(cn2.copy(), aux.copy(), 5e-7, axis=-1)
        # the same profiles with the layers along the FIRST axis (layers x profiles), axis=0 positional and by keyword
        full0 = fn(numpy.ascontiguousarray(cn2.T), numpy.ascontiguousarray(aux.T), 5e-7, 0)
        full0k = fn(numpy.ascontiguousarray(cn2.T), numpy.ascontiguousarray(aux.T), 5e-7, axis=0)
        singles = [fn(cn2[k].copy(), aux[k].copy(), 5e-7) for k in range(stack.shape[0])]
        if numpy.shape(full0) != numpy.shape(full) or numpy.shape(full0k) != numpy.shape(full):
            raise ValueError("axis=0 result of shape %s for %d profiles" % (numpy.shape(full0), stack.shape[0]))
        return [full[k] for k in range(stack.shape[0])] + [full0[k] for k in range(stack.shape[0])] + [full0k[k] for k in range(stack.shape[0])], \
            singles * 3
    return f


def _b_subaps(stack):
    from aotools.wfs import wfslib
    mask = numpy.array([[1, 0], [1, 1]])
    data = stack[:, :2, :3]
    full = wfslib.make_subaps_2d(data.copy(), mask)
    return [full[k] for k in range(stack.shape[0])], [wfslib.make_subaps_2d(data[k:k + 1].copy(), mask)[0] for k in range(stack.shape[0])]


def _b_ft(name):
    def f(stack):
        from aotools import fouriertransform as ftm
        fn = getattr(ftm, name)
        full = fn(stack.astype(complex), 0.5)
        return [full[k] for k in range(stack.shape[0])], [fn(stack[k].astype(complex), 0.5) for k in range(stack.shape[0])]
    return f


BATCH = {
    "centre_of_gravity": _b_cog(0), "centre_of_gravity:thr=0.3": _b_cog(0.3), "centre_of_gravity:thr=0.7": _b_cog(0.7),
    "brightest_pixel": _b_bp, "quadCell": _b_quad, "correlation_centroid:pad=1": _b_corr(1),
    "correlation_centroid:pad=2": _b_corr(2), "binImgs": _b_bin, "calc_slope_temporalps": _b_tps,
    "coherenceTime": _b_profiles("coherenceTime"), "isoplanaticAngle": _b_profiles("isoplanaticAngle"),
    "rytov_variance": _b_profiles("rytov_variance"), "make_subaps_2d": _b_subaps,
    "ft": _b_ft("ft"), "ift": _b_ft("ift"), "ft2": _b_ft("ft2"), "ift2": _b_ft("ift2"),
}


def _b4(kind, par=None):
    """two leading batch axes (frames, sub-apertures, y, x) against per-item calls"""
    def f(stack4):
        from aotools.image_processing import centroiders as cen
        from aotools import interpolation as ip, fouriertransform as ftm
        a, b = stack4.shape[:2]
        if kind == "cog":
            full = numpy.asarray(cen.centre_of_gravity(stack4.copy(), threshold=par))
            one = lambda im: numpy.asarray(cen.centre_of_gravity(im.copy(), threshold=par))
            pick = lambda i, j: full[:, i, j]
        elif kind == "bp":
            full = numpy.asarray(cen.brightest_pixel(stack4.copy(), par))
            one = lambda im: numpy.asarray(cen.brightest_pixel(im.copy(), par))
            pick = lambda i, j: full[:, i, j]
        elif kind == "quad":
            s2 = stack4[..., :2, :2]
            full = numpy.asarray(cen.quadCell(s2.copy()))
            one = lambda im: numpy.asarray(cen.quadCell(im[:2, :2].copy()))
            pick = lambda i, j: full[:, i, j]
        elif kind == "bin":
            full = numpy.asarray(ip.binImgs(stack4.copy(), 2))
            one = lambda im: numpy.asarray(ip.binImgs(im.copy(), 2))
            pick = lambda i, j: full[i, j]
        else:
            fn = getattr(ftm, kind)
            cast = (lambda x: x.astype(float)) if kind.startswith("r") else (lambda x: x.astype(complex))
            full = numpy.asarray(fn(cast(stack4), 0.5))
            one = lambda im: numpy.asarray(fn(cast(im), 0.5))
            pick = lambda i, j: full[i, j]
        if full.ndim < 3 or (kind in ("cog", "quad", "bp") and full.shape != (2, a, b)):
            raise ValueError("result of shape %s for a batch of shape %s" % (full.shape, stack4.shape))
        return [pick(i, j) for i in range(a) for j in range(b)], [one(stack4[i, j]) for i in range(a) for j in range(b)]
    return f


BATCH4 = {"brightest_pixel": _b4("bp", 0.3), "centre_of_gravity": _b4("cog", 0), "centre_of_gravity:thr=0.3": _b4("cog", 0.3), "quadCell": _b4("quad"),
          "binImgs": _b4("bin"), "ft2": _b4("ft2"), "ift2": _b4("ift2"), "rft2": _b4("rft2")}


def _batch(o, name):
    fr = _frames()
    if name.startswith("4d:"):
        f = BATCH4[name[3:]]
        stacks = []
        for (a, b) in ((2, 2), (1, 3), (3, 1), (2, 4), (4, 2), (30, 25)):     # incl. sub-aperture count == image width; 750 items
            idx = [(3 * i + 5 * j + i * j) % len(fr) for i in range(a) for j in range(b)]
            stacks.append(("lead=%dx%d" % (a, b), numpy.array([fr[t] * (1 + 0.5 * k) for k, t in enumerate(idx)]
                                                              ).reshape((a, b) + fr[0].shape)))
    else:
        f = BATCH[name]
        stacks = [("frames=" + "".join(map(str, tup)), numpy.array([fr[t] for t in tup]))
                  for depth in (1, 2, 3) for tup in itertools.product(range(len(fr)), repeat=depth)]
        # long batches (every item different): block-wise implementations start somewhere above a few hundred items
        for nfr in (130, 513, 700, 1025):
            stacks.append(("frames=long%d" % nfr,
                           numpy.array([numpy.roll(fr[k % 4], k % 3, (k // 3) % 2) * (1.0 + 0.01 * k) + (k % 7) * 0.25 for k in range(nfr)])))
    return _batch_run(o, f, stacks)


def _batch_run(o, f, stacks):
    worst = 0.0
    n = 0
    for sub, stack in stacks:
        if True:
            try:
                full, singles = f(stack)
            except Exception as e:
                o.check("batch_equals_per_item", False, sub=sub, detail="%s: %s" % (type(e).__name__, e))
                continue
            n += 1
            ok = len(full) == len(singles)
            err = 0.0
            for a, b in zip(full, singles):
                a, b = numpy.asarray(a), numpy.asarray(b)
                if a.shape != b.shape:
                    ok = False
                    break
                with numpy.errstate(invalid="ignore"):
                    nan_a, nan_b = numpy.isnan(a), numpy.isnan(b)
                    if not numpy.array_equal(nan_a, nan_b):
                        ok = False
                        break
                    if a.size:
                        m = ~nan_a
                        if m.any():
                            err = max(err, float(numpy.max(numpy.abs(a[m] - b[m]) / numpy.maximum(1.0, numpy.abs(b[m])))))
            o.check("batch_equals_per_item", ok and err <= 1e-12, sub=sub, measure=err, tol=1e-12)
    o.stat("lib_calls", n * 3)
    o.stat("nontrivial", n)
    o.stat("transitions", n)
    return o
