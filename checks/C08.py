"""C08 All closed-form turbulence statistics describe one von Karman model.

E1: the complete product (separation ladder incl. 0 and r >> L0) x r0 x L0 x input forms is
pushed through the five closed forms spread over four modules
  turb.phase_covariance, slopecovariance.structure_function_vk / _kolmogorov,
  karhunenLoeve.stf_vonKarman / stf_vonKarman_yao / stf_kolmogorov
and through the power spectrum that the FFT screen generators really use (observed from
outside: the screen is linear in its Gaussian draws, so pulsing EVERY consumed draw j gives the
exact second moments sum_j t_j t_j^T of the screens; their power per DFT bin is the spectrum
sample PSD(f_q) del_f^2 - independent of how, in which order and in which packing the draws are
requested - and the pixel-pair structure function of the sub-harmonic screen minus that of the
FFT screen is the contribution of the sub-harmonic waves).  Oracles: D = 2(B(0)-B), the Hankel transform of that spectrum
(plain quadrature in mc/refmodels/vk_closed_forms.py), the textbook closed forms, the
Kolmogorov limit along an L0 ladder, D(0) = 0, monotonicity, saturation, r0^(-5/3), and
positive semi-definiteness of the Gram matrix of EVERY subset of small point lattices.
"""
import itertools
import math
import warnings

import numpy

from mc import Out, Case
from mc.env import SeqGenerator, unit_draws
from mc.refmodels import vk_closed_forms as vk

PROPERTY = "C08"
LEVEL = "exploration"
ENGINES = ["E1-product-enumeration", "E2-basis-exhaustion"]
TECHNIQUE = ("bounded exhaustive enumeration: separation ladder x r0 x L0 x input forms through all "
             "closed forms; power spectrum of the screen generators observed by basis exhaustion of the "
             "Gaussian draws (exact second moments of the screens, independent of the draw layout); Gram matrices of "
             "every subset of 3x3 / every 4-subset of 4x4 point lattices / every subset of an irregular 8-point set")
RULE = ("cases = origin:{function x input form} + forms:{r0 x L0} + kolmo:{r0} + kl:{L0} + "
        "psd:{N x configuration} + psdspot:{fft, subharmonic} + gram3/gram4/gramx:{spacing x r0 x L0}; each case loops over the complete "
        "separation ladder / all subsets; a case is non-trivial unless it only evaluates r = 0 of a "
        "Kolmogorov power law")
ASSUMPTIONS = [
    "lattice in (r, r0, L0): values between ladder points are not covered; monotonicity is only "
    "decided between ladder points; exact r0^(-5/3) scaling is verified as an exact relation",
    "separations with 0 < r/L0 < 1e-8: there the closed form 1 - c x^(5/6) K_{5/6}(x) cancels catastrophically in "
    "float64, so only the clauses that carry the absolute rounding allowance 1e-13 B(0) are evaluated there (down "
    "to r = 1e-200 L0); purely relative clauses (Hankel transform, Kolmogorov ratio) start at r/L0 = 1e-8",
    "phase_covariance computes in float32, so comparisons through it carry an absolute allowance of "
    "1e-6 B(0); the Kolmogorov limit is therefore decided on the structure-function copies and reaches "
    "the covariance route only through the clause D = 2(B(0)-B)",
    "the Kolmogorov limit is a bounded surrogate: gap non-increasing along the L0 ladder and <= 2.5e-2 at "
    "its end (convergence is only proportional to (r/L0)^(1/3): 1.485e-2 at r = 1, L0 = 1e6, plus 2e-3 for each of "
    "the two rounded constants)",
    "tolerances: 2e-3 for published-constant rounding (0.17253 vs 0.172629, 6.88 vs 6.8839, 0.0863 vs "
    "0.086314) - also between the copies of different modules, which may round differently -, 1.2e-2 for the "
    "screen spectrum constant 0.023 vs 0.022896, 1e-12 relative + 1e-13 B(0) (float64 rounding of the cancelling "
    "closed form) for identities inside one function (r0 scaling, input forms)",
    "screen spectrum: even N only (for odd N ft_phase_screen samples the spectrum at half-bin offsets and zeroes a "
    "non-zero frequency; C07 declares odd N outside its property as well); the screen is assumed linear in its "
    "normal() draws - verified on the library under test, otherwise the spectrum clauses are recorded as "
    "*_not_claimed and skipped; the DC bin is not constrained (it does not enter the structure function); the "
    "sub-harmonic screen is compared with Schmidt's three 3x3 grids of spacing 1/(3^p N delta); the FFT= "
    "accelerator argument is not exercised",
    "the spot probes at N = 1024 (FFT screen) and N = 256 (sub-harmonics) cannot pulse every draw: they assume that "
    "a bin pair +-q is fed by exactly the four draws that feed it at small N; the parts of this that are observable "
    "(number of draws, each probed response confined to +-q) are tested first, otherwise *_not_claimed",
    "stf_vonKarman_yao is a truncated small-argument series: compared only for r/L0 <= 0.1 (it leaves the model "
    "beyond, is negative for r > 0.35 L0; it has no caller in the library)",
    "KL kernel: the structure function inside gkl_kernel is recovered as the inverse DFT over the azimuth; the "
    "azimuthal sampling is validated on the library under test with the Kolmogorov tag (pure power law of the chord), "
    "the normalisation cancels in the ratio von Karman / Kolmogorov; otherwise kl_kernel_not_claimed",
    "trusted: scipy.special (kv, gamma, j0) inside the reference model, numpy.linalg.eigvalsh",
]

TOL_EXACT = 1e-12
TOL_CONST = 2e-3
TOL_HANKEL = 1.2e-2
TOL_F32 = 1e-6        # absolute allowance, in units of B(0), for float32 arithmetic
TOL_ROUND = 1e-13     # absolute allowance, in units of B(0), for float64 rounding of 1 - c x^(5/6) K(x)
TOL_GRAM = -1e-5
RANGE_MIN = 1e-8      # smallest r/L0 on which the closed forms are compared

R_QUICK = [1e-6, 1e-3, 0.01, 0.03, 0.1, 0.3, 1.0, 3.0, 10.0, 30.0, 100.0, 1e3, 1e4]
R0_QUICK = [0.05, 0.1, 0.2, 1.0]
L0_QUICK = [1.0, 5.0, 25.0, 100.0, 1e4, 1e6]
R0_THOROUGH = [0.02, 0.05, 0.1, 0.15, 0.2, 0.5, 1.0, 2.0]
L0_THOROUGH = [0.5, 1.0, 2.0, 5.0, 10.0, 25.0, 50.0, 100.0, 1e3, 1e4, 1e5, 1e6]
SAT_FACTORS = [10.0, 100.0, 1e4]
KOLMO_R = [0.01, 0.03, 0.1, 0.3, 1.0]
SCALE_C = [2.0, 0.5, 3.7]
GRAM_SPACINGS = [0.05, 0.5, 5.0]
GRAM_L0 = [1.0, 25.0, 1e4]
# irregular point set (units of the spacing): a collinear triple, three nearly coincident points, far points
GRAMX_PTS = [(0.0, 0.0), (1.0, 0.0), (2.5, 0.0), (0.3, 1.7), (0.301, 1.7), (0.3, 1.702), (7.1, -3.3), (-40.0, 55.0)]
PSD_CFG = [(0.5, 0.1, 25.0, 0.01), (0.1, 0.2, 5.0, 1e-3), (1.0, 1.0, 100.0, 0.5), (0.25, 0.05, 1e4, 1e-6)]
# outer scale SMALLER than the screen (the usual case for 8-40 m screens): (delta, r0, L0 / (N delta), l0)
PSD_CFG_REL = [(0.5, 0.15, 1.0 / 3.0, 0.01), (1.0, 0.2, 1.0 / 20.0, 0.02)]
# separations below RANGE_MIN, in units of L0 (only clauses with the absolute rounding allowance see them).
# Measured on the unchanged library: |D - model| <= 3e-15 B(0) down to 1e-100 L0, 1.0e-14 at 1e-200 L0,
# 1.5e-14 at 1e-280 L0 (K_{5/6} loses digits for huge values) -> 1e-13 B(0) keeps a factor 10 at 1e-200.
TINY_FACTORS = [1e-200, 1e-100, 1e-30, 1e-15, 1e-12, 1e-10, 1e-9]
SPOT_N_FFT, SPOT_N_SH = 1024, 256
FORMS = ["pyfloat", "pyint", "np_float64", "array0d", "array1d", "array2d", "float32_array"]
ORIGIN_FUNCS = ["structure_function_vk", "stf_vonKarman", "structure_function_kolmogorov",
                "stf_kolmogorov", "stf_vonKarman_yao", "phase_covariance"]


def _R(tier):
    if tier == "quick":
        return list(R_QUICK)
    dense = [10.0 ** (k / 4.0) for k in range(-24, 17)]
    return sorted(set(R_QUICK) | set(float("%.6g" % v) for v in dense))


def _r0s(tier):
    return R0_QUICK if tier == "quick" else R0_THOROUGH


def _L0s(tier):
    return L0_QUICK if tier == "quick" else L0_THOROUGH


def _psdN(tier):
    return [2, 4, 8, 16] if tier == "quick" else [2, 4, 6, 8, 12, 16, 32]


def _psd_cfgs(N):
    """index -> (delta, r0, L0, l0); 0-3: outer scale beyond the screen, 4-5: L0 = N delta / 3, N delta / 20"""
    return list(PSD_CFG) + [(d, r0, rel * N * d, l0) for (d, r0, rel, l0) in PSD_CFG_REL]


def BOUNDS(tier):
    return {"separations": [0.0] + _R(tier), "r0": _r0s(tier), "L0": _L0s(tier),
            "saturation_points_in_L0": SAT_FACTORS, "input_forms": FORMS,
            "kolmogorov_r": KOLMO_R, "r0_scale_factors": SCALE_C,
            "gram": {"lattices": ["all subsets (size>=2) of 3x3: 502", "all 4-subsets of 4x4: 1820"],
                     "spacings": GRAM_SPACINGS, "L0": GRAM_L0,
                     "r0": [0.1] if tier == "quick" else [0.1, 1.0]},
            "gram_irregular_points_in_units_of_spacing": GRAMX_PTS,
            "screen_psd": {"N": _psdN(tier), "(delta,r0,L0,l0)": PSD_CFG,
                           "(delta,r0,L0/(N delta),l0)": PSD_CFG_REL,
                           "spot_N_fft_screen": SPOT_N_FFT, "spot_N_subharmonics": SPOT_N_SH,
                           "largest_N_all_draws": _psdN(tier)[-1], "largest_N_spot": SPOT_N_FFT},
            "range_min_r_over_L0": RANGE_MIN, "separations_below_range_in_L0": TINY_FACTORS}


def cases(tier):
    for fn in ORIGIN_FUNCS:
        for form in FORMS:
            yield Case("origin:%s:%s" % (fn, form),
                       {"kind": "origin", "fn": fn, "form": form, "tier": tier},
                       fn not in ("structure_function_kolmogorov", "stf_kolmogorov"))
    for fn in ORIGIN_FUNCS:
        yield Case("repeat:%s" % fn, {"kind": "repeat", "fn": fn})
        yield Case("elementwise:%s" % fn, {"kind": "elementwise", "fn": fn})
    yield Case("scalecov", {"kind": "scalecov"})
    for r0 in _r0s(tier):
        for L0 in _L0s(tier):
            yield Case("forms:r0=%g:L0=%g" % (r0, L0), {"kind": "forms", "r0": r0, "L0": L0, "tier": tier})
    for r0 in _r0s(tier):
        yield Case("kolmo:r0=%g" % r0, {"kind": "kolmo", "r0": r0, "tier": tier})
    for L0 in _L0s(tier):
        yield Case("kl:L0=%g" % L0, {"kind": "kl", "L0": L0, "tier": tier})
    for N in _psdN(tier):
        for i, cfg in enumerate(_psd_cfgs(N)):
            yield Case("psd:N=%d:cfg=%d" % (N, i), {"kind": "psd", "N": N, "cfg": cfg})
    yield Case("psdspot:fft:N=%d" % SPOT_N_FFT, {"kind": "psdspot", "what": "fft", "N": SPOT_N_FFT})
    yield Case("psdspot:subharmonic:N=%d" % SPOT_N_SH, {"kind": "psdspot", "what": "sh", "N": SPOT_N_SH})
    for sp in GRAM_SPACINGS:
        for r0 in ([0.1] if tier == "quick" else [0.1, 1.0]):
            for L0 in GRAM_L0:
                yield Case("gram3:sp=%g:r0=%g:L0=%g" % (sp, r0, L0),
                           {"kind": "gram", "n": 3, "sp": sp, "r0": r0, "L0": L0})
                yield Case("gram4:sp=%g:r0=%g:L0=%g" % (sp, r0, L0),
                           {"kind": "gram", "n": 4, "sp": sp, "r0": r0, "L0": L0})
                yield Case("gramx:sp=%g:r0=%g:L0=%g" % (sp, r0, L0),
                           {"kind": "gram", "n": 0, "sp": sp, "r0": r0, "L0": L0})


# ----------------------------------------------------------------------------- helpers

def _funcs():
    from aotools.turbulence import turb, slopecovariance
    from aotools.functions import karhunenLoeve
    return turb, slopecovariance, karhunenLoeve


def _make(form, values):
    """the list of separations in the given input form -> (list of call arguments, regroup)"""
    v = [float(x) for x in values]
    if form == "pyfloat":
        return [float(x) for x in v], "each"
    if form == "pyint":
        return [int(x) for x in v if float(x).is_integer()], "each"
    if form == "np_float64":
        return [numpy.float64(x) for x in v], "each"
    if form == "array0d":
        return [numpy.array(x) for x in v], "each"
    if form == "array1d":
        return [numpy.array(v)], "whole"
    if form == "array2d":
        return [numpy.array([v, v[::-1]])], "whole2"
    if form == "float32_array":
        return [numpy.array(v, dtype=numpy.float32)], "whole"
    raise ValueError(form)


def _call_forms(f, form, values):
    """values of f on `values` passed in `form`, flattened to a float64 vector aligned with the
    values that the form can represent (ints only for pyint)."""
    args, mode = _make(form, values)
    if mode == "each":
        kept = [x for x in values if form != "pyint" or float(x).is_integer()]
        return numpy.array(kept, dtype=float), numpy.array([float(numpy.asarray(f(a))) for a in args]), len(args)
    y = numpy.asarray(f(args[0]), dtype=float)
    if mode == "whole2":
        if y.shape != (2, len(values)):
            raise ValueError("2-D input gave output shape %s" % (y.shape,))
        # the same values at other positions of the array: equal up to rounding (vectorised loops need not be
        # position independent), non-finite values at the same places
        a_, b_ = y[0], y[1][::-1]
        fin = numpy.isfinite(a_)
        if not (numpy.array_equal(fin, numpy.isfinite(b_)) and numpy.array_equal(a_[~fin], b_[~fin], equal_nan=True)
                and numpy.all(numpy.abs(a_[fin] - b_[fin]) <= 1e-12 * max(1e-300, float(numpy.max(numpy.abs(a_[fin]), initial=0.0))))):
            raise ValueError("rows of a 2-D input are not evaluated element-wise")
        y = y[0]
    if y.shape != (len(values),):
        raise ValueError("array input gave output shape %s" % (y.shape,))
    return numpy.array(values, dtype=float), y, 1


class _NotClaimed(Exception):
    """an assumption of the measuring instrument does not hold on the library under test"""


def _screen(gen, seed):
    """one screen from the library; the draw-injection double refusing a request (a distribution other than
    normal()) is a limit of the instrument, not a defect of the library"""
    try:
        return numpy.asarray(gen(seed), dtype=float)
    except RuntimeError as e:
        if "unexpected random source" in str(e):
            raise _NotClaimed("the generator draws from a distribution other than normal()")
        raise


def _second_moments(gen, N, refs, o=None):
    """Exact second moments of the random screens gen(seed), whatever the number, shape, order and real/imaginary
    packing of the normal() requests: every consumed Gaussian draw j is pulsed (screen t_j for the unit draw vector
    e_j) and, the screen being linear in its draws,
        E |DFT(screen)(q)|^2         = sum_j |DFT(t_j)(q)|^2           -> W  (N, N), numpy.fft bin order
        E (screen(x) - screen(x0))^2 = sum_j (t_j(x) - t_j(x0))^2      -> D  (len(refs), N, N)
    Linearity itself is tested with one dyadic draw vector; if it does not hold: _NotClaimed."""
    g0 = SeqGenerator(())
    z0 = _screen(gen, g0)
    n = g0.consumed
    if z0.shape != (N, N):
        raise ValueError("screen of shape %s for N = %d" % (z0.shape, N))
    if n == 0:
        raise _NotClaimed("no normal() draw consumed")
    W = numpy.zeros((N, N))
    D = numpy.zeros((len(refs), N, N))
    v = ((numpy.arange(n) * 7) % 5 - 2.0) / 4.0
    acc = numpy.zeros((N, N))
    for j in range(n):
        g = unit_draws(n, j)
        t = _screen(gen, g) - z0
        if g.consumed != n:
            raise _NotClaimed("the number of draws depends on their values")
        W += numpy.abs(numpy.fft.fft2(t)) ** 2
        for k, (ri, ci) in enumerate(refs):
            D[k] += (t - t[ri, ci]) ** 2
        acc += v[j] * t
    zl = _screen(gen, SeqGenerator(v)) - z0
    if o is not None:
        o.stat("lib_calls", n + 2)
    lin = float(numpy.max(numpy.abs(zl - acc))) / max(float(numpy.max(numpy.abs(zl))), 1e-300)
    if not lin <= 1e-9:
        raise _NotClaimed("the screen is not linear in its draws (%.3g)" % lin)
    return {"n": n, "calls": list(g0.calls), "zmax": float(numpy.max(numpy.abs(z0))), "W": W, "D": D}


def _bin_freq(N, delta):
    """|f| of the DFT bins of an N x N screen with pixel size delta (numpy.fft order)"""
    fx = numpy.fft.fftfreq(N, d=delta)
    FX, FY = numpy.meshgrid(fx, fx)
    return numpy.hypot(FX, FY)


def _extract_psd(N, delta, r0, L0, l0, o=None, refs=()):
    """spectrum samples really used by ft_phase_screen: power of the screens per DFT bin / del_f^2 (the screen is
    sum_q sqrt(PSD(f_q)) del_f (a_q + i b_q) exp(2 pi i f_q x), real part: E|DFT(q)|^2 = N^4 del_f^2 PSD(|f_q|) for
    even N, self-conjugate bins included).  Returns (P, |f|, moments)."""
    from aotools.turbulence import phasescreen
    m = _second_moments(lambda s: phasescreen.ft_phase_screen(r0, N, delta, L0, l0, seed=s), N, refs, o)
    del_f = 1.0 / (N * delta)
    return m["W"] / (N ** 4 * del_f ** 2), _bin_freq(N, delta), m


def _psd_constant(P, f, r0, L0, l0):
    """constant c and relative spread of P / [r0^(-5/3) exp(-(f/fm)^2) (f^2+1/L0^2)^(-11/6)] over the bins f > 0"""
    shape = vk.screen_psd(f, r0, L0, l0, 1.0)
    live = f > 0
    c = P[live] / shape[live]
    cm = float(numpy.mean(c))
    return cm, float((c.max() - c.min()) / cm), c


def _screen_constant(r0, L0, o):
    """the constant c of the spectrum c r0^(-5/3) (f^2+f0^2)^(-11/6) really used for screens at
    this (r0, L0): N = 4 grid spanning the outer scale, inner scale pushed out of the grid"""
    N, delta, l0 = 4, L0 / 4.0, L0 * 1e-10
    P, f, m = _extract_psd(N, delta, r0, L0, l0, o)
    cm, spread, c = _psd_constant(P, f, r0, L0, l0)
    return cm, spread


def _subharmonic_D(N, delta, r0, L0, l0, c, refs):
    """E (s(x) - s(x0))^2 of the sub-harmonic part of a Schmidt screen: three 3 x 3 frequency grids of spacing
    1 / (3^p N delta), each wave with power PSD(f) del_f^2 (constant c): sum 2 PSD del_f^2 (1 - cos(2 pi f.(x-x0))).
    Independent of the phase origin, of the quadrature of the waves and of the removal of the mean."""
    out = numpy.zeros((len(refs), N, N))
    rows, cols = numpy.indices((N, N))
    for k, (ri, ci) in enumerate(refs):
        dy, dx = (rows - ri) * delta, (cols - ci) * delta
        for lvl in range(1, 4):
            df = 1.0 / (3 ** lvl * N * delta)
            for a in (-1, 0, 1):
                for b in (-1, 0, 1):
                    if a == 0 and b == 0:
                        continue
                    pw = float(vk.screen_psd(math.hypot(a, b) * df, r0, L0, l0, c)) * df * df
                    out[k] += 2.0 * pw * (1.0 - numpy.cos(2.0 * numpy.pi * df * (a * dx + b * dy)))
    return out


def _refs(N):
    """reference pixels of the pixel-pair structure function: all pixels up to N = 8, else five spread pixels"""
    if N <= 8:
        return [(i, j) for i in range(N) for j in range(N)]
    return [(0, 0), (N // 2, N // 2), (N - 1, 1), (3, N - 2), (N // 3, 2 * N // 3)]


# ----------------------------------------------------------------------------- evaluate

def _repeat(p):
    """Every formula is evaluated repeatedly on ONE array object (an L0 / r0 sweep over the same distance
    matrix): each evaluation must give what a fresh copy of the array gives - in particular D(0) = 0 on every
    call - and the array must still hold the separations afterwards.  (Added after a seeded change wrote the
    r = 0 placeholder into the caller's array, so that only the second call was wrong.)"""
    o = Out()
    turb, sc, kl = _funcs()
    calls = {
        "phase_covariance": lambda r, a, b: turb.phase_covariance(r, a, b),
        "structure_function_vk": lambda r, a, b: sc.structure_function_vk(r, a, b),
        "structure_function_kolmogorov": lambda r, a, b: sc.structure_function_kolmogorov(r, a),
        "stf_kolmogorov": lambda r, a, b: kl.stf_kolmogorov(r),
        "stf_vonKarman": lambda r, a, b: kl.stf_vonKarman(r, b),
        "stf_vonKarman_yao": lambda r, a, b: kl.stf_vonKarman_yao(r, b),
    }
    f = calls[p["fn"]]
    base = numpy.array([[0., 0.3, 1.], [0.3, 0., 2.5], [1., 2.5, 0.]])
    for dt in (numpy.float64, numpy.float32):
        for layout in ("C", "F", "1d"):
            arr = numpy.array(base, dtype=dt, order="F" if layout == "F" else "C")
            if layout == "1d":
                arr = numpy.array(base[0], dtype=dt)
            keep = arr.copy()
            sub = "%s:%s" % (numpy.dtype(dt).name, layout)
            sweep = [(0.1, 5.0), (0.2, 20.0), (0.1, 5.0), (1.0, 100.0)]
            for k, (a, b) in enumerate(sweep):
                got = numpy.asarray(f(arr, a, b))
                want = numpy.asarray(f(keep.copy(), a, b))
                o.stat("lib_calls", 2)
                o.check("same_array_reused_gives_same_values", got.shape == want.shape and
                        numpy.array_equal(got, want, equal_nan=True), sub="%s:call=%d" % (sub, k),
                        detail={"got": got, "fresh": want})
                o.check("separations_argument_unchanged", arr.shape == keep.shape and arr.dtype == keep.dtype and
                        numpy.array_equal(arr, keep), sub="%s:call=%d" % (sub, k), detail={"now": arr, "was": keep})
    return o


def _calls():
    turb, sc, kl = _funcs()
    return {
        "phase_covariance": lambda r, a, b: turb.phase_covariance(r, a, b),
        "structure_function_vk": lambda r, a, b: sc.structure_function_vk(r, a, b),
        "structure_function_kolmogorov": lambda r, a, b: sc.structure_function_kolmogorov(r, a),
        "stf_kolmogorov": lambda r, a, b: kl.stf_kolmogorov(r),
        "stf_vonKarman": lambda r, a, b: kl.stf_vonKarman(r, b),
        "stf_vonKarman_yao": lambda r, a, b: kl.stf_vonKarman_yao(r, b),
    }


def _elementwise(p):
    """Each formula is a function of the separation applied element by element, whatever the shape and size of
    the array: (a) every element of small arrays of every shape class (square but NOT symmetric, rectangular,
    1-d, 3-d) equals the value for that separation passed alone; (b) a long vector (70 001 lags) and a large
    matrix (300 x 300 cross-separations) equal the concatenation of their pieces.  (Added after seeded changes
    evaluated only one triangle of square arrays, and dropped the tail of arrays longer than a block size.)"""
    o = Out()
    f = _calls()[p["fn"]]
    a, b = 0.15, 12.0
    tol32 = 1e-5 if p["fn"] == "phase_covariance" else 1e-12       # phase_covariance computes in float32
    small = {
        "square_nonsymmetric": numpy.array([[0.0, 0.4, 2.0], [0.1, 0.0, 7.0], [3.0, 0.02, 0.5]]),
        "rectangular": numpy.array([[0.0, 0.4, 2.0, 9.0], [0.1, 1.0, 7.0, 30.0]]),
        "vector": numpy.array([0.0, 0.003, 0.4, 2.0, 55.0]),
        "cube": numpy.arange(27, dtype=float).reshape(3, 3, 3) * 0.37,
        "square_5x5_cross": numpy.abs(numpy.subtract.outer(numpy.arange(5) * 0.7, numpy.arange(5) * 1.9 + 0.3)),
    }
    for name, arr in small.items():
        got = numpy.asarray(f(arr.copy(), a, b), dtype=float)
        o.stat("lib_calls", 1 + arr.size)
        if got.shape != arr.shape:
            o.check("elementwise_small_arrays", False, sub=name, detail="shape %s for input %s" % (got.shape, arr.shape))
            continue
        want = numpy.array([float(numpy.asarray(f(float(x), a, b))) for x in arr.ravel()]).reshape(arr.shape)
        scale = max(1.0, float(numpy.nanmax(numpy.abs(want))))
        o.close("elementwise_small_arrays", float(numpy.nanmax(numpy.abs(got - want))) / scale, tol32, sub=name)
    # ... and whatever the memory layout of the array (Fortran order, transposed / strided views, read-only) and on
    # one caller-owned array across calls.  (Added after a seeded change walked the array in memory order.)
    from mc import variants
    for name in ("square_nonsymmetric", "rectangular", "cube", "square_5x5_cross"):
        k = variants.check_storage(o, "independent_of_memory_layout", lambda x: f(x, a, b), small[name], tol32, sub=name, kinds=())
        k += variants.check_reuse(o, "separations", lambda x: f(x, a, b), small[name], tol32, sub=name)
        o.stat("lib_calls", k)
    big = {
        "vector_70001": (numpy.arange(70001) % 9973) * 0.0031 + 0.001,
        "matrix_300x300": numpy.abs(numpy.subtract.outer(numpy.arange(300) * 0.11, numpy.arange(300) * 0.07 + 0.013)),
    }
    for name, arr in big.items():
        got = numpy.asarray(f(arr.copy(), a, b), dtype=float)
        flat = arr.ravel()
        pieces = numpy.concatenate([numpy.asarray(f(flat[i:i + 997].copy(), a, b), dtype=float).ravel()
                                    for i in range(0, flat.size, 997)])
        o.stat("lib_calls", 1 + (flat.size + 996) // 997)
        if got.shape != arr.shape:
            o.check("large_array_equals_its_pieces", False, sub=name, detail="shape %s" % (got.shape,))
            continue
        scale = max(1.0, float(numpy.nanmax(numpy.abs(pieces))))
        o.close("large_array_equals_its_pieces", float(numpy.nanmax(numpy.abs(got.ravel() - pieces))) / scale, tol32, sub=name)
    return o


def _scalecov(p):
    """The formulas are homogeneous: measuring every length (r, r0, L0) in another unit does not change a
    von Karman structure function or covariance; Kolmogorov D(s r, s r0) = D(r, r0); the KL copies (r in units
    of r0) scale as s^(5/3).  Checked for s from 1e-8 to 1e8 on separations from 1e-3 L0 to 10 L0.
    (Added after a seeded change replaced 'separation == 0' by an absolute-tolerance comparison.)"""
    o = Out()
    calls = _calls()
    r = numpy.array([0.0, 0.025, 0.3, 2.0, 25.0, 250.0])
    a, b = 0.2, 25.0
    for s_ in (1e-8, 1e-4, 1e-2, 1e2, 1e4, 1e8):
        for name in ("structure_function_vk", "structure_function_kolmogorov", "phase_covariance"):
            base = numpy.asarray(calls[name](r.copy(), a, b), dtype=float)
            got = numpy.asarray(calls[name](r * s_, a * s_, b * s_), dtype=float)
            o.stat("lib_calls", 2)
            scale = max(1.0, float(numpy.max(numpy.abs(base))))
            tol = 2e-5 if name == "phase_covariance" else 1e-9          # float32 inside phase_covariance
            o.close("unit_of_length_irrelevant", float(numpy.max(numpy.abs(got - base))) / scale, tol,
                    sub="%s:s=%g" % (name, s_))
        for name in ("stf_kolmogorov", "stf_vonKarman"):
            base = numpy.asarray(calls[name](r.copy(), a, b), dtype=float)
            got = numpy.asarray(calls[name](r * s_, a, b * s_), dtype=float)
            want = base * s_ ** (5.0 / 3.0)
            o.stat("lib_calls", 2)
            scale = max(float(numpy.max(numpy.abs(want))), 1e-300)
            o.close("unit_of_length_irrelevant", float(numpy.max(numpy.abs(got - want))) / scale, 1e-9,
                    sub="%s:s=%g" % (name, s_))
    return o


def evaluate(p):
    fn = {"origin": _origin, "forms": _forms, "kolmo": _kolmo, "kl": _kl, "psd": _psd, "psdspot": _psdspot,
          "gram": _gram, "repeat": _repeat, "elementwise": _elementwise, "scalecov": _scalecov}[p["kind"]]
    # 0 * inf, overflow of K_{5/6} at 0 and the like are outcomes to be judged, not warnings to print
    with warnings.catch_warnings(), numpy.errstate(all="ignore"):
        warnings.simplefilter("ignore")
        return fn(p)


def _origin(p):
    """value at zero separation, for every input form, every (r0, L0)"""
    o = Out()
    turb, sc, kl = _funcs()
    fn, form, tier = p["fn"], p["form"], p["tier"]
    bad, worst = [], 0.0
    # 'zero' = below the rounding of the closed form, whose terms are of size 2 B(0):
    # float64 inputs 1e-13, float32 inputs 1e-6 (times 2 B(0)); Kolmogorov power laws: exactly 0
    ztol = 1e-6 if form == "float32_array" else 1e-13
    r0s = _r0s(tier) if fn in ("structure_function_vk", "structure_function_kolmogorov", "phase_covariance") else [1.0]
    L0s = _L0s(tier) if fn in ("structure_function_vk", "stf_vonKarman", "stf_vonKarman_yao", "phase_covariance") else [1.0]
    for L0 in L0s:
        cov_bad, cov_worst = [], 0.0
        for r0 in r0s:
            f = {"structure_function_vk": lambda r: sc.structure_function_vk(r, r0, L0),
                 "stf_vonKarman": lambda r: kl.stf_vonKarman(r, L0),
                 "structure_function_kolmogorov": lambda r: sc.structure_function_kolmogorov(r, r0),
                 "stf_kolmogorov": lambda r: kl.stf_kolmogorov(r),
                 "stf_vonKarman_yao": lambda r: kl.stf_vonKarman_yao(r, L0),
                 "phase_covariance": lambda r: turb.phase_covariance(r, r0, L0)}[fn]
            vals = [0.0, 1.0] if form in ("array1d", "array2d", "float32_array") else [0.0]
            _, y, c = _call_forms(f, form, vals)
            o.stat("lib_calls", c)
            y0 = float(y[0])
            if fn == "phase_covariance":
                # B(0) is the variance 0.0863 (L0/r0)^(5/3): finite, and right to the constants' rounding
                m = abs(y0 / vk.variance(r0, L0) - 1.0) if math.isfinite(y0) else float("inf")
                cov_worst = max(cov_worst, m)
                if not m <= TOL_CONST:
                    cov_bad.append((r0, y0))
            else:
                scale = 2.0 * vk.variance(r0, L0) if fn in ("structure_function_vk", "stf_vonKarman") else 1.0
                m = abs(y0) / scale if math.isfinite(y0) else float("inf")
                worst = max(worst, m)
                if not (m <= ztol):
                    bad.append((r0, L0, y0))
        if fn == "phase_covariance":
            o.check("cov_zero_finite", not cov_bad, sub=None if not cov_bad else "L0=%g" % L0,
                    measure=cov_worst, tol=TOL_CONST, n=len(r0s),
                    detail=None if not cov_bad else "phase_covariance(0 as %s, r0, %g) for r0 in %s = %s; the variance "
                    "0.0863 (L0/r0)^(5/3) is finite" % (form, L0, [b[0] for b in cov_bad], [b[1] for b in cov_bad]))
    if fn != "phase_covariance":
        o.check("sf_zero_at_origin", not bad, measure=worst, tol=ztol,
                detail=None if not bad else "%s(0 as %s) is not 0: %d of %d (r0,L0) pairs, e.g. r0=%g L0=%g -> %r"
                % (fn, form, len(bad), len(r0s) * len(L0s), bad[0][0], bad[0][1], bad[0][2]))
    o.outcome([fn, form, len(bad)])
    return o


def _forms(p):
    o = Out()
    turb, sc, kl = _funcs()
    r0, L0, tier = p["r0"], p["L0"], p["tier"]
    Rall = numpy.array(_R(tier) + [s * L0 for s in SAT_FACTORS if s * L0 not in _R(tier)])
    Rall = numpy.array(sorted(set(Rall.tolist())))
    inrange = Rall / L0 >= RANGE_MIN
    # below the range: the ladder points with r/L0 < 1e-8 and the tiny ladder; only clauses with an absolute
    # rounding allowance see them
    Rlow = numpy.array(sorted(set(Rall[~inrange].tolist()) | set(f * L0 for f in TINY_FACTORS)))
    nl = len(Rlow)
    o.note("separations_with_r_over_L0_below_1e-8", nl)
    Rf = numpy.concatenate([Rlow, Rall[inrange]])          # ascending: every Rlow is below every in-range point
    R = Rf[nl:]
    B0ref = vk.variance(r0, L0)
    Dref_f = vk.structure_function(Rf, r0, L0)
    Dref = Dref_f[nl:]

    Df = numpy.asarray(sc.structure_function_vk(Rf.copy(), r0, L0), dtype=float)
    Bf = numpy.asarray(turb.phase_covariance(Rf.copy(), r0, L0), dtype=float)
    B0 = float(numpy.asarray(turb.phase_covariance(0.0, r0, L0)))
    o.stat("lib_calls", 3)
    if Df.shape != Rf.shape or Bf.shape != Rf.shape:
        o.check("forms_agree", False, sub="output_shape", detail="shapes %s / %s for %d separations" % (Df.shape, Bf.shape, len(Rf)))
        return o
    D, B = Df[nl:], Bf[nl:]

    def each(clause, measure, tol, fmt, RR=R):
        """one clause evaluation per ladder point; failures get the separation as sub id"""
        measure = numpy.where(numpy.isfinite(measure), measure, numpy.inf)
        bad = numpy.nonzero(~(measure <= tol))[0]
        o.check(clause, True, measure=float(measure.max()), tol=tol, n=len(measure) - len(bad))
        for i in bad:
            o.check(clause, False, sub="r=%g" % RR[i], measure=float(measure[i]), tol=tol, detail=fmt(i))

    # textbook closed form (normalisation pinned by the variance constant quoted in the statement); the absolute
    # term is the float64 rounding of 1 - c x^(5/6) K(x) (measured: up to 14 ulp of 1 at r/L0 = 1e-8, i.e. 8e-4 of
    # D there, and -4e-4..+9e-4 for algebraically equivalent orders of the operations), whole ladder incl. tiny r
    each("D_vs_textbook", numpy.abs(Df - Dref_f) / (TOL_CONST * numpy.abs(Dref_f) + TOL_ROUND * B0ref), 1.0,
         lambda i: "structure_function_vk(%g,%g,%g)=%r, textbook %r" % (Rf[i], r0, L0, Df[i], Dref_f[i]), Rf)

    # D = 2 (B(0) - B(r))
    b0_ok = math.isfinite(B0)
    if b0_ok:
        D2f = 2.0 * (B0 - Bf)
        D2 = D2f[nl:]
        each("D_eq_2dB", numpy.abs(D2f - Df) / (TOL_CONST * numpy.abs(Df) + TOL_F32 * B0ref), 1.0,
             lambda i: "2(B(0)-B(r))=%r vs structure_function_vk=%r (B0=%r)" % (D2f[i], Df[i], B0), Rf)
    else:
        o.note("skipped_B0_nonfinite", "phase_covariance(0,%g,%g) is not finite (reported by cov_zero_finite); "
               "clauses through B(0) not evaluable" % (r0, L0))
        o.stat("clauses_skipped_nonfinite_B0", 1)
    Bref_f = vk.covariance(Rf, r0, L0)
    each("cov_vs_textbook", numpy.abs(Bf - Bref_f) / (TOL_CONST * numpy.abs(Bf) + TOL_F32 * B0ref), 1.0,
         lambda i: "phase_covariance(%g,%g,%g)=%r, textbook %r" % (Rf[i], r0, L0, Bf[i], Bref_f[i]), Rf)

    # Hankel transform of the spectrum that the screen generators really use
    try:
        c_scr, spread = _screen_constant(r0, L0, o)
    except _NotClaimed as e:
        c_scr = None
        o.stat("screen_psd_not_claimed", 1)
        o.note("screen_psd_not_claimed", str(e))
    if c_scr is not None:
        o.close("screen_psd_is_von_karman", spread, 1e-10)
        o.note("screen_psd_constant", c_scr)
        H = numpy.zeros(len(R))
        tb = 0.0
        for i, r in enumerate(R):
            info = {}
            H[i] = vk.hankel_structure_function(r, 1.0, L0, c=c_scr, info=info) * r0 ** (-5.0 / 3.0)
            tb = max(tb, info["trunc_bound"] * r0 ** (-5.0 / 3.0) / H[i])
        o.close("reference_quadrature_truncation", tb, 1e-6)
        each("D_vs_hankel_of_screen_psd", numpy.abs(D / H - 1.0), TOL_HANKEL,
             lambda i: "structure_function_vk=%r, Hankel transform of the screen PSD=%r" % (D[i], H[i]))
        if b0_ok:
            each("cov_vs_hankel_of_screen_psd", numpy.abs(D2 - H) / (TOL_HANKEL * H + TOL_F32 * B0ref), 1.0,
                 lambda i: "2(B(0)-B)=%r, Hankel transform of the screen PSD=%r" % (D2[i], H[i]))

    # input forms: same numbers whatever the container
    for form in FORMS:
        try:
            rr, y, c = _call_forms(lambda r: sc.structure_function_vk(r, r0, L0), form, Rf.tolist())
        except ValueError as e:
            o.check("forms_agree", False, sub="structure_function_vk:" + form, detail=str(e))
            continue
        o.stat("lib_calls", c)
        if len(rr) == 0:
            continue
        base = Df[numpy.isin(Rf, rr)]
        if form == "float32_array":
            m = numpy.abs(y - base) / (1e-5 * numpy.abs(base) + TOL_F32 * B0ref)
        else:
            m = numpy.abs(y - base) / (TOL_EXACT * numpy.abs(base) + TOL_ROUND * B0ref)
        m = numpy.where(numpy.isfinite(m), m, numpy.inf)
        o.check("forms_agree", bool(m.max() <= 1.0), sub="structure_function_vk:" + form, measure=float(m.max()), tol=1.0,
                detail="largest deviation at r=%g" % rr[int(numpy.argmax(m))])
        try:
            rr, y, c = _call_forms(lambda r: turb.phase_covariance(r, r0, L0), form, Rf.tolist())
        except ValueError as e:
            o.check("forms_agree", False, sub="phase_covariance:" + form, detail=str(e))
            continue
        o.stat("lib_calls", c)
        base = Bf[numpy.isin(Rf, rr)]
        m = numpy.abs(y - base) / (TOL_F32 * B0ref)
        m = numpy.where(numpy.isfinite(m), m, numpy.inf)
        o.check("forms_agree", bool(m.max() <= 1.0), sub="phase_covariance:" + form, measure=float(m.max()), tol=1.0,
                detail="largest deviation at r=%g" % rr[int(numpy.argmax(m))])

    # monotone along the sorted ladder (whole ladder; rounding of the cancelling closed form allowed for)
    dD = numpy.diff(Df)
    mD = -dD / (TOL_EXACT * numpy.abs(Df[1:]) + TOL_ROUND * B0ref)
    mD = numpy.where(numpy.isfinite(mD), mD, numpy.inf)
    o.check("D_non_decreasing", bool(numpy.all(mD <= 1.0)), measure=float(max(0.0, mD.max())),
            tol=1.0, n=len(dD), detail="first decrease after r=%g" % Rf[int(numpy.argmax(mD))])
    dB = numpy.diff(Bf)
    dB = numpy.where(numpy.isfinite(dB), dB, numpy.inf)
    o.check("B_non_increasing", bool(numpy.all(dB <= TOL_F32 * B0ref)), measure=float(max(0.0, dB.max() / B0ref)),
            tol=TOL_F32, n=len(dB), detail="first increase after r=%g" % Rf[int(numpy.argmax(dB))])

    # saturation at twice the variance 0.0863 (L0/r0)^(5/3)
    sat = 2.0 * vk.PUB_VAR * (L0 / r0) ** (5.0 / 3.0)
    for s in SAT_FACTORS:
        i = int(numpy.argmin(numpy.abs(R - s * L0)))
        o.close("saturation", abs(D[i] / sat - 1.0), TOL_CONST, sub="r=%gL0" % s,
                detail="D(%g)=%r, 2*0.0863 (L0/r0)^(5/3)=%r" % (R[i], D[i], sat))
    if b0_ok:
        o.close("variance_constant", abs(B0 / (0.5 * sat) - 1.0), TOL_CONST,
                detail="B(0)=%r, 0.0863 (L0/r0)^(5/3)=%r" % (B0, 0.5 * sat))

    # exact r0^(-5/3) scaling (same function, same constants: an identity up to rounding)
    for c in SCALE_C:
        Dc = numpy.asarray(sc.structure_function_vk(Rf.copy(), r0 * c, L0), dtype=float)
        Bc = numpy.asarray(turb.phase_covariance(Rf.copy(), r0 * c, L0), dtype=float)
        o.stat("lib_calls", 2)
        o.close("r0_scaling_D", float(numpy.max(numpy.abs(Dc * c ** (5.0 / 3.0) - Df) / (TOL_EXACT * numpy.abs(Df) + TOL_ROUND * B0ref))), 1.0,
                sub="c=%g" % c)
        o.close("r0_scaling_B", float(numpy.max(numpy.abs(Bc * c ** (5.0 / 3.0) - Bf)) / B0ref), 2 * TOL_F32, sub="c=%g" % c)
    Kc = numpy.asarray(sc.structure_function_kolmogorov(R.copy(), r0), dtype=float)
    o.stat("lib_calls", 1)
    # both within the rounding of the published constant (6.88 vs 6.8839 = 5.7e-4): which rounding a module uses
    # is not part of the statement
    o.close("kolmogorov_vs_textbook", float(numpy.max(numpy.abs(Kc / vk.kolmogorov(R, r0) - 1.0))), TOL_CONST)
    o.close("kolmogorov_published_constant", float(numpy.max(numpy.abs(Kc / vk.kolmogorov(R, r0, vk.PUB_KOLMO) - 1.0))),
            TOL_CONST)
    o.outcome(numpy.round(D / Dref, 9))
    return o


def _kolmo(p):
    """Kolmogorov limit along the L0 ladder (bounded surrogate of 'as L0 grows')"""
    o = Out()
    turb, sc, kl = _funcs()
    r0, tier = p["r0"], p["tier"]
    ladder = _L0s(tier)
    r = numpy.array(KOLMO_R)
    for name in ("structure_function_vk", "stf_vonKarman"):
        if name == "stf_vonKarman":
            # the KL copy works in units of r0: separations r/r0, outer scale L0/r0
            ratio = [numpy.asarray(kl.stf_vonKarman(r / r0, L0 / r0)) / numpy.asarray(kl.stf_kolmogorov(r / r0))
                     for L0 in ladder]
        else:
            ratio = [numpy.asarray(sc.structure_function_vk(r, r0, L0)) / numpy.asarray(sc.structure_function_kolmogorov(r, r0))
                     for L0 in ladder]
        o.stat("lib_calls", 2 * len(ladder))
        ratio = numpy.array(ratio, dtype=float)            # (ladder, r)
        gap = numpy.abs(ratio - 1.0)
        inc = numpy.diff(gap, axis=0)
        o.check("kolmogorov_gap_non_increasing", bool(numpy.all(inc <= 1e-9)), sub=name, measure=float(inc.max()),
                tol=1e-9, n=inc.size, detail="gap rows (L0 ladder) x cols (r): %s" % numpy.round(gap, 5).tolist())
        # floor 1.485 (r/L0)^(1/3) = 1.485e-2 at r = 1, L0 = 1e6, plus 2e-3 for each of the two rounded constants
        o.close("kolmogorov_limit_reached", float(gap[-1].max()), 2.5e-2, sub=name,
                detail="gap at L0=%g: %s" % (ladder[-1], gap[-1].tolist()))
        worst = 0.0
        n = 0
        for k, L0 in enumerate(ladder):
            sel = (r / L0 <= 1e-3) & (r / L0 >= RANGE_MIN)
            if sel.any():
                lead = 1.0 - 1.485 * (r[sel] / L0) ** (1.0 / 3.0)
                # rounding of the cancelling closed form, 1e-13 B(0), relative to the Kolmogorov value it is divided by
                tol_i = TOL_CONST + TOL_ROUND * vk.variance(r0, L0) / vk.kolmogorov(r[sel], r0)
                worst = max(worst, float(numpy.max(numpy.abs(ratio[k][sel] - lead) / tol_i)))
                n += int(sel.sum())
        o.check("kolmogorov_leading_correction", worst <= 1.0, sub=name, measure=worst, tol=1.0, n=max(n, 1))
    o.outcome(numpy.round(gap, 6))
    return o


def _kernel_structure_functions(kl, sc, o, L0):
    """The structure function the KL kernel really uses, for every tag it accepts.  A kernel row is (a constant
    times) the DFT over the azimuth of the structure function at the chord lengths between two radii, so the inverse
    DFT recovers the values used.  The azimuthal sampling (number of angles = last axis of the kernel, chord =
    0.5 sqrt(ri^2 + rj^2 - 2 ri rj cos th)) is VALIDATED on the library under test with the Kolmogorov tag, whose
    values must be a pure 5/3 power of the chord; the normalisation is never assumed: it cancels in the ratio
    von Karman tag / Kolmogorov tag, compared with the same ratio of the slope-covariance copies."""
    ri, nr = 0.2, 6
    rad = numpy.asarray(kl.gkl_radii(ri, nr), dtype=float)
    kol = numpy.asarray(kl.gkl_kernel(ri, nr, rad.copy(), "kolmogorov", None))
    o.stat("lib_calls", 2)
    outers = sorted(set([2.0, 5.0, float(L0)]))
    vk_tags, kol_tags = ("vonKarman", "karman", "vk"), ("kolstf",)
    kers = {}
    for tag in kol_tags:
        kers[(tag, None)] = numpy.asarray(kl.gkl_kernel(ri, nr, rad.copy(), tag, None))
    for outer in outers:
        for tag in vk_tags:
            kers[(tag, outer)] = numpy.asarray(kl.gkl_kernel(ri, nr, rad.copy(), tag, outer))
    o.stat("lib_calls", len(kers))
    shp = kol.shape
    if rad.shape != (nr,) or len(shp) != 3 or shp[:2] != (nr, nr) or shp[2] < 4 or any(k.shape != shp for k in kers.values()):
        o.stat("kl_kernel_not_claimed", 1)
        o.note("kl_kernel_not_claimed", "kernel shapes %s" % ([shp] + [k.shape for k in kers.values()],))
        return
    # tags that name the same structure function give the same kernel (whatever the discretisation); tolerance of the
    # constants' rounding, so that an alias may be served by another correct copy
    scale_k = max(float(numpy.max(numpy.abs(kol))), 1e-300)
    for tag in kol_tags:
        o.close("kl_kernel_alias_tags_agree", float(numpy.max(numpy.abs(kers[(tag, None)] - kol))) / scale_k, TOL_CONST, sub="tag=%s" % tag)
    for outer in outers:
        base = kers[("vonKarman", outer)]
        sc_ = max(float(numpy.max(numpy.abs(base))), 1e-300)
        for tag in vk_tags[1:]:
            o.close("kl_kernel_alias_tags_agree", float(numpy.max(numpy.abs(kers[(tag, outer)] - base))) / sc_, TOL_CONST,
                    sub="tag=%s:outerscale=%g" % (tag, outer))
    nth = shp[2]
    th = numpy.arange(nth) * 2 * numpy.pi / nth
    ii, jj = numpy.tril_indices(nr)
    chord = 0.5 * numpy.sqrt(numpy.maximum(rad[ii, None] ** 2 + rad[jj, None] ** 2 - 2 * rad[ii, None] * rad[jj, None] * numpy.cos(th)[None, :], 0.0))
    used = lambda ker: numpy.real(numpy.fft.ifft(ker[ii, jj, :], axis=1))
    u_kol = used(kol)
    w = chord ** (5.0 / 3.0)
    alpha = float((u_kol * w).sum() / (w * w).sum())
    resid = float(numpy.max(numpy.abs(u_kol - alpha * w))) / max(abs(alpha) * float(w.max()), 1e-300)
    if not (math.isfinite(resid) and resid <= 1e-9 and alpha != 0.0):
        o.stat("kl_kernel_not_claimed", 1)
        o.note("kl_kernel_not_claimed", "the Kolmogorov kernel is not the azimuthal DFT of a 5/3 power law of the chord "
               "on %d uniform angles (residual %.3g)" % (nth, resid))
        return
    pos = chord > 1e-6                      # chord 0 (coincident points): 0/0
    kref = numpy.asarray(sc.structure_function_kolmogorov(chord[pos].copy(), 1), dtype=float)
    o.stat("lib_calls", 1)
    for tag in kol_tags:
        got = used(kers[(tag, None)])[pos] / u_kol[pos]
        o.close("kl_kernel_uses_the_common_structure_function", float(numpy.max(numpy.abs(got - 1.0))) / TOL_CONST, 1.0,
                sub="tag=%s:outerscale=%g" % (tag, L0))
    for outer in outers:
        want = numpy.asarray(sc.structure_function_vk(chord[pos].copy(), 1, outer), dtype=float) / kref
        o.stat("lib_calls", 1)
        for tag in vk_tags:
            got = used(kers[(tag, outer)])[pos] / u_kol[pos]
            m = numpy.abs(got / want - 1.0)
            m = numpy.where(numpy.isfinite(m), m, numpy.inf)
            o.close("kl_kernel_uses_the_common_structure_function", float(m.max()) / TOL_CONST, 1.0,
                    sub="tag=%s:outerscale=%g" % (tag, outer),
                    detail="structure function inside the kernel / Kolmogorov kernel vs structure_function_vk / "
                    "structure_function_kolmogorov at the chords; worst at chord %g" % chord[pos][int(numpy.argmax(m))])


def _kl(p):
    """the Karhunen-Loeve module's copies against the slope-covariance module's"""
    o = Out()
    turb, sc, kl = _funcs()
    L0, tier = p["L0"], p["tier"]
    Rall = numpy.array(_R(tier))
    R = Rall[Rall / L0 >= RANGE_MIN]
    # whole ladder incl. the separations below the range for the clauses with the absolute rounding allowance
    Rf = numpy.array(sorted(set(Rall.tolist()) | set(f * L0 for f in TINY_FACTORS)))
    B0 = vk.variance(1.0, L0)
    af = numpy.asarray(kl.stf_vonKarman(Rf.copy(), L0), dtype=float)
    bf = numpy.asarray(sc.structure_function_vk(Rf.copy(), 1, L0), dtype=float)
    a = af[numpy.isin(Rf, R)]
    o.stat("lib_calls", 2)
    # two modules, two copies of the constants: equal up to the constants' rounding (today bit-identical)
    m = numpy.abs(af - bf) / (TOL_CONST * numpy.abs(bf) + TOL_ROUND * B0)
    m = numpy.where(numpy.isfinite(m), m, numpy.inf)
    o.close("kl_vk_copy_identical", float(m.max()), 1.0,
            detail="stf_vonKarman(r,L0) vs structure_function_vk(r,1,L0), worst at r=%g" % Rf[int(numpy.argmax(m))])
    m = numpy.abs(af - vk.structure_function(Rf, 1.0, L0)) / (TOL_CONST * numpy.abs(af) + TOL_ROUND * B0)
    m = numpy.where(numpy.isfinite(m), m, numpy.inf)
    o.close("kl_vk_vs_textbook", float(m.max()), 1.0, detail="worst at r=%g" % Rf[int(numpy.argmax(m))])
    ka = numpy.asarray(kl.stf_kolmogorov(Rall.copy()), dtype=float)
    kb = numpy.asarray(sc.structure_function_kolmogorov(Rall.copy(), 1), dtype=float)
    o.stat("lib_calls", 2)
    o.close("kl_kolmogorov_copy", float(numpy.max(numpy.abs(ka / kb - 1.0))), TOL_CONST)
    o.close("kl_kolmogorov_vs_textbook", float(numpy.max(numpy.abs(ka / vk.kolmogorov(Rall, 1.0) - 1.0))), TOL_CONST)
    # truncated series: declared domain r/L0 <= 0.1 (see ASSUMPTIONS)
    sel = R / L0 <= 0.1
    o.note("stf_vonKarman_yao_compared_for_r_over_L0_up_to", 0.1)
    if sel.any():
        y = numpy.asarray(kl.stf_vonKarman_yao(R[sel].copy(), L0), dtype=float)
        o.stat("lib_calls", 1)
        ref = vk.structure_function(R[sel], 1.0, L0)
        o.close("kl_yao_series", float(numpy.max(numpy.abs(y / ref - 1.0))), 1e-2,
                detail="worst at r=%g" % R[sel][int(numpy.argmax(numpy.abs(y / ref - 1.0)))])
        o.close("kl_yao_vs_kl_vk", float(numpy.max(numpy.abs(y / a[sel] - 1.0))), 1e-2)
    _kernel_structure_functions(kl, sc, o, L0)
    # forms for the KL copy
    for form in FORMS:
        try:
            rr, y, c = _call_forms(lambda r: kl.stf_vonKarman(r, L0), form, Rf.tolist())
        except ValueError as e:
            o.check("forms_agree", False, sub="stf_vonKarman:" + form, detail=str(e))
            continue
        o.stat("lib_calls", c)
        if len(rr) == 0:
            continue
        base = af[numpy.isin(Rf, rr)]
        tol = (1e-5 * numpy.abs(base) + TOL_F32 * B0) if form == "float32_array" else (TOL_EXACT * numpy.abs(base) + TOL_ROUND * B0)
        m = numpy.abs(y - base) / tol
        m = numpy.where(numpy.isfinite(m), m, numpy.inf)
        o.check("forms_agree", bool(m.max() <= 1.0), sub="stf_vonKarman:" + form, measure=float(m.max()), tol=1.0)
    o.outcome(numpy.round(a / vk.structure_function(R, 1.0, L0), 9))
    return o


def _psd(p):
    """the spectrum really used by ft_phase_screen and by the sub-harmonic generator"""
    o = Out()
    from aotools.turbulence import phasescreen
    N = p["N"]
    delta, r0, L0, l0 = p["cfg"]
    # screens that differ in ONE parameter are generated first, in this process (layers of one atmosphere share the
    # grid and differ in r0): the spectrum of the screen under test must not be theirs
    for sib in ((r0 * 2.0, delta, L0, l0), (r0 * 0.37, delta, L0, l0), (r0, delta, L0 * 3.0, l0), (r0, delta, L0, l0 * 0.5), (r0, delta * 2.0, L0, l0)):
        phasescreen.ft_phase_screen(sib[0], N, sib[1], sib[2], sib[3], seed=SeqGenerator(numpy.ones(2 * N * N)))
        phasescreen.ft_sh_phase_screen(sib[0], N, sib[1], sib[2], sib[3], seed=SeqGenerator(numpy.ones(2 * N * N + 54)))
    o.stat("lib_calls", 10)
    refs = _refs(N)
    try:
        P, f, hi = _extract_psd(N, delta, r0, L0, l0, o, refs)
    except _NotClaimed as e:
        o.stat("screen_psd_not_claimed", 1)
        o.note("screen_psd_not_claimed", str(e))
        return o
    o.note("normal_requests_fft_screen", str(hi["calls"]))
    o.close("screen_zero_draws_zero_screen", hi["zmax"], 0.0)
    cm, spread, c = _psd_constant(P, f, r0, L0, l0)
    o.close("screen_psd_is_von_karman", spread, 1e-10,
            detail="power per DFT bin / [del_f^2 r0^(-5/3) exp(-(f/fm)^2) (f^2+1/L0^2)^(-11/6)] range %r..%r" % (c.min(), c.max()))
    # the zero-frequency bin does not enter the structure function: observed, not constrained
    o.note("screen_psd_dc_bin", float(P[0, 0]))
    o.close("screen_psd_constant", abs(cm / vk.C_PHI - 1.0), TOL_HANKEL, detail="constant %r, exact %r" % (cm, vk.C_PHI))
    o.note("screen_psd_constant", cm)
    # sub-harmonic generator: its pixel-pair structure function is that of the FFT screen with the SAME parameters
    # plus that of the three 3x3 grids of sub-harmonic waves of the same spectrum (same constant)
    try:
        sh = _second_moments(lambda s_: phasescreen.ft_sh_phase_screen(r0, N, delta, L0, l0, seed=s_), N, refs, o)
    except _NotClaimed as e:
        o.stat("subharmonic_psd_not_claimed", 1)
        o.note("subharmonic_psd_not_claimed", str(e))
        return o
    o.note("normal_requests_subharmonic_screen", str(sh["calls"]))
    o.close("screen_zero_draws_zero_screen", sh["zmax"], 0.0, sub="subharmonic")
    lo = _subharmonic_D(N, delta, r0, L0, l0, cm, refs)
    # 1e-9 of the sub-harmonic part; 1e-12 of the total is the rounding of the difference of the two sums
    tol = 1e-9 * float(lo.max()) + 1e-12 * float(sh["D"].max())
    dev = numpy.abs(sh["D"] - hi["D"] - lo)
    k = numpy.unravel_index(int(numpy.argmax(dev)), dev.shape)
    o.close("subharmonic_psd_same_model", float(dev.max()) / tol, 1.0,
            detail="E(s(x)-s(x0))^2 of ft_sh_phase_screen minus that of ft_phase_screen at pixel %s, reference pixel %s: "
            "%r, sub-harmonic waves of the same spectrum (constant %r): %r" % (k[1:], refs[k[0]], float((sh["D"] - hi["D"])[k]), cm, float(lo[k])))
    o.outcome(numpy.round(c, 9))
    return o


SPOT_CFG = {"fft": (0.05, 0.15, 20.0, 0.01), "sh": (0.05, 0.15, 40.0, 0.01)}     # (delta, r0, L0, l0)


def _spot_bins(N):
    """DFT bins (row, col) probed at large N: next to DC, low, mid, the Nyquist row, next to the Nyquist corner"""
    return [(0, 1), (1, 0), (1, 1), (-1, 2), (3, -7), (N // 4, 5), (-N // 2, 3), (N // 2 - 1, N // 2 - 1)]


def _psdspot(p):
    """size classes beyond the exhaustive ones: the spectrum at N = 1024 (FFT screen) / N = 256 (sub-harmonics) equals
    the one observed with ALL draws at N = 8 for the same delta, r0, L0, l0.  Only a few draws can be pulsed, so the
    association draw <-> DFT bin is taken from the small screens and its observable consequences are tested first
    (guard); if they do not hold the probe is recorded as not claimed."""
    o = Out()
    from aotools.turbulence import phasescreen
    N = p["N"]
    delta, r0, L0, l0 = SPOT_CFG[p["what"]]
    try:
        Ps, fs, ms = _extract_psd(8, delta, r0, L0, l0, o)
        cm, spread, _ = _psd_constant(Ps, fs, r0, L0, l0)
        if not spread <= 1e-10:
            raise _NotClaimed("spectrum at N = 8 is not the model (reported by the psd cases)")
        if p["what"] == "fft":
            _spot_fft(o, phasescreen, N, delta, r0, L0, l0, cm)
        else:
            _spot_sh(o, phasescreen, N, delta, r0, L0, l0, cm)
    except _NotClaimed as e:
        o.stat("screen_psd_spot_not_claimed", 1)
        o.note("screen_psd_spot_not_claimed", str(e))
    return o


def _spot_fft(o, phasescreen, N, delta, r0, L0, l0, cm):
    gen = lambda s_: phasescreen.ft_phase_screen(r0, N, delta, L0, l0, seed=s_)
    g0 = SeqGenerator(())
    z0 = _screen(gen, g0)
    n = g0.consumed
    o.stat("lib_calls", 1)
    if n != 2 * N * N or z0.shape != (N, N) or float(numpy.max(numpy.abs(z0))) != 0.0:
        raise _NotClaimed("%d draws, screen %s at N = %d" % (n, z0.shape, N))
    del_f = 1.0 / (N * delta)
    fx = numpy.fft.fftfreq(N, d=delta)
    worst, nb = 0.0, 0
    for br, bc in _spot_bins(N):
        b, mb = (br % N, bc % N), ((-br) % N, (-bc) % N)
        # at small N the draw that feeds DFT bin (row, col) is number ((row + N/2) mod N) N + (col + N/2) mod N,
        # N^2 further for the imaginary part; verified below on the responses themselves
        idx = lambda q: ((q[0] + N // 2) % N) * N + (q[1] + N // 2) % N
        power = 0.0
        for j in (idx(b), idx(b) + N * N, idx(mb), idx(mb) + N * N):
            F = numpy.fft.fft2(_screen(gen, unit_draws(n, j)))
            o.stat("lib_calls", 1)
            e = numpy.abs(F) ** 2
            tot = float(e.sum())
            inside = float(e[b] + e[mb])
            if not (tot > 0.0 and (tot - inside) <= 1e-18 * tot):
                raise _NotClaimed("response to draw %d is not confined to the DFT bins +-%s" % (j, b))
            power += float(e[b])
        got = power / (N ** 4 * del_f ** 2)
        want = float(vk.screen_psd(math.hypot(fx[b[0]], fx[b[1]]), r0, L0, l0, cm))
        o.close("screen_psd_independent_of_size", abs(got / want - 1.0), 1e-9, sub="bin=%d,%d" % (br, bc),
                detail="N=%d: power in DFT bin %s / del_f^2 = %r, spectrum observed at N=8 (constant %r): %r" % (N, b, got, cm, want))
        nb += 1
    o.outcome([N, nb])


def _spot_sh(o, phasescreen, N, delta, r0, L0, l0, cm):
    gen_sh = lambda s_: phasescreen.ft_sh_phase_screen(r0, N, delta, L0, l0, seed=s_)
    gen_hi = lambda s_: phasescreen.ft_phase_screen(r0, N, delta, L0, l0, seed=s_)
    g0 = SeqGenerator(())
    z0 = _screen(gen_sh, g0)
    n = g0.consumed
    g1 = SeqGenerator(())
    _screen(gen_hi, g1)
    nh = g1.consumed
    o.stat("lib_calls", 2)
    if nh != 2 * N * N or n != nh + 54 or z0.shape != (N, N) or float(numpy.max(numpy.abs(z0))) != 0.0:
        raise _NotClaimed("%d / %d draws at N = %d" % (n, nh, N))
    # guard: the first 2 N^2 draws are those of the FFT screen (probed on a few of them) ...
    for j in (0, 1, N + 3, N * N // 2 + N // 2 + 1, N * N - 1, N * N + 5, 2 * N * N - 2):
        a = _screen(gen_sh, unit_draws(n, j))
        b = _screen(gen_hi, unit_draws(nh, j))
        o.stat("lib_calls", 2)
        sc_ = float(numpy.max(numpy.abs(b)))
        if not (float(numpy.max(numpy.abs(a - b))) <= 1e-9 * sc_ or sc_ == 0.0 and float(numpy.max(numpy.abs(a))) == 0.0):
            raise _NotClaimed("draw %d of ft_sh_phase_screen is not draw %d of ft_phase_screen" % (j, j))
    # ... so the last 54 are the sub-harmonic waves: their pixel-pair structure function against the model
    refs = [(0, 0), (N // 2, N // 2), (N - 1, 1), (3, N - 2)]
    D = numpy.zeros((len(refs), N, N))
    for j in range(nh, n):
        t = _screen(gen_sh, unit_draws(n, j))
        o.stat("lib_calls", 1)
        for k, (ri, ci) in enumerate(refs):
            D[k] += (t - t[ri, ci]) ** 2
    lo = _subharmonic_D(N, delta, r0, L0, l0, cm, refs)
    o.close("subharmonic_psd_independent_of_size", float(numpy.max(numpy.abs(D - lo))) / float(lo.max()), 1e-9,
            detail="N=%d: E(s(x)-s(x0))^2 of the 54 sub-harmonic draws vs the model with the constant observed at N=8" % N)
    o.outcome([N, n])


GRAM64_REL = 1e-10     # eigenvalue allowance of the float64 copies, relative to the largest eigenvalue


def _gram(p):
    """Gram matrices of phase covariances between arbitrary points are positive semi-definite:
    every subset (size >= 2) of the 3x3 lattice / every 4-subset of the 4x4 lattice / every subset of an irregular
    set (collinear, nearly coincident and far points).  phase_covariance itself (float32, allowance 1e-5 of the
    largest eigenvalue) and, in float64, the structure-function copies: with D = 2(B(0) - B) the matrix
    C_ij = (D(x_i-x_0) + D(x_j-x_0) - D(x_i-x_j)) / 2 is the covariance of the phase differences to x_0."""
    o = Out()
    turb, sc, kl = _funcs()
    n, sp, r0, L0 = p["n"], p["sp"], p["r0"], p["L0"]
    if n == 0:
        pts = numpy.array(GRAMX_PTS, dtype=float) * sp
        subsets = [s for k in range(2, len(pts) + 1) for s in itertools.combinations(range(len(pts)), k)]
    else:
        pts = numpy.array([(i * sp, j * sp) for i in range(n) for j in range(n)], dtype=float)
        if n == 3:
            subsets = [s for k in range(2, 10) for s in itertools.combinations(range(9), k)]
        else:
            subsets = list(itertools.combinations(range(16), 4))
    B0ref = vk.variance(r0, L0)
    copies = {"structure_function_vk": lambda d: sc.structure_function_vk(d, r0, L0),
              "stf_vonKarman": lambda d: numpy.asarray(kl.stf_vonKarman(d / r0, L0 / r0))}
    worst, bad, nsym = float("inf"), [], 0.0
    worst64 = {k: 0.0 for k in copies}
    bad64 = {k: [] for k in copies}
    for s in subsets:
        q = pts[list(s)]
        d = numpy.hypot(q[:, None, 0] - q[None, :, 0], q[:, None, 1] - q[None, :, 1])
        G = numpy.asarray(turb.phase_covariance(d.copy(), r0, L0), dtype=float)
        if not numpy.all(numpy.isfinite(G)) or G.shape != d.shape:
            bad.append((s, float("nan")))
        else:
            # the same separation at the mirrored position: equal up to (float32) rounding
            nsym = max(nsym, float(numpy.max(numpy.abs(G - G.T))) / float(numpy.max(numpy.abs(G))))
            w = numpy.linalg.eigvalsh(0.5 * (G + G.T))
            ratio = float(w[0] / w[-1])
            worst = min(worst, ratio)
            if not ratio >= TOL_GRAM:
                bad.append((s, ratio))
        for name, f in copies.items():
            Dm = numpy.asarray(f(d.copy()), dtype=float)
            if Dm.shape != d.shape or not numpy.all(numpy.isfinite(Dm)):
                bad64[name].append((s, float("nan")))
                continue
            Dm = 0.5 * (Dm + Dm.T)
            C = 0.5 * (Dm[1:, :1] + Dm[:1, 1:] - Dm[1:, 1:])
            w = numpy.linalg.eigvalsh(C)
            # rounding of the cancelling closed form: 1e-13 B(0) per entry
            m = -float(w[0]) / (GRAM64_REL * abs(float(w[-1])) + len(s) * TOL_ROUND * B0ref)
            worst64[name] = max(worst64[name], m)
            if not m <= 1.0:
                bad64[name].append((s, m))
    o.stat("lib_calls", 3 * len(subsets))
    o.check("gram_psd", not bad, measure=-worst, tol=-TOL_GRAM, n=len(subsets),
            detail=None if not bad else "%d subsets fail, e.g. points %s: lambda_min/lambda_max=%r" % (len(bad), bad[0][0], bad[0][1]))
    o.check("gram_symmetric", nsym <= 1e-5, measure=nsym, tol=1e-5, n=len(subsets),
            detail="largest |G - G^T| / max|G| = %r" % nsym)
    for name in copies:
        b = bad64[name]
        o.check("gram_psd_float64_copies", not b, sub=name, measure=worst64[name], tol=1.0, n=len(subsets),
                detail=None if not b else "%d subsets fail, e.g. points %s: -lambda_min / allowance = %r" % (len(b), b[0][0], b[0][1]))
    o.outcome([n, sp, r0, L0, round(worst, 9)])
    return o


LEVEL_TEXT = ("Every point of the product separation ladder (13 values quick / 45 thorough, plus 0, r = 10, 100, 1e4 L0 and "
              "seven separations from 1e-9 L0 down to 1e-200 L0) x r0 (4 / 8) x L0 (6 / 12) x seven input forms is evaluated "
              "through all five closed forms and compared with 2(B(0)-B), the textbook formulas, the Hankel transform of the "
              "spectrum observed in the real screen generators and each other. The spectrum is read off the exact second "
              "moments of the screens (every consumed Gaussian draw pulsed, N up to 16 / 32, six configurations incl. outer "
              "scale below the screen size; sub-harmonic screens through their pixel-pair structure function), with spot "
              "probes at N = 1024 / 256. Gram matrices of all 502 subsets of a 3x3 lattice, all 1820 four-point subsets of a "
              "4x4 lattice and all 247 subsets of an irregular 8-point set at 3 spacings, for phase_covariance (float32) and "
              "for the two float64 structure-function copies.")
LEVEL_NOTE = ("Trusted: scipy.special and the Gauss-Legendre Hankel quadrature of mc/refmodels/vk_closed_forms.py "
              "(cross-checked against its own closed form to 1e-9). Not covered: parameters between lattice points, "
              "relative accuracy for 0 < r/L0 < 1e-8 (float64 cancellation of the closed form; only the absolute allowance "
              "1e-13 B(0) is decided there) and separations below 1e-200 L0, the limit L0 -> infinity beyond 1e6, odd N and "
              "the FFT= argument of the screen generators, stf_vonKarman_yao beyond r = 0.1 L0. Clauses whose measuring "
              "instrument does not fit the library under test are counted in the *_not_claimed statistics (0 on the "
              "unchanged library).")
