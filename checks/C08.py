"""C08 All closed-form turbulence statistics describe one von Karman model.

E1: the complete product (separation ladder incl. 0 and r >> L0) x r0 x L0 x input forms is
pushed through the five closed forms spread over four modules
  turb.phase_covariance, slopecovariance.structure_function_vk / _kolmogorov,
  karhunenLoeve.stf_vonKarman / stf_vonKarman_yao / stf_kolmogorov
and through the power spectrum that the FFT screen generators really use (observed from
outside: the response of ft_phase_screen / ft_sh_phase_screen to every unit Gaussian draw
is sqrt(PSD(f_k)) del_f times a unit wave, so the spectrum samples and its constant are
read off the real code).  Oracles: D = 2(B(0)-B), the Hankel transform of that spectrum
(plain quadrature in mc/refmodels/vk_closed_forms.py), the textbook closed forms, the
Kolmogorov limit along an L0 ladder, D(0) = 0, monotonicity, saturation, r0^(-5/3), and
positive semi-definiteness of the Gram matrix of EVERY subset of small point lattices.
"""
import itertools
import math
import warnings

import numpy

from mc import Out, Case
from mc.env import SeqGenerator, unit_draws
from mc.refmodels import vk_closed_forms as vk

PROPERTY = "C08"
LEVEL = "exploration"
ENGINES = ["E1-product-enumeration", "E2-basis-exhaustion"]
TECHNIQUE = ("bounded exhaustive enumeration: separation ladder x r0 x L0 x input forms through all "
             "closed forms; power spectrum of the screen generators observed by basis exhaustion of the "
             "Gaussian draws; Gram matrices of every subset of 3x3 / every 4-subset of 4x4 point lattices")
RULE = ("cases = origin:{function x input form} + forms:{r0 x L0} + kolmo:{r0} + kl:{L0} + "
        "psd:{N x configuration} + gram3/gram4:{spacing x r0 x L0}; each case loops over the complete "
        "separation ladder / all subsets; a case is non-trivial unless it only evaluates r = 0 of a "
        "Kolmogorov power law")
ASSUMPTIONS = [
    "lattice in (r, r0, L0): values between ladder points are not covered; monotonicity is only "
    "decided between ladder points; exact r0^(-5/3) scaling is verified as an exact relation",
    "separations with 0 < r/L0 < 1e-8 are excluded: there the closed form 1 - c x^(5/6) K_{5/6}(x) cancels "
    "catastrophically in float64 (numerical-range observation, recorded in the evidence notes)",
    "phase_covariance computes in float32, so comparisons through it carry an absolute allowance of "
    "1e-6 B(0); the Kolmogorov limit is therefore decided on the structure-function copies and reaches "
    "the covariance route only through the clause D = 2(B(0)-B)",
    "the Kolmogorov limit is a bounded surrogate: gap non-increasing along the L0 ladder and <= 2e-2 at "
    "its end (convergence is only proportional to (r/L0)^(1/3))",
    "tolerances: 2e-3 for published-constant rounding (0.17253 vs 0.172629, 6.88 vs 6.8839, 0.0863 vs "
    "0.086314), 1.2e-2 for the screen spectrum constant 0.023 vs 0.022896, 1e-12 relative + 1e-13 B(0) "
    "(float64 rounding of the cancelling closed form) for exact identities",
    "trusted: scipy.special (kv, gamma, j0) inside the reference model, numpy.linalg.eigvalsh",
]

TOL_EXACT = 1e-12
TOL_CONST = 2e-3
TOL_HANKEL = 1.2e-2
TOL_F32 = 1e-6        # absolute allowance, in units of B(0), for float32 arithmetic
TOL_ROUND = 1e-13     # absolute allowance, in units of B(0), for float64 rounding of 1 - c x^(5/6) K(x)
TOL_GRAM = -1e-5
RANGE_MIN = 1e-8      # smallest r/L0 on which the closed forms are compared

R_QUICK = [1e-6, 1e-3, 0.01, 0.03, 0.1, 0.3, 1.0, 3.0, 10.0, 30.0, 100.0, 1e3, 1e4]
R0_QUICK = [0.05, 0.1, 0.2, 1.0]
L0_QUICK = [1.0, 5.0, 25.0, 100.0, 1e4, 1e6]
R0_THOROUGH = [0.02, 0.05, 0.1, 0.15, 0.2, 0.5, 1.0, 2.0]
L0_THOROUGH = [0.5, 1.0, 2.0, 5.0, 10.0, 25.0, 50.0, 100.0, 1e3, 1e4, 1e5, 1e6]
SAT_FACTORS = [10.0, 100.0, 1e4]
KOLMO_R = [0.01, 0.03, 0.1, 0.3, 1.0]
SCALE_C = [2.0, 0.5, 3.7]
GRAM_SPACINGS = [0.05, 0.5, 5.0]
GRAM_L0 = [1.0, 25.0, 1e4]
PSD_CFG = [(0.5, 0.1, 25.0, 0.01), (0.1, 0.2, 5.0, 1e-3), (1.0, 1.0, 100.0, 0.5), (0.25, 0.05, 1e4, 1e-6)]
FORMS = ["pyfloat", "pyint", "np_float64", "array0d", "array1d", "array2d", "float32_array"]
ORIGIN_FUNCS = ["structure_function_vk", "stf_vonKarman", "structure_function_kolmogorov",
                "stf_kolmogorov", "stf_vonKarman_yao", "phase_covariance"]


def _R(tier):
    if tier == "quick":
        return list(R_QUICK)
    dense = [10.0 ** (k / 4.0) for k in range(-24, 17)]
    return sorted(set(R_QUICK) | set(float("%.6g" % v) for v in dense))


def _r0s(tier):
    return R0_QUICK if tier == "quick" else R0_THOROUGH


def _L0s(tier):
    return L0_QUICK if tier == "quick" else L0_THOROUGH


def _psdN(tier):
    return [2, 4, 8] if tier == "quick" else [2, 4, 6, 8, 12, 16]


def BOUNDS(tier):
    return {"separations": [0.0] + _R(tier), "r0": _r0s(tier), "L0": _L0s(tier),
            "saturation_points_in_L0": SAT_FACTORS, "input_forms": FORMS,
            "kolmogorov_r": KOLMO_R, "r0_scale_factors": SCALE_C,
            "gram": {"lattices": ["all subsets (size>=2) of 3x3: 502", "all 4-subsets of 4x4: 1820"],
                     "spacings": GRAM_SPACINGS, "L0": GRAM_L0,
                     "r0": [0.1] if tier == "quick" else [0.1, 1.0]},
            "screen_psd": {"N": _psdN(tier), "(delta,r0,L0,l0)": PSD_CFG},
            "range_min_r_over_L0": RANGE_MIN}


def cases(tier):
    for fn in ORIGIN_FUNCS:
        for form in FORMS:
            yield Case("origin:%s:%s" % (fn, form),
                       {"kind": "origin", "fn": fn, "form": form, "tier": tier},
                       fn not in ("structure_function_kolmogorov", "stf_kolmogorov"))
    for fn in ORIGIN_FUNCS:
        yield Case("repeat:%s" % fn, {"kind": "repeat", "fn": fn})
        yield Case("elementwise:%s" % fn, {"kind": "elementwise", "fn": fn})
    yield Case("scalecov", {"kind": "scalecov"})
    for r0 in _r0s(tier):
        for L0 in _L0s(tier):
            yield Case("forms:r0=%g:L0=%g" % (r0, L0), {"kind": "forms", "r0": r0, "L0": L0, "tier": tier})
    for r0 in _r0s(tier):
        yield Case("kolmo:r0=%g" % r0, {"kind": "kolmo", "r0": r0, "tier": tier})
    for L0 in _L0s(tier):
        yield Case("kl:L0=%g" % L0, {"kind": "kl", "L0": L0, "tier": tier})
    for N in _psdN(tier):
        for i, cfg in enumerate(PSD_CFG):
            yield Case("psd:N=%d:cfg=%d" % (N, i), {"kind": "psd", "N": N, "cfg": cfg})
    for sp in GRAM_SPACINGS:
        for r0 in ([0.1] if tier == "quick" else [0.1, 1.0]):
            for L0 in GRAM_L0:
                yield Case("gram3:sp=%g:r0=%g:L0=%g" % (sp, r0, L0),
                           {"kind": "gram", "n": 3, "sp": sp, "r0": r0, "L0": L0})
                yield Case("gram4:sp=%g:r0=%g:L0=%g" % (sp, r0, L0),
                           {"kind": "gram", "n": 4, "sp": sp, "r0": r0, "L0": L0})


# ----------------------------------------------------------------------------- helpers

def _funcs():
    from aotools.turbulence import turb, slopecovariance
    from aotools.functions import karhunenLoeve
    return turb, slopecovariance, karhunenLoeve


def _make(form, values):
    """the list of separations in the given input form -> (list of call arguments, regroup)"""
    v = [float(x) for x in values]
    if form == "pyfloat":
        return [float(x) for x in v], "each"
    if form == "pyint":
        return [int(x) for x in v if float(x).is_integer()], "each"
    if form == "np_float64":
        return [numpy.float64(x) for x in v], "each"
    if form == "array0d":
        return [numpy.array(x) for x in v], "each"
    if form == "array1d":
        return [numpy.array(v)], "whole"
    if form == "array2d":
        return [numpy.array([v, v[::-1]])], "whole2"
    if form == "float32_array":
        return [numpy.array(v, dtype=numpy.float32)], "whole"
    raise ValueError(form)


def _call_forms(f, form, values):
    """values of f on `values` passed in `form`, flattened to a float64 vector aligned with the
    values that the form can represent (ints only for pyint)."""
    args, mode = _make(form, values)
    if mode == "each":
        kept = [x for x in values if form != "pyint" or float(x).is_integer()]
        return numpy.array(kept, dtype=float), numpy.array([float(numpy.asarray(f(a))) for a in args]), len(args)
    y = numpy.asarray(f(args[0]), dtype=float)
    if mode == "whole2":
        if y.shape != (2, len(values)):
            raise ValueError("2-D input gave output shape %s" % (y.shape,))
        if not numpy.array_equal(y[0], y[1][::-1], equal_nan=True):
            raise ValueError("rows of a 2-D input are not evaluated element-wise")
        y = y[0]
    if y.shape != (len(values),):
        raise ValueError("array input gave output shape %s" % (y.shape,))
    return numpy.array(values, dtype=float), y, 1


def _extract_psd(N, delta, r0, L0, l0, o=None):
    """spectrum samples used by ft_phase_screen, observed through unit Gaussian draws:
    the responses to the real and imaginary unit draw at frequency k are
    sqrt(PSD_k) del_f cos(.) and -sqrt(PSD_k) del_f sin(.): mean(t_re^2 + t_im^2) = PSD_k del_f^2."""
    from aotools.turbulence import phasescreen
    n = 2 * N * N
    g0 = SeqGenerator(numpy.zeros(n))
    z = phasescreen.ft_phase_screen(r0, N, delta, L0, l0, seed=g0)
    calls = list(g0.calls)
    del_f = 1.0 / (N * delta)
    P = numpy.zeros((N, N))
    for k in range(N * N):
        a = phasescreen.ft_phase_screen(r0, N, delta, L0, l0, seed=unit_draws(n, k))
        b = phasescreen.ft_phase_screen(r0, N, delta, L0, l0, seed=unit_draws(n, N * N + k))
        P.flat[k] = numpy.mean(a * a + b * b) / del_f ** 2
    if o is not None:
        o.stat("lib_calls", 1 + 2 * N * N)
    fx = (numpy.arange(N) - N // 2) * del_f
    FX, FY = numpy.meshgrid(fx, fx)
    return P, numpy.hypot(FX, FY), calls, float(numpy.max(numpy.abs(z)))


def _screen_constant(r0, L0, o):
    """the constant c of the spectrum c r0^(-5/3) (f^2+f0^2)^(-11/6) really used for screens at
    this (r0, L0): N = 4 grid spanning the outer scale, inner scale pushed out of the grid"""
    N, delta, l0 = 4, L0 / 4.0, L0 * 1e-10
    P, f, calls, zmax = _extract_psd(N, delta, r0, L0, l0, o)
    shape = vk.screen_psd(f, r0, L0, l0, 1.0)
    live = numpy.ones((N, N), bool)
    live[N // 2, N // 2] = False
    c = P[live] / shape[live]
    return float(numpy.mean(c)), float((c.max() - c.min()) / numpy.mean(c))


# ----------------------------------------------------------------------------- evaluate

def _repeat(p):
    """Every formula is evaluated repeatedly on ONE array object (an L0 / r0 sweep over the same distance
    matrix): each evaluation must give what a fresh copy of the array gives - in particular D(0) = 0 on every
    call - and the array must still hold the separations afterwards.  (Added after a seeded change wrote the
    r = 0 placeholder into the caller's array, so that only the second call was wrong.)"""
    o = Out()
    turb, sc, kl = _funcs()
    calls = {
        "phase_covariance": lambda r, a, b: turb.phase_covariance(r, a, b),
        "structure_function_vk": lambda r, a, b: sc.structure_function_vk(r, a, b),
        "structure_function_kolmogorov": lambda r, a, b: sc.structure_function_kolmogorov(r, a),
        "stf_kolmogorov": lambda r, a, b: kl.stf_kolmogorov(r),
        "stf_vonKarman": lambda r, a, b: kl.stf_vonKarman(r, b),
        "stf_vonKarman_yao": lambda r, a, b: kl.stf_vonKarman_yao(r, b),
    }
    f = calls[p["fn"]]
    base = numpy.array([[0., 0.3, 1.], [0.3, 0., 2.5], [1., 2.5, 0.]])
    for dt in (numpy.float64, numpy.float32):
        for layout in ("C", "F", "1d"):
            arr = numpy.array(base, dtype=dt, order="F" if layout == "F" else "C")
            if layout == "1d":
                arr = numpy.array(base[0], dtype=dt)
            keep = arr.copy()
            sub = "%s:%s" % (numpy.dtype(dt).name, layout)
            sweep = [(0.1, 5.0), (0.2, 20.0), (0.1, 5.0), (1.0, 100.0)]
            for k, (a, b) in enumerate(sweep):
                got = numpy.asarray(f(arr, a, b))
                want = numpy.asarray(f(keep.copy(), a, b))
                o.stat("lib_calls", 2)
                o.check("same_array_reused_gives_same_values", got.shape == want.shape and
                        numpy.array_equal(got, want, equal_nan=True), sub="%s:call=%d" % (sub, k),
                        detail={"got": got, "fresh": want})
                o.check("separations_argument_unchanged", arr.shape == keep.shape and arr.dtype == keep.dtype and
                        numpy.array_equal(arr, keep), sub="%s:call=%d" % (sub, k), detail={"now": arr, "was": keep})
    return o


def _calls():
    turb, sc, kl = _funcs()
    return {
        "phase_covariance": lambda r, a, b: turb.phase_covariance(r, a, b),
        "structure_function_vk": lambda r, a, b: sc.structure_function_vk(r, a, b),
        "structure_function_kolmogorov": lambda r, a, b: sc.structure_function_kolmogorov(r, a),
        "stf_kolmogorov": lambda r, a, b: kl.stf_kolmogorov(r),
        "stf_vonKarman": lambda r, a, b: kl.stf_vonKarman(r, b),
        "stf_vonKarman_yao": lambda r, a, b: kl.stf_vonKarman_yao(r, b),
    }


def _elementwise(p):
    """Each formula is a function of the separation applied element by element, whatever the shape and size of
    the array: (a) every element of small arrays of every shape class (square but NOT symmetric, rectangular,
    1-d, 3-d) equals the value for that separation passed alone; (b) a long vector (70 001 lags) and a large
    matrix (300 x 300 cross-separations) equal the concatenation of their pieces.  (Added after seeded changes
    evaluated only one triangle of square arrays, and dropped the tail of arrays longer than a block size.)"""
    o = Out()
    f = _calls()[p["fn"]]
    a, b = 0.15, 12.0
    tol32 = 1e-5 if p["fn"] == "phase_covariance" else 1e-12       # phase_covariance computes in float32
    small = {
        "square_nonsymmetric": numpy.array([[0.0, 0.4, 2.0], [0.1, 0.0, 7.0], [3.0, 0.02, 0.5]]),
        "rectangular": numpy.array([[0.0, 0.4, 2.0, 9.0], [0.1, 1.0, 7.0, 30.0]]),
        "vector": numpy.array([0.0, 0.003, 0.4, 2.0, 55.0]),
        "cube": numpy.arange(27, dtype=float).reshape(3, 3, 3) * 0.37,
        "square_5x5_cross": numpy.abs(numpy.subtract.outer(numpy.arange(5) * 0.7, numpy.arange(5) * 1.9 + 0.3)),
    }
    for name, arr in small.items():
        got = numpy.asarray(f(arr.copy(), a, b), dtype=float)
        o.stat("lib_calls", 1 + arr.size)
        if got.shape != arr.shape:
            o.check("elementwise_small_arrays", False, sub=name, detail="shape %s for input %s" % (got.shape, arr.shape))
            continue
        want = numpy.array([float(numpy.asarray(f(float(x), a, b))) for x in arr.ravel()]).reshape(arr.shape)
        scale = max(1.0, float(numpy.nanmax(numpy.abs(want))))
        o.close("elementwise_small_arrays", float(numpy.nanmax(numpy.abs(got - want))) / scale, tol32, sub=name)
    # ... and whatever the memory layout of the array (Fortran order, transposed / strided views, read-only) and on
    # one caller-owned array across calls.  (Added after a seeded change walked the array in memory order.)
    from mc import variants
    for name in ("square_nonsymmetric", "rectangular", "cube", "square_5x5_cross"):
        k = variants.check_storage(o, "independent_of_memory_layout", lambda x: f(x, a, b), small[name], tol32, sub=name, kinds=())
        k += variants.check_reuse(o, "separations", lambda x: f(x, a, b), small[name], tol32, sub=name)
        o.stat("lib_calls", k)
    big = {
        "vector_70001": (numpy.arange(70001) % 9973) * 0.0031 + 0.001,
        "matrix_300x300": numpy.abs(numpy.subtract.outer(numpy.arange(300) * 0.11, numpy.arange(300) * 0.07 + 0.013)),
    }
    for name, arr in big.items():
        got = numpy.asarray(f(arr.copy(), a, b), dtype=float)
        flat = arr.ravel()
        pieces = numpy.concatenate([numpy.asarray(f(flat[i:i + 997].copy(), a, b), dtype=float).ravel()
                                    for i in range(0, flat.size, 997)])
        o.stat("lib_calls", 1 + (flat.size + 996) // 997)
        if got.shape != arr.shape:
            o.check("large_array_equals_its_pieces", False, sub=name, detail="shape %s" % (got.shape,))
            continue
        scale = max(1.0, float(numpy.nanmax(numpy.abs(pieces))))
        o.close("large_array_equals_its_pieces", float(numpy.nanmax(numpy.abs(got.ravel() - pieces))) / scale, tol32, sub=name)
    return o


def _scalecov(p):
    """The formulas are homogeneous: measuring every length (r, r0, L0) in another unit does not change a
    von Karman structure function or covariance; Kolmogorov D(s r, s r0) = D(r, r0); the KL copies (r in units
    of r0) scale as s^(5/3).  Checked for s from 1e-8 to 1e8 on separations from 1e-3 L0 to 10 L0.
    (Added after a seeded change replaced 'separation == 0' by an absolute-tolerance comparison.)"""
    o = Out()
    calls = _calls()
    r = numpy.array([0.0, 0.025, 0.3, 2.0, 25.0, 250.0])
    a, b = 0.2, 25.0
    for s_ in (1e-8, 1e-4, 1e-2, 1e2, 1e4, 1e8):
        for name in ("structure_function_vk", "structure_function_kolmogorov", "phase_covariance"):
            base = numpy.asarray(calls[name](r.copy(), a, b), dtype=float)
            got = numpy.asarray(calls[name](r * s_, a * s_, b * s_), dtype=float)
            o.stat("lib_calls", 2)
            scale = max(1.0, float(numpy.max(numpy.abs(base))))
            tol = 2e-5 if name == "phase_covariance" else 1e-9          # float32 inside phase_covariance
            o.close("unit_of_length_irrelevant", float(numpy.max(numpy.abs(got - base))) / scale, tol,
                    sub="%s:s=%g" % (name, s_))
        for name in ("stf_kolmogorov", "stf_vonKarman"):
            base = numpy.asarray(calls[name](r.copy(), a, b), dtype=float)
            got = numpy.asarray(calls[name](r * s_, a, b * s_), dtype=float)
            want = base * s_ ** (5.0 / 3.0)
            o.stat("lib_calls", 2)
            scale = max(float(numpy.max(numpy.abs(want))), 1e-300)
            o.close("unit_of_length_irrelevant", float(numpy.max(numpy.abs(got - want))) / scale, 1e-9,
                    sub="%s:s=%g" % (name, s_))
    return o


def evaluate(p):
    fn = {"origin": _origin, "forms": _forms, "kolmo": _kolmo, "kl": _kl, "psd": _psd, "gram": _gram,
          "repeat": _repeat, "elementwise": _elementwise, "scalecov": _scalecov}[p["kind"]]
    # 0 * inf, overflow of K_{5/6} at 0 and the like are outcomes to be judged, not warnings to print
    with warnings.catch_warnings(), numpy.errstate(all="ignore"):
        warnings.simplefilter("ignore")
        return fn(p)


def _origin(p):
    """value at zero separation, for every input form, every (r0, L0)"""
    o = Out()
    turb, sc, kl = _funcs()
    fn, form, tier = p["fn"], p["form"], p["tier"]
    bad, worst = [], 0.0
    # 'zero' = below the rounding of the closed form, whose terms are of size 2 B(0):
    # float64 inputs 1e-13, float32 inputs 1e-6 (times 2 B(0)); Kolmogorov power laws: exactly 0
    ztol = 1e-6 if form == "float32_array" else 1e-13
    r0s = _r0s(tier) if fn in ("structure_function_vk", "structure_function_kolmogorov", "phase_covariance") else [1.0]
    L0s = _L0s(tier) if fn in ("structure_function_vk", "stf_vonKarman", "stf_vonKarman_yao", "phase_covariance") else [1.0]
    for L0 in L0s:
        cov_bad, cov_worst = [], 0.0
        for r0 in r0s:
            f = {"structure_function_vk": lambda r: sc.structure_function_vk(r, r0, L0),
                 "stf_vonKarman": lambda r: kl.stf_vonKarman(r, L0),
                 "structure_function_kolmogorov": lambda r: sc.structure_function_kolmogorov(r, r0),
                 "stf_kolmogorov": lambda r: kl.stf_kolmogorov(r),
                 "stf_vonKarman_yao": lambda r: kl.stf_vonKarman_yao(r, L0),
                 "phase_covariance": lambda r: turb.phase_covariance(r, r0, L0)}[fn]
            vals = [0.0, 1.0] if form in ("array1d", "array2d", "float32_array") else [0.0]
            _, y, c = _call_forms(f, form, vals)
            o.stat("lib_calls", c)
            y0 = float(y[0])
            if fn == "phase_covariance":
                # B(0) is the variance 0.0863 (L0/r0)^(5/3): finite, and right to the constants' rounding
                m = abs(y0 / vk.variance(r0, L0) - 1.0) if math.isfinite(y0) else float("inf")
                cov_worst = max(cov_worst, m)
                if not m <= TOL_CONST:
                    cov_bad.append((r0, y0))
            else:
                scale = 2.0 * vk.variance(r0, L0) if fn in ("structure_function_vk", "stf_vonKarman") else 1.0
                m = abs(y0) / scale if math.isfinite(y0) else float("inf")
                worst = max(worst, m)
                if not (m <= ztol):
                    bad.append((r0, L0, y0))
        if fn == "phase_covariance":
            o.check("cov_zero_finite", not cov_bad, sub=None if not cov_bad else "L0=%g" % L0,
                    measure=cov_worst, tol=TOL_CONST, n=len(r0s),
                    detail=None if not cov_bad else "phase_covariance(0 as %s, r0, %g) for r0 in %s = %s; the variance "
                    "0.0863 (L0/r0)^(5/3) is finite" % (form, L0, [b[0] for b in cov_bad], [b[1] for b in cov_bad]))
    if fn != "phase_covariance":
        o.check("sf_zero_at_origin", not bad, measure=worst, tol=ztol,
                detail=None if not bad else "%s(0 as %s) is not 0: %d of %d (r0,L0) pairs, e.g. r0=%g L0=%g -> %r"
                % (fn, form, len(bad), len(r0s) * len(L0s), bad[0][0], bad[0][1], bad[0][2]))
    o.outcome([fn, form, len(bad)])
    return o


def _forms(p):
    o = Out()
    turb, sc, kl = _funcs()
    r0, L0, tier = p["r0"], p["L0"], p["tier"]
    Rall = numpy.array(_R(tier) + [s * L0 for s in SAT_FACTORS if s * L0 not in _R(tier)])
    Rall = numpy.array(sorted(set(Rall.tolist())))
    inrange = Rall / L0 >= RANGE_MIN
    o.note("excluded_r_over_L0_below_1e-8", int((~inrange).sum()))
    R = Rall[inrange]
    B0ref = vk.variance(r0, L0)
    Dref = vk.structure_function(R, r0, L0)

    D = numpy.asarray(sc.structure_function_vk(R.copy(), r0, L0), dtype=float)
    B = numpy.asarray(turb.phase_covariance(R.copy(), r0, L0), dtype=float)
    B0 = float(numpy.asarray(turb.phase_covariance(0.0, r0, L0)))
    o.stat("lib_calls", 3)
    sub = lambda i: "r=%g" % R[i]

    def each(clause, measure, tol, fmt):
        """one clause evaluation per ladder point; failures get the separation as sub id"""
        measure = numpy.where(numpy.isfinite(measure), measure, numpy.inf)
        bad = numpy.nonzero(~(measure <= tol))[0]
        o.check(clause, True, measure=float(measure.max()), tol=tol, n=len(measure) - len(bad))
        for i in bad:
            o.check(clause, False, sub=sub(i), measure=float(measure[i]), tol=tol, detail=fmt(i))

    # textbook closed form (normalisation pinned by the variance constant quoted in the statement)
    each("D_vs_textbook", numpy.abs(D / Dref - 1.0), TOL_CONST,
         lambda i: "structure_function_vk(%g,%g,%g)=%r, textbook %r" % (R[i], r0, L0, D[i], Dref[i]))

    # D = 2 (B(0) - B(r))
    b0_ok = math.isfinite(B0)
    if b0_ok:
        D2 = 2.0 * (B0 - B)
        each("D_eq_2dB", numpy.abs(D2 - D) / (TOL_CONST * numpy.abs(D) + TOL_F32 * B0ref), 1.0,
             lambda i: "2(B(0)-B(r))=%r vs structure_function_vk=%r (B0=%r)" % (D2[i], D[i], B0))
    else:
        o.note("skipped_B0_nonfinite", "phase_covariance(0,%g,%g) is not finite (reported by cov_zero_finite); "
               "clauses through B(0) not evaluable" % (r0, L0))
        o.stat("clauses_skipped_nonfinite_B0", 1)
    each("cov_vs_textbook", numpy.abs(B - vk.covariance(R, r0, L0)) / (TOL_CONST * numpy.abs(B) + TOL_F32 * B0ref), 1.0,
         lambda i: "phase_covariance(%g,%g,%g)=%r, textbook %r" % (R[i], r0, L0, B[i], vk.covariance(R[i:i + 1], r0, L0)[0]))

    # Hankel transform of the spectrum that the screen generators really use
    c_scr, spread = _screen_constant(r0, L0, o)
    o.close("screen_psd_is_von_karman", spread, 1e-10)
    o.note("screen_psd_constant", c_scr)
    H = numpy.zeros(len(R))
    tb = 0.0
    for i, r in enumerate(R):
        info = {}
        H[i] = vk.hankel_structure_function(r, 1.0, L0, c=c_scr, info=info) * r0 ** (-5.0 / 3.0)
        tb = max(tb, info["trunc_bound"] * r0 ** (-5.0 / 3.0) / H[i])
    o.close("reference_quadrature_truncation", tb, 1e-6)
    each("D_vs_hankel_of_screen_psd", numpy.abs(D / H - 1.0), TOL_HANKEL,
         lambda i: "structure_function_vk=%r, Hankel transform of the screen PSD=%r" % (D[i], H[i]))
    if b0_ok:
        each("cov_vs_hankel_of_screen_psd", numpy.abs(D2 - H) / (TOL_HANKEL * H + TOL_F32 * B0ref), 1.0,
             lambda i: "2(B(0)-B)=%r, Hankel transform of the screen PSD=%r" % (D2[i], H[i]))

    # input forms: same numbers whatever the container
    for form in FORMS:
        try:
            rr, y, c = _call_forms(lambda r: sc.structure_function_vk(r, r0, L0), form, R.tolist())
        except ValueError as e:
            o.check("forms_agree", False, sub="structure_function_vk:" + form, detail=str(e))
            continue
        o.stat("lib_calls", c)
        if len(rr) == 0:
            continue
        base = D[numpy.isin(R, rr)]
        if form == "float32_array":
            m = numpy.abs(y - base) / (1e-5 * numpy.abs(base) + TOL_F32 * B0ref)
        else:
            m = numpy.abs(y - base) / (TOL_EXACT * numpy.abs(base) + TOL_ROUND * B0ref)
        m = numpy.where(numpy.isfinite(m), m, numpy.inf)
        o.check("forms_agree", bool(m.max() <= 1.0), sub="structure_function_vk:" + form, measure=float(m.max()), tol=1.0,
                detail="largest deviation at r=%g" % rr[int(numpy.argmax(m))])
        try:
            rr, y, c = _call_forms(lambda r: turb.phase_covariance(r, r0, L0), form, R.tolist())
        except ValueError as e:
            o.check("forms_agree", False, sub="phase_covariance:" + form, detail=str(e))
            continue
        o.stat("lib_calls", c)
        base = B[numpy.isin(R, rr)]
        m = numpy.abs(y - base) / (TOL_F32 * B0ref)
        m = numpy.where(numpy.isfinite(m), m, numpy.inf)
        o.check("forms_agree", bool(m.max() <= 1.0), sub="phase_covariance:" + form, measure=float(m.max()), tol=1.0,
                detail="largest deviation at r=%g" % rr[int(numpy.argmax(m))])

    # monotone along the sorted ladder
    dD = numpy.diff(D)
    o.check("D_non_decreasing", bool(numpy.all(dD >= -TOL_EXACT * D[1:])), measure=float(max(0.0, (-dD / D[1:]).max())),
            tol=TOL_EXACT, n=len(dD), detail="first decrease after r=%g" % R[int(numpy.argmin(dD))])
    dB = numpy.diff(B)
    o.check("B_non_increasing", bool(numpy.all(dB <= TOL_F32 * B0ref)), measure=float(max(0.0, dB.max() / B0ref)),
            tol=TOL_F32, n=len(dB), detail="first increase after r=%g" % R[int(numpy.argmax(dB))])

    # saturation at twice the variance 0.0863 (L0/r0)^(5/3)
    sat = 2.0 * vk.PUB_VAR * (L0 / r0) ** (5.0 / 3.0)
    for s in SAT_FACTORS:
        i = int(numpy.argmin(numpy.abs(R - s * L0)))
        o.close("saturation", abs(D[i] / sat - 1.0), TOL_CONST, sub="r=%gL0" % s,
                detail="D(%g)=%r, 2*0.0863 (L0/r0)^(5/3)=%r" % (R[i], D[i], sat))
    if b0_ok:
        o.close("variance_constant", abs(B0 / (0.5 * sat) - 1.0), TOL_CONST,
                detail="B(0)=%r, 0.0863 (L0/r0)^(5/3)=%r" % (B0, 0.5 * sat))

    # exact r0^(-5/3) scaling
    for c in SCALE_C:
        Dc = numpy.asarray(sc.structure_function_vk(R.copy(), r0 * c, L0), dtype=float)
        Bc = numpy.asarray(turb.phase_covariance(R.copy(), r0 * c, L0), dtype=float)
        o.stat("lib_calls", 2)
        o.close("r0_scaling_D", float(numpy.max(numpy.abs(Dc * c ** (5.0 / 3.0) - D) / (TOL_EXACT * D + TOL_ROUND * B0ref))), 1.0,
                sub="c=%g" % c)
        o.close("r0_scaling_B", float(numpy.max(numpy.abs(Bc * c ** (5.0 / 3.0) - B)) / B0ref), 2 * TOL_F32, sub="c=%g" % c)
    Kc = numpy.asarray(sc.structure_function_kolmogorov(R.copy(), r0), dtype=float)
    o.stat("lib_calls", 1)
    o.close("kolmogorov_vs_textbook", float(numpy.max(numpy.abs(Kc / vk.kolmogorov(R, r0) - 1.0))), 1e-3)
    o.close("kolmogorov_published_constant", float(numpy.max(numpy.abs(Kc / vk.kolmogorov(R, r0, vk.PUB_KOLMO) - 1.0))),
            TOL_EXACT)
    o.outcome(numpy.round(D / Dref, 9))
    return o


def _kolmo(p):
    """Kolmogorov limit along the L0 ladder (bounded surrogate of 'as L0 grows')"""
    o = Out()
    turb, sc, kl = _funcs()
    r0, tier = p["r0"], p["tier"]
    ladder = _L0s(tier)
    r = numpy.array(KOLMO_R)
    for name in ("structure_function_vk", "stf_vonKarman"):
        if name == "stf_vonKarman":
            # the KL copy works in units of r0: separations r/r0, outer scale L0/r0
            ratio = [numpy.asarray(kl.stf_vonKarman(r / r0, L0 / r0)) / numpy.asarray(kl.stf_kolmogorov(r / r0))
                     for L0 in ladder]
        else:
            ratio = [numpy.asarray(sc.structure_function_vk(r, r0, L0)) / numpy.asarray(sc.structure_function_kolmogorov(r, r0))
                     for L0 in ladder]
        o.stat("lib_calls", 2 * len(ladder))
        ratio = numpy.array(ratio, dtype=float)            # (ladder, r)
        gap = numpy.abs(ratio - 1.0)
        inc = numpy.diff(gap, axis=0)
        o.check("kolmogorov_gap_non_increasing", bool(numpy.all(inc <= 1e-9)), sub=name, measure=float(inc.max()),
                tol=1e-9, n=inc.size, detail="gap rows (L0 ladder) x cols (r): %s" % numpy.round(gap, 5).tolist())
        o.close("kolmogorov_limit_reached", float(gap[-1].max()), 2e-2, sub=name,
                detail="gap at L0=%g: %s" % (ladder[-1], gap[-1].tolist()))
        worst = 0.0
        n = 0
        for k, L0 in enumerate(ladder):
            sel = (r / L0 <= 1e-3) & (r / L0 >= RANGE_MIN)
            if sel.any():
                lead = 1.0 - 1.485 * (r[sel] / L0) ** (1.0 / 3.0)
                worst = max(worst, float(numpy.max(numpy.abs(ratio[k][sel] - lead))))
                n += int(sel.sum())
        o.check("kolmogorov_leading_correction", worst <= TOL_CONST, sub=name, measure=worst, tol=TOL_CONST, n=max(n, 1))
    o.outcome(numpy.round(gap, 6))
    return o


def _kl(p):
    """the Karhunen-Loeve module's copies against the slope-covariance module's"""
    o = Out()
    turb, sc, kl = _funcs()
    L0, tier = p["L0"], p["tier"]
    Rall = numpy.array(_R(tier))
    R = Rall[Rall / L0 >= RANGE_MIN]
    a = numpy.asarray(kl.stf_vonKarman(R.copy(), L0), dtype=float)
    b = numpy.asarray(sc.structure_function_vk(R.copy(), 1, L0), dtype=float)
    o.stat("lib_calls", 2)
    o.close("kl_vk_copy_identical", float(numpy.max(numpy.abs(a - b) / (TOL_EXACT * numpy.abs(b) + TOL_ROUND * vk.variance(1.0, L0)))), 1.0,
            detail="stf_vonKarman(r,L0) vs structure_function_vk(r,1,L0), worst at r=%g"
            % R[int(numpy.argmax(numpy.abs(a / b - 1.0)))])
    ka = numpy.asarray(kl.stf_kolmogorov(Rall.copy()), dtype=float)
    kb = numpy.asarray(sc.structure_function_kolmogorov(Rall.copy(), 1), dtype=float)
    o.stat("lib_calls", 2)
    o.close("kl_kolmogorov_copy", float(numpy.max(numpy.abs(ka / kb - 1.0))), 1e-3)
    o.close("kl_kolmogorov_vs_textbook", float(numpy.max(numpy.abs(ka / vk.kolmogorov(Rall, 1.0) - 1.0))), 1e-3)
    sel = R / L0 <= 0.1
    if sel.any():
        y = numpy.asarray(kl.stf_vonKarman_yao(R[sel].copy(), L0), dtype=float)
        o.stat("lib_calls", 1)
        ref = vk.structure_function(R[sel], 1.0, L0)
        o.close("kl_yao_series", float(numpy.max(numpy.abs(y / ref - 1.0))), 1e-2,
                detail="worst at r=%g" % R[sel][int(numpy.argmax(numpy.abs(y / ref - 1.0)))])
        o.close("kl_yao_vs_kl_vk", float(numpy.max(numpy.abs(y / a[sel] - 1.0))), 1e-2)
    # the structure function the KL kernel really uses, for every tag it accepts: recovered from the kernel itself
    # (the kernel is fnorm 2 pi / nth times the FFT over the azimuth of the structure function at the chord lengths)
    ri, nr = 0.2, 6
    rad = numpy.asarray(kl.gkl_radii(ri, nr), dtype=float)
    nth = 5 * nr
    fnorm = 0.5 * (-1.0) / (2 * numpy.pi * (1 - ri ** 2))
    th = numpy.arange(nth) * 2 * numpy.pi / nth
    for outer in sorted(set([2.0, 5.0, float(L0)])):
        for tag in ("vonKarman", "karman", "vk", "kolmogorov", "kolstf"):
            ker = numpy.asarray(kl.gkl_kernel(ri, nr, rad.copy(), tag, outer if tag[0] in "vk" and tag != "kolmogorov" and tag != "kolstf" else None))
            o.stat("lib_calls", 1)
            worst = 0.0
            for i in range(nr):
                for j in range(i + 1):
                    used = numpy.real(numpy.fft.ifft(ker[i, j, :])) / (fnorm * 2 * numpy.pi / nth)
                    chord = 0.5 * numpy.sqrt(numpy.maximum(rad[i] ** 2 + rad[j] ** 2 - 2 * rad[i] * rad[j] * numpy.cos(th), 0.0))
                    if tag in ("kolmogorov", "kolstf"):
                        want = numpy.asarray(sc.structure_function_kolmogorov(chord.copy(), 1), dtype=float)
                        tol_ = 1e-3
                    else:
                        want = numpy.asarray(sc.structure_function_vk(chord.copy(), 1, outer), dtype=float)
                        tol_ = 2e-3
                    scale = max(float(numpy.max(numpy.abs(want))), 1e-300)
                    worst = max(worst, float(numpy.max(numpy.abs(used - want))) / scale / tol_)
            o.close("kl_kernel_uses_the_common_structure_function", worst, 1.0, sub="tag=%s:outerscale=%g" % (tag, outer))
    # forms for the KL copy
    for form in FORMS:
        try:
            rr, y, c = _call_forms(lambda r: kl.stf_vonKarman(r, L0), form, R.tolist())
        except ValueError as e:
            o.check("forms_agree", False, sub="stf_vonKarman:" + form, detail=str(e))
            continue
        o.stat("lib_calls", c)
        if len(rr) == 0:
            continue
        base = a[numpy.isin(R, rr)]
        B0 = vk.variance(1.0, L0)
        tol = (1e-5 * numpy.abs(base) + TOL_F32 * B0) if form == "float32_array" else (TOL_EXACT * numpy.abs(base) + TOL_ROUND * B0)
        m = numpy.abs(y - base) / tol
        m = numpy.where(numpy.isfinite(m), m, numpy.inf)
        o.check("forms_agree", bool(m.max() <= 1.0), sub="stf_vonKarman:" + form, measure=float(m.max()), tol=1.0)
    o.outcome(numpy.round(a / vk.structure_function(R, 1.0, L0), 9))
    return o


def _psd(p):
    """the spectrum really used by ft_phase_screen and by the sub-harmonic generator"""
    o = Out()
    from aotools.turbulence import phasescreen
    N = p["N"]
    delta, r0, L0, l0 = p["cfg"]
    # screens that differ in ONE parameter are generated first, in this process (layers of one atmosphere share the
    # grid and differ in r0): the spectrum of the screen under test must not be theirs
    for sib in ((r0 * 2.0, delta, L0, l0), (r0 * 0.37, delta, L0, l0), (r0, delta, L0 * 3.0, l0), (r0, delta, L0, l0 * 0.5), (r0, delta * 2.0, L0, l0)):
        phasescreen.ft_phase_screen(sib[0], N, sib[1], sib[2], sib[3], seed=SeqGenerator(numpy.ones(2 * N * N)))
        phasescreen.ft_sh_phase_screen(sib[0], N, sib[1], sib[2], sib[3], seed=SeqGenerator(numpy.ones(2 * N * N + 54)))
    o.stat("lib_calls", 10)
    P, f, calls, zmax = _extract_psd(N, delta, r0, L0, l0, o)
    o.check("screen_draw_requests", calls == [(N, N), (N, N)], detail="normal() requests %s" % (calls,))
    o.close("screen_zero_draws_zero_screen", zmax, 0.0)
    shape = vk.screen_psd(f, r0, L0, l0, 1.0)
    live = numpy.ones((N, N), bool)
    live[N // 2, N // 2] = False
    c = P[live] / shape[live]
    cm = float(numpy.mean(c))
    o.close("screen_psd_is_von_karman", float((c.max() - c.min()) / cm), 1e-10,
            detail="PSD samples / [r0^(-5/3) exp(-(f/fm)^2) (f^2+1/L0^2)^(-11/6)] range %r..%r" % (c.min(), c.max()))
    o.close("screen_psd_dc_removed", float(P[N // 2, N // 2]), 0.0)
    o.close("screen_psd_constant", abs(cm / vk.C_PHI - 1.0), TOL_HANKEL, detail="constant %r, exact %r" % (cm, vk.C_PHI))
    o.note("screen_psd_constant", cm)
    # sub-harmonic generator: 2 N^2 draws for the FFT screen, then 3 x (9 + 9)
    n = 2 * N * N + 54
    g0 = SeqGenerator(numpy.zeros(n))
    phasescreen.ft_sh_phase_screen(r0, N, delta, L0, l0, seed=g0)
    o.stat("lib_calls", 1)
    want = [(N, N), (N, N)] + [(3, 3)] * 6
    o.check("screen_draw_requests", list(g0.calls) == want, sub="subharmonic", detail="normal() requests %s" % (g0.calls,))
    if list(g0.calls) != want:
        return o
    coords = (numpy.arange(N) - N / 2.0) * delta
    x, y = numpy.meshgrid(coords, coords)
    D = N * delta
    cs, worst_res = [], 0.0
    for lvl in range(1, 4):
        del_f = 1.0 / (3 ** lvl * D)
        for part in (0, 1):
            for idx in range(9):
                i, j = divmod(idx, 3)
                k = 2 * N * N + (lvl - 1) * 18 + part * 9 + idx
                t = phasescreen.ft_sh_phase_screen(r0, N, delta, L0, l0, seed=unit_draws(n, k))
                o.stat("lib_calls", 1)
                if (i, j) == (1, 1):
                    o.close("screen_psd_dc_removed", float(numpy.max(numpy.abs(t))), 0.0, sub="subharmonic")
                    continue
                fxx, fyy = (j - 1) * del_f, (i - 1) * del_f
                ph = 2.0 * numpy.pi * (fxx * x + fyy * y)
                pat = numpy.cos(ph) if part == 0 else -numpy.sin(ph)
                pat = pat - pat.mean()
                amp = float((t * pat).sum() / (pat * pat).sum())
                worst_res = max(worst_res, float(numpy.max(numpy.abs(t - amp * pat)) / abs(amp)))
                cs.append((amp / del_f) ** 2 / float(vk.screen_psd(math.hypot(fxx, fyy), r0, L0, l0, 1.0)))
    cs = numpy.array(cs)
    o.close("subharmonic_response_is_unit_wave", worst_res, 1e-9)
    o.close("subharmonic_psd_same_model", float(numpy.max(numpy.abs(cs / cm - 1.0))), 1e-9,
            detail="sub-harmonic constants %r..%r vs FFT-screen constant %r" % (cs.min(), cs.max(), cm))
    o.outcome(numpy.round(c, 9))
    return o


def _gram(p):
    """Gram matrices of phase covariances between arbitrary points are positive semi-definite:
    every subset (size >= 2) of the 3x3 lattice / every 4-subset of the 4x4 lattice"""
    o = Out()
    turb, sc, kl = _funcs()
    n, sp, r0, L0 = p["n"], p["sp"], p["r0"], p["L0"]
    pts = numpy.array([(i * sp, j * sp) for i in range(n) for j in range(n)], dtype=float)
    if n == 3:
        subsets = [s for k in range(2, 10) for s in itertools.combinations(range(9), k)]
    else:
        subsets = list(itertools.combinations(range(16), 4))
    worst, bad, nsym = float("inf"), [], 0
    for s in subsets:
        q = pts[list(s)]
        d = numpy.hypot(q[:, None, 0] - q[None, :, 0], q[:, None, 1] - q[None, :, 1])
        G = numpy.asarray(turb.phase_covariance(d, r0, L0), dtype=float)
        if not numpy.all(numpy.isfinite(G)):
            bad.append((s, float("nan")))
            continue
        if not numpy.array_equal(G, G.T):
            nsym += 1
        w = numpy.linalg.eigvalsh(0.5 * (G + G.T))
        ratio = float(w[0] / w[-1])
        worst = min(worst, ratio)
        if not ratio >= TOL_GRAM:
            bad.append((s, ratio))
    o.stat("lib_calls", len(subsets))
    o.check("gram_psd", not bad, measure=-worst, tol=-TOL_GRAM, n=len(subsets),
            detail=None if not bad else "%d subsets fail, e.g. points %s: lambda_min/lambda_max=%r" % (len(bad), bad[0][0], bad[0][1]))
    o.check("gram_symmetric", nsym == 0, n=len(subsets), detail="%d Gram matrices not symmetric" % nsym)
    o.outcome([n, sp, r0, L0, round(worst, 9)])
    return o


LEVEL_TEXT = ("Every point of the product separation ladder (13 values quick / 45 thorough, plus 0 and r = 10, 100, "
              "1e4 L0) x r0 (4 / 8) x L0 (6 / 12) x seven input forms is evaluated through all five closed forms and "
              "compared with 2(B(0)-B), the textbook formulas, the Hankel transform of the spectrum observed in the "
              "real screen generators (all unit Gaussian draws for N up to 8 / 16) and each other; Gram matrices "
              "of all 502 subsets of a 3x3 lattice and all 1820 four-point subsets of a 4x4 lattice at 3 spacings.")
LEVEL_NOTE = ("Trusted: scipy.special and the Gauss-Legendre Hankel quadrature of mc/refmodels/vk_closed_forms.py "
              "(cross-checked against its own closed form to 1e-9). Not covered: parameters between lattice points, "
              "0 < r/L0 < 1e-8 (float64 cancellation of the closed form), the limit L0 -> infinity beyond 1e6.")
