"""C06 Seeded screens are reproducible and instances are isolated.

E3: explicit-state BFS over histories that interleave seeded screen objects, seeded
function calls, unseeded calls and noise on NumPy's global random state.  Reference
model: a table of the exact bytes every seeded artefact must have (kind, parameters, seed,
number of rows added); EVERY table entry is generated in its own pristine forked process,
so nothing another call left behind (caches, shared generators) can leak into it.  After
EVERY transition every live seeded object and every seeded function result must equal its
table entry bit for bit, and seeded operations must leave the global random state untouched.

Four operation families share the machinery:
  main   two seeds, both screen kinds, Generator-as-seed, unseeded objects, global-RNG noise
  vkp    von Karman screens that differ from a base screen in exactly ONE parameter
         (r0, L0, pixel scale, size, stencil depth), same seed -> exposes state keyed on a subset
         of the parameters (e.g. a cache of the A/B matrices that forgets r0)
  frp    the same for the Fried variant
  ftp    seeded FFT screens (plain and sub-harmonic) under single-parameter variations
  alias  a small alphabet (one seeded screen of each kind, seeded and unseeded FFT calls, an unseeded screen,
         a reset of the global RNG) explored with PROCESS snapshots: the state reached by a history is the
         process that executed it (fork), so links between live objects and state hidden in the library's
         modules are preserved exactly; the other families use copy.deepcopy snapshots, which are much faster
         but cut such links
"""
import itertools

import numpy

from mc import Out, Case
from mc import statespace as ss
from mc.core import digest
from mc.isolate import isolated_map

PROPERTY = "C06"
LEVEL = "model_checking"
ISOLATE_CASES = True     # every case starts from a pristine process: verdicts do not depend on which case ran before
ENGINES = ["E3-explicit-state-history-search", "E4-schedule-exploration"]
TECHNIQUE = ("explicit-state breadth-first search over interleaved operation histories on several live screen "
             "objects and NumPy's global RNG, each reached state compared bit-for-bit with a reference table "
             "whose every entry was generated in its own pristine process; plus exhaustive single-preemption "
             "interleaving of pairs of calls at library-line granularity (one call run to completion at every line "
             "of the other), seed / call-form / result-ownership enumerations")
RULE = ("case = (family, first operation of the history); from there BFS over the family's whole operation "
        "alphabet to the depth bound, de-duplicated on the canonical state (seeded objects by content, unseeded "
        "objects by kind and age, global RNG state, module globals); non-trivial = transitions whose history "
        "contains at least one operation on ANOTHER object / a noise operation before the reproduction")
ASSUMPTIONS = [
    "unseeded objects draw from OS entropy; their content is abstracted to (kind, rows added) in the state hash - "
    "sound for this property because every executed transition re-checks every seeded object against the table",
    "depth bound per tier; at most one live object per slot",
    "threads: two calls interleaved with ONE preemption at line granularity are explored exhaustively (mc/reentry.py: "
    "the other call is run to completion at every library line, which is what a second interpreter thread does "
    "between two lines when the library holds no lock); more preemptions, and preemption inside C code that "
    "releases the interpreter lock, are not modelled; other processes: forked siblings and fresh interpreters only",
    "small screens (vK 4x4/5x5, Fried 3x3/5x5, FFT 4x4/8x8): the property is about state isolation, not size",
    "'unseeded calls differ' is required in every history, including histories that put NumPy's global generator "
    "into the same state before both calls (the property quantifies over changes to the global state)",
]
LEVEL_TEXT = ("Every interleaving (to depth 4 quick / 6 thorough in the main family, 4/5 in the parameter-variant "
              "families) of constructing/advancing seeded infinite screens, seeded FFT screens, unseeded calls and "
              "global-RNG noise operations is executed on the real code; all seeded artefacts are compared bit for "
              "bit with references generated in pristine processes after every transition, and the global random "
              "state and the module globals are part of the explicit state. Two-call interleavings: all 64 ordered "
              "pairs of 8 colliding operations x every library line of the first (6 912 schedules).")
LEVEL_NOTE = ("Trusted: copy.deepcopy snapshots, os.fork isolation, numpy bit comparison. Not covered: histories "
              "deeper than the bound, more than one object per slot, parameters other than the listed ones.")

VKB = dict(nx=4, ps=0.1, r0=0.2, L0=25.0, sd=2)
FRB = dict(nx=3, ps=0.1, r0=0.2, L0=25.0, sd=4)
FTB = dict(r0=0.2, N=4, delta=0.1, L0=25.0, l0=0.01)


def _var(base, **kw):
    d = dict(base)
    d.update(kw)
    return d


# slot -> (kind, params, seed spec)
SLOTS = {
    "main": {
        "vk1": ("vk", VKB, 1), "vk2": ("vk", VKB, 2), "fr1": ("fr", FRB, 1), "vkG": ("vk", VKB, "G1"),
        "vkN": ("vk", VKB, None),
    },
    "vkp": {
        "vkA": ("vk", VKB, 1), "vkB": ("vk", _var(VKB, r0=0.1), 1), "vkC": ("vk", _var(VKB, L0=10.0), 1),
        "vkD": ("vk", _var(VKB, ps=0.2), 1), "vkE": ("vk", _var(VKB, nx=5), 1), "vkF": ("vk", _var(VKB, sd=1), 1),
    },
    "frp": {
        "frA": ("fr", FRB, 1), "frB": ("fr", _var(FRB, r0=0.1), 1), "frC": ("fr", _var(FRB, L0=10.0), 1),
        "frD": ("fr", _var(FRB, ps=0.2), 1), "frE": ("fr", _var(FRB, nx=5), 1), "frF": ("fr", _var(FRB, sd=2), 1),
    },
    "ftp": {},
    # explored with process snapshots (fork), see _hist: the operations most likely to be linked through state
    # the library keeps outside the objects (one seeded screen of each kind, unseeded screens and calls)
    "alias": {"vk1": ("vk", VKB, 1), "fr1": ("fr", FRB, 1), "vkN": ("vk", VKB, None)},
}
# function ops -> (function, params, seed spec)
FUNCS = {
    "main": {"ft1": ("ft", FTB, 1), "ftsh1": ("ftsh", FTB, 1), "ftG": ("ft", FTB, "G7"),
             "ftN": ("ft", FTB, None), "ftshN": ("ftsh", FTB, None)},
    "vkp": {}, "frp": {},
    "ftp": {},
    "alias": {"ft1": ("ft", FTB, 1), "ftsh1": ("ftsh", FTB, 1), "ftN": ("ft", FTB, None), "ftshN": ("ftsh", FTB, None)},
}
for _f in ("ft", "ftsh"):
    for _name, _p in (("A", FTB), ("B", _var(FTB, r0=0.1)), ("C", _var(FTB, delta=0.2)), ("D", _var(FTB, L0=10.0)),
                      ("E", _var(FTB, l0=0.1)), ("F", _var(FTB, N=8))):
        FUNCS["ftp"][_f + _name] = (_f, _p, 1)
NOISE_OPS = ["np_seed0", "np_seed5", "np_normal3", "opt_grouping", "np_shuffle"]


def _depth(tier, family):
    if family == "main":
        return 4 if tier == "quick" else 6
    if family == "ftp":
        return 3 if tier == "quick" else 4
    if family == "alias":
        return 3 if tier == "quick" else 4
    return 4 if tier == "quick" else 5


BIG_SEEDS = [2 ** 31, 2 ** 32, 2 ** 32 + 1, 2 ** 33, 2 ** 63 - 1, 2 ** 64, 2 ** 64 + 3, 10 ** 30]


def BOUNDS(tier):
    return {"depth": {f: _depth(tier, f) for f in SLOTS}, "families": {f: _ops(f) for f in SLOTS},
            "distinct_seeds": "0..31 and " + ", ".join(str(s) for s in BIG_SEEDS)}


def _ops(family):
    ops = ["new_" + s for s in SLOTS[family]] + ["row_" + s for s in SLOTS[family]] + list(FUNCS[family])
    if family == "main":
        ops += NOISE_OPS
    if family == "alias":
        ops += ["np_seed0"]
    return ops


def _seed_obj(spec):
    if isinstance(spec, str) and spec.startswith("G"):
        return numpy.random.Generator(numpy.random.PCG64(int(spec[1:])))
    return spec


def _new(kind, p, seed):
    from aotools.turbulence import infinitephasescreen as ips
    if kind == "vk":
        return ips.PhaseScreenVonKarman(p["nx"], p["ps"], p["r0"], p["L0"], random_seed=_seed_obj(seed), n_columns=p["sd"])
    return ips.PhaseScreenKolmogorov(p["nx"], p["ps"], p["r0"], p["L0"], random_seed=_seed_obj(seed),
                                     stencil_length_factor=p["sd"])


def _fn(kind, p, seed):
    from aotools.turbulence import phasescreen as ps
    f = ps.ft_phase_screen if kind == "ft" else ps.ft_sh_phase_screen
    return f(p["r0"], p["N"], p["delta"], p["L0"], p["l0"], seed=_seed_obj(seed))


def _bytes(a):
    a = numpy.asarray(a)
    return (str(a.dtype), a.shape, numpy.ascontiguousarray(a).tobytes())


# ----------------------------------------------------------------------------- reference table

def _table_slot(family, slot, depth):
    kind, p, seed = SLOTS[family][slot]
    obj = _new(kind, p, seed)
    out = [_bytes(obj.scrn)]
    for _ in range(depth):
        obj.add_row()
        out.append(_bytes(obj.scrn))
    return out


def _table_func(family, op):
    kind, p, seed = FUNCS[family][op]
    return _bytes(_fn(kind, p, seed))


_TABLE = None


def setup(tier):
    """every reference artefact in its own pristine forked child of this (pristine) parent"""
    global _TABLE
    jobs, keys = [], []
    for family in SLOTS:
        for slot, (kind, p, seed) in SLOTS[family].items():
            if seed is None:
                continue
            jobs.append((0, family, slot, _depth(tier, family)))
            keys.append((family, slot))
        for op, (kind, p, seed) in FUNCS[family].items():
            if seed is None:
                continue
            jobs.append((1, family, op, 0))
            keys.append((family, op))
    for slot, (kind, prm, n_rows) in LONG.items():
        jobs.append((2, "long", slot, n_rows))
        keys.append(("long", slot))
    res = isolated_map(_table_job, jobs)
    _TABLE = dict(zip(keys, res))


def _table_job(which, family, name, depth):
    if which == 2:
        kind, prm, n_rows = LONG[name]
        obj = _new(kind, prm, 1)
        out = [_bytes(obj.scrn)]
        for _ in range(n_rows):
            obj.add_row()
            out.append(_bytes(obj.scrn))
        return out
    return _table_slot(family, name, depth) if which == 0 else _table_func(family, name)


# long extrusions: several times the working-array length (anything buffered per block of rows shows up)
LONG = {"vk": ("vk", VKB, 3 * 4 + 3), "vk_big": ("vk", _var(VKB, nx=7), 3 * 7 + 2), "fr": ("fr", FRB, 3 * 12 + 3),
        "fr_sd1": ("fr", _var(FRB, sd=1), 4 * 3 + 2)}


def cases(tier):
    for family in SLOTS:
        for op in _ops(family):
            if op.startswith("row_"):
                continue     # no object alive at the root
            yield Case("hist:%s:first=%s:depth=%d" % (family, op, _depth(tier, family)),
                       {"kind": "hist", "family": family, "first": op, "depth": _depth(tier, family)}, True)
    for kind in ("ft", "ftsh", "vk", "fried"):
        yield Case("distinct_seeds:%s" % kind, {"kind": "distinct", "what": kind})
    yield Case("unseeded_differ", {"kind": "unseeded"})
    yield Case("unseeded_differ_in_sibling_processes", {"kind": "siblings"})
    yield Case("seeded_reproducible_across_interpreters", {"kind": "interp"})
    for slot in LONG:
        yield Case("long_rows:%s" % slot, {"kind": "long", "slot": slot})
    yield Case("call_forms", {"kind": "callforms"})
    for what in HELD:
        if tier == "thorough" or not what.endswith(":t"):
            yield Case("held:%s" % what, {"kind": "held", "what": what})
    for kind in ("vk", "fr"):
        yield Case("restart:%s" % kind, {"kind": "restart", "what": kind})
    for a in REENTRY_OPS:
        yield Case("preempt:A=%s" % a, {"kind": "preempt", "a": a})


class _W(ss.World):
    """world whose unseeded objects are abstracted in the key"""

    def components(self):
        c = {}
        fam = self.family
        for k, v in self.objects.items():
            if k == "rows":
                c["rows"] = repr(sorted(v.items()))
            elif SLOTS[fam][k][2] is None:
                c["obj:" + k] = "unseeded:rows=%d" % self.objects["rows"].get(k, 0)
            else:
                c["obj:" + k] = ss.obj_digest(v)
        st = numpy.random.get_state()
        c["numpy.global_rng"] = digest([st[0], st[1], st[2], st[3], st[4]])
        c["module_globals"] = ss.module_globals_digest(self.modules)
        c["process_settings"] = ss.process_settings()
        return c


def evaluate(p):
    if p["kind"] == "hist":
        return _hist(p)
    if p["kind"] == "distinct":
        return _distinct(p["what"])
    if p["kind"] == "long":
        return _long(p["slot"])
    if p["kind"] == "siblings":
        return _siblings()
    if p["kind"] == "interp":
        return _interp()
    if p["kind"] == "callforms":
        return _callforms()
    if p["kind"] == "held":
        return _held(p["what"])
    if p["kind"] == "restart":
        return _restart(p["what"])
    if p["kind"] == "preempt":
        return _preempt(p["a"])
    return _unseeded()


def _apply_factory(family):
    def _apply(w, op):
        rows = w.objects["rows"]
        if op.startswith("new_"):
            slot = op[4:]
            w.objects[slot] = _new(*SLOTS[family][slot])
            rows[slot] = 0
            return None
        if op.startswith("row_"):
            slot = op[4:]
            w.objects[slot].add_row()
            rows[slot] += 1
            return None
        if op in FUNCS[family]:
            return _fn(*FUNCS[family][op])
        if op == "np_seed0":
            numpy.random.seed(0)
        elif op == "np_seed5":
            numpy.random.seed(5)
        elif op == "np_normal3":
            numpy.random.standard_normal(3)
        elif op == "np_shuffle":
            numpy.random.shuffle(numpy.arange(5))
        elif op == "opt_grouping":
            from aotools.turbulence import profile_compression as pc
            pc.optimal_grouping(2, 3, numpy.array([1., 2., 1., 3., 2., 1.]) * 1e-15,
                                numpy.linspace(0, 10000., 6))
        return None
    return _apply


def _hist(p):
    from aotools.turbulence import infinitephasescreen as ips, phasescreen, turb
    o = Out()
    depth, family = p["depth"], p["family"]
    table = _TABLE
    # compile the library's numba kernels once in this process: forked children inherit the compiled code, a
    # kernel first used inside a child would be compiled again in every child (the calls are part of the history
    # prefix of every explored history: a screen of another geometry and one optimal grouping)
    if family == "alias":
        _new("vk", _var(VKB, nx=3), 99)
    numpy.random.seed(12345)            # owned: the initial global state is part of the input
    world = _W({"rows": {}}, modules=(ips, phasescreen, turb))
    world.family = family
    apply_op = _apply_factory(family)
    seeded_slots = [s for s, v in SLOTS[family].items() if v[2] is not None]
    seeded_funcs = [f for f, v in FUNCS[family].items() if v[2] is not None]
    seeded_ops = set(["new_" + s for s in seeded_slots] + ["row_" + s for s in seeded_slots] + seeded_funcs)
    interleaved = {"n": 0}

    def alphabet(w):
        live = w.objects["rows"]
        out = []
        for op in _ops(family):
            if op.startswith("row_"):
                slot = op[4:]
                if slot not in live or live[slot] >= depth:
                    continue
            out.append(op)
        return out

    def verify(hist, op, pre, w, result, loop, o=o):
        sub = "h=%s" % ",".join(hist + (op,))
        rows = w.objects["rows"]
        for slot in seeded_slots:
            if slot in rows:
                o.check("seeded_object_equals_isolated_reference",
                        _bytes(w.objects[slot].scrn) == table[(family, slot)][rows[slot]], sub=sub + ":" + slot,
                        detail={"slot": slot, "rows": rows[slot], "params": SLOTS[family][slot][1]})
        if op in seeded_funcs:
            o.check("seeded_function_equals_isolated_reference", _bytes(result) == table[(family, op)], sub=sub,
                    detail={"params": FUNCS[family][op][1]})
        post = w.components()
        if op in seeded_ops:
            o.check("seeded_op_leaves_global_rng_untouched",
                    pre["numpy.global_rng"] == post["numpy.global_rng"], sub=sub)
        # an operation on one object never changes another object
        touched = op[4:] if (op.startswith("new_") or op.startswith("row_")) else None
        others = [k for k in ss.changed(pre, post)
                  if k.startswith("obj:") and k != "obj:" + str(touched)]
        o.check("other_objects_untouched", not others, sub=sub, detail=others)
        o.check("process_settings_untouched", pre.get("process_settings") == post.get("process_settings"), sub=sub)

    # Snapshots are OS processes (fork): the state reached by a history is the process that executed it, so
    # aliasing between a screen's generator and anything the library keeps in its modules survives - a deepcopy
    # snapshot would silently cut such links (a seeded 'module-level current generator' was missed that way).
    import shutil
    import tempfile
    first = p["first"]
    pre = world.components()
    res = apply_op(world, first)
    verify((), first, pre, world, res, False)
    if family != "alias":
        # deepcopy snapshots: fast, complete for state held in the objects, the global RNG and module globals
        def on_t(hist, op, pre, w, result, loop):
            verify((first,) + hist, op, pre, w, result, loop)
            if len(set((first,) + hist + (op,))) > 1:
                o.stat("nontrivial", 1)
        st = ss.bfs(world, alphabet, apply_op, on_t, depth - 1)
        o.stat("states", st["states"] + 1)
        o.stat("transitions", st["transitions"] + 1)
        o.stat("self_loops", st["self_loops"])
        o.stat("traces_validated_against_impl", st["transitions"] + 1)
        o.outcome(sorted((str(k), digest(v)) for k, v in table.items() if k[0] == family))
        return o
    seen_dir = tempfile.mkdtemp(prefix="c06_seen_")
    try:
        ss._claim(seen_dir, world.key(), 1)

        def check(hist, op, pre, w, result, loop, out):
            verify(hist, op, pre, w, result, loop, o=out)
            if len(set(hist + (op,))) > 1:
                out.stat("nontrivial", 1)
        sub, st = ss.fork_search(world, alphabet, apply_op, check, depth, seen_dir, hist=(first,))
    finally:
        shutil.rmtree(seen_dir, ignore_errors=True)
    o.merge(sub)
    o.stat("process_snapshot_transitions", st["transitions"])
    o.stat("states", st["states"] + 2)
    o.stat("transitions", st["transitions"] + 1)
    o.stat("self_loops", st["self_loops"])
    o.stat("traces_validated_against_impl", st["transitions"] + 1)
    o.outcome(sorted((str(k), digest(v)) for k, v in table.items() if k[0] == family))
    return o


def _long(slot):
    """every row of a long extrusion (several working-array lengths) equals the pristine reference, with noise
    operations (global RNG, unseeded calls, other screens) interleaved between the rows"""
    from aotools.turbulence import phasescreen as ps
    o = Out()
    kind, prm, n_rows = LONG[slot]
    table = _TABLE[("long", slot)]
    ft = (FTB["r0"], FTB["N"], FTB["delta"], FTB["L0"], FTB["l0"])
    for mode in ("plain", "interleaved"):
        obj = _new(kind, prm, 1)
        o.check("long_extrusion_equals_isolated_reference", _bytes(obj.scrn) == table[0], sub="%s:row=0" % mode)
        for r in range(1, n_rows + 1):
            if mode == "interleaved":
                which = r % 4
                if which == 0:
                    numpy.random.seed(r)
                elif which == 1:
                    ps.ft_phase_screen(*ft)
                elif which == 2:
                    _new("vk" if kind == "fr" else "fr", FRB if kind == "vk" else VKB, 1).add_row()
                else:
                    ps.ft_sh_phase_screen(*ft, seed=r)
            obj.add_row()
            o.check("long_extrusion_equals_isolated_reference", _bytes(obj.scrn) == table[r], sub="%s:row=%d" % (mode, r))
        o.stat("lib_calls", n_rows + 1)
    o.stat("nontrivial", n_rows)
    return o


# ----------------------------------------------------------------------------- ways of calling
# (added after wave-5 seeded changes: a parameter inserted before `seed`, a scratch buffer shared between large
#  screens, a restart that kept the old stream)

def _callforms():
    """the seed handed over positionally (documented parameter order of the pinned revision), by keyword, and
    together with every other argument by keyword gives the same bytes, for the four seeded entry points"""
    from aotools.turbulence import infinitephasescreen as ips, phasescreen as ps
    o = Out()
    ft = (FTB["r0"], FTB["N"], FTB["delta"], FTB["L0"], FTB["l0"])
    ftk = dict(r0=FTB["r0"], N=FTB["N"], delta=FTB["delta"], L0=FTB["L0"], l0=FTB["l0"])
    for seed in (0, 1, 7):
        for name, f in (("ft", ps.ft_phase_screen), ("ftsh", ps.ft_sh_phase_screen)):
            ref = _bytes(f(*ft, seed=seed))
            o.check("positional_seed_same_bytes", _bytes(f(*(ft + (None, seed)))) == ref, sub="%s:seed=%d" % (name, seed))
            o.check("all_keywords_same_bytes", _bytes(f(seed=seed, FFT=None, **ftk)) == ref, sub="%s:seed=%d" % (name, seed))
            o.check("seeded_calls_repeat", _bytes(f(*ft, seed=seed)) == ref, sub="%s:seed=%d" % (name, seed))
        for name, cls, b, extra in (("vk", ips.PhaseScreenVonKarman, VKB, "n_columns"),
                                    ("fr", ips.PhaseScreenKolmogorov, FRB, "stencil_length_factor")):
            def rows(obj):
                out = [_bytes(obj.scrn)]
                for _ in range(3):
                    obj.add_row()
                    out.append(_bytes(obj.scrn))
                return out
            ref = rows(cls(b["nx"], b["ps"], b["r0"], b["L0"], random_seed=seed, **{extra: b["sd"]}))
            o.check("positional_seed_same_bytes", rows(cls(b["nx"], b["ps"], b["r0"], b["L0"], seed, b["sd"])) == ref,
                    sub="%s:seed=%d" % (name, seed))
            o.check("all_keywords_same_bytes",
                    rows(cls(nx_size=b["nx"], pixel_scale=b["ps"], r0=b["r0"], L0=b["L0"], random_seed=seed, **{extra: b["sd"]})) == ref,
                    sub="%s:seed=%d" % (name, seed))
    o.stat("lib_calls", 3 * (2 * 4 + 2 * 3))
    return o


# results that the caller still holds while later screens are made (sizes up to FFT grids of 1024 / 1028 points)
HELD = ["ft:8", "ftsh:8", "ft:130", "ftsh:130", "ft:1024", "ftsh:1024", "vk:9", "fr:9", "fr:257", "ft:2048:t", "vk:130:t"]


def _held(what):
    """hold the result of seed 1; make seed 2, seed 1 again and an unseeded one of the same size; the held arrays
    are still what they were, seed 1 repeats, seed 2 and the unseeded one differ"""
    from aotools.turbulence import phasescreen as ps
    o = Out()
    kind, n = what.split(":")[0], int(what.split(":")[1])

    def make(seed):
        if kind in ("ft", "ftsh"):
            f = ps.ft_phase_screen if kind == "ft" else ps.ft_sh_phase_screen
            return None, f(FTB["r0"], n, FTB["delta"], FTB["L0"], FTB["l0"], seed=seed)
        obj = _new(kind, _var(VKB if kind == "vk" else FRB, nx=n), seed)
        return obj, obj.scrn

    held = []
    for seed in (1, 2, 1, None, 2):
        obj, a = make(seed)
        held.append((seed, obj, a, _bytes(a)))
        for k, (sd, _, arr, b) in enumerate(held):
            o.check("held_result_not_overwritten", _bytes(arr) == b, sub="result %d (seed %s) after call %d" % (k, sd, len(held)))
    o.check("same_seed_same_bytes", held[0][3] == held[2][3] and held[1][3] == held[4][3])
    if kind in ("ft", "ftsh"):
        # the returned array belongs to the caller: converting it in place (radians to nanometres, piston removal)
        # does not change what the next call with the same seed returns
        for k in (0, 1):
            arr = held[k][2]
            if isinstance(arr, numpy.ndarray) and arr.flags.writeable:
                arr *= 79.6
                arr -= arr.mean()
        again = [make(1)[1], make(2)[1]]
        o.check("result_owned_by_caller", _bytes(again[0]) == held[2][3] and _bytes(again[1]) == held[4][3])
    o.check("different_seeds_give_different_screens", held[0][3] != held[1][3])
    o.check("unseeded_differs", held[3][3] not in (held[0][3], held[1][3]))
    if kind in ("vk", "fr"):
        # rows added to one instance do not move the others, and equal-seed instances stay equal row by row
        for step in range(3):
            held[0][1].add_row()
            held[2][1].add_row()
            o.check("same_seed_same_bytes", _bytes(held[0][1].scrn) == _bytes(held[2][1].scrn), sub="row %d" % (step + 1))
            o.check("held_result_not_overwritten", _bytes(held[1][1].scrn) == held[1][3] and _bytes(held[4][1].scrn) == held[4][3],
                    sub="other instances after row %d" % (step + 1))
    o.stat("lib_calls", 5)
    return o


def _restart(kind):
    """make_initial_screen() on a live integer-seeded instance restarts it: the instance then is what a fresh
    instance with its current parameters and seed is, and evolves like one (also after random_seed was reassigned)"""
    o = Out()
    base = VKB if kind == "vk" else FRB

    def rows(obj, n=3):
        out = [_bytes(obj.scrn)]
        for _ in range(n):
            obj.add_row()
            out.append(_bytes(obj.scrn))
        return out

    for seed, pre in itertools.product((1, 2), (0, 1, 3)):
        ref = rows(_new(kind, base, seed))
        obj = _new(kind, base, seed)
        for _ in range(pre):
            obj.add_row()
        obj.make_initial_screen()
        o.check("restart_equals_fresh_instance", rows(obj) == ref, sub="seed=%d:rows_before=%d" % (seed, pre))
        obj2 = _new(kind, base, 3 - seed)
        for _ in range(pre):
            obj2.add_row()
        obj2.random_seed = seed
        obj2.make_initial_screen()
        o.check("restart_equals_fresh_instance", rows(obj2) == ref, sub="seed reassigned to %d:rows_before=%d" % (seed, pre))
    o.stat("lib_calls", 18)
    return o


# ----------------------------------------------------------------------------- two calls interleaved line by line
# "irrespective of which other library calls ... are interleaved": besides whole operations (the history search
# above), one call B run to completion at EVERY library line of another call A - all schedules of two threads with
# one preemption (mc/reentry.py).  Operations are chosen to collide: equal grid sizes, equal seeds, equal classes.

def _reentry_thunks():
    from aotools.turbulence import phasescreen as ps

    def screen_rows(kind, base, seed, n=2):
        def f():
            obj = _new(kind, base, seed)
            out = [_bytes(obj.scrn)]
            for _ in range(n):
                obj.add_row()
                out.append(_bytes(obj.scrn))
            return out
        return f
    ft = (FTB["r0"], FTB["N"], FTB["delta"], FTB["L0"], FTB["l0"])
    return {
        "ft:seed=1": lambda: _bytes(ps.ft_phase_screen(*ft, seed=1)),
        "ft:seed=2:r0=0.1": lambda: _bytes(ps.ft_phase_screen(0.1, *ft[1:], seed=2)),
        "ftsh:seed=1": lambda: _bytes(ps.ft_sh_phase_screen(*ft, seed=1)),
        "ftsh:seed=3:L0=10": lambda: _bytes(ps.ft_sh_phase_screen(ft[0], ft[1], ft[2], 10.0, ft[4], seed=3)),
        "vk:seed=1": screen_rows("vk", VKB, 1),
        "vk:seed=2:r0=0.1": screen_rows("vk", _var(VKB, r0=0.1), 2),
        "fr:seed=1": screen_rows("fr", FRB, 1),
        "fr:seed=2:L0=10": screen_rows("fr", _var(FRB, L0=10.0), 2),
    }


REENTRY_OPS = ["ft:seed=1", "ft:seed=2:r0=0.1", "ftsh:seed=1", "ftsh:seed=3:L0=10", "vk:seed=1", "vk:seed=2:r0=0.1",
               "fr:seed=1", "fr:seed=2:L0=10"]


def _preempt(a):
    from mc import reentry
    o = Out()
    th = _reentry_thunks()
    solo = {k: f() for k, f in th.items()}
    again = {k: f() for k, f in th.items()}
    o.check("seeded_calls_repeat", solo == again)
    A = th[a]
    points = 0
    for b in REENTRY_OPS:
        B = th[b]
        badA, badB, n = [], [], 0
        for k, where, ra, rb in reentry.explore(A, B):
            n += 1
            if ra != solo[a]:
                badA.append(where)
            if rb != solo[b]:
                badB.append(where)
        points += n
        o.check("result_independent_of_where_another_call_ran", not badA, sub="B=%s" % b, n=max(n, 1),
                detail=None if not badA else "A differs when B runs at %s" % ", ".join(sorted(set(badA))[:8]))
        o.check("interleaved_call_unaffected", not badB, sub="B=%s" % b, n=max(n, 1),
                detail=None if not badB else "B differs when run at %s" % ", ".join(sorted(set(badB))[:8]))
        o.stat("schedules_explored", n)
        o.stat("lib_calls", 2 * n)
    o.stat("transitions", points)
    o.stat("nontrivial", 1)
    return o


def _distinct(what):
    from aotools.turbulence import infinitephasescreen as ips, phasescreen as ps
    o = Out()
    seen = {}
    ft = (FTB["r0"], FTB["N"], FTB["delta"], FTB["L0"], FTB["l0"])
    for seed in list(range(32)) + BIG_SEEDS:
        if what == "ft":
            a = ps.ft_phase_screen(*ft, seed=seed)
        elif what == "ftsh":
            a = ps.ft_sh_phase_screen(*ft, seed=seed)
        elif what == "vk":
            s = _new("vk", VKB, seed)
            s.add_row()
            a = s.scrn
        else:
            s = _new("fr", FRB, seed)
            s.add_row()
            a = s.scrn
        d = digest(a)
        o.check("different_seeds_give_different_screens", d not in seen, sub="%s:seed=%d" % (what, seed),
                detail={"same_as_seed": seen.get(d)})
        seen[d] = seed
        # the same seed again gives the same bytes
        if what == "ft":
            b = ps.ft_phase_screen(*ft, seed=seed)
        elif what == "ftsh":
            b = ps.ft_sh_phase_screen(*ft, seed=seed)
        elif what == "vk":
            s = _new("vk", VKB, seed)
            s.add_row()
            b = s.scrn
        else:
            s = _new("fr", FRB, seed)
            s.add_row()
            b = s.scrn
        o.check("same_seed_same_bytes", _bytes(a) == _bytes(b), sub="%s:seed=%d" % (what, seed))
    # every kind of seed numpy.random.default_rng accepts (numpy integer scalars, sequences, arrays): the same
    # seed object twice gives the same bytes
    def make(seed):
        if what == "ft":
            return ps.ft_phase_screen(*ft, seed=seed)
        if what == "ftsh":
            return ps.ft_sh_phase_screen(*ft, seed=seed)
        s_ = _new("vk" if what == "vk" else "fr", VKB if what == "vk" else FRB, seed)
        s_.add_row()
        return s_.scrn
    specials = {"np.int64(5)": lambda: numpy.int64(5), "np.int32(5)": lambda: numpy.int32(5),
                "np.uint8(5)": lambda: numpy.uint8(5), "list[3,4]": lambda: [3, 4], "tuple(1,2,3)": lambda: (1, 2, 3),
                "array[7,8]": lambda: numpy.array([7, 8]), "int 0": lambda: 0, "np.int64(0)": lambda: numpy.int64(0)}
    for name, mk in specials.items():
        a, b = make(mk()), make(mk())
        o.check("same_seed_same_bytes", _bytes(a) == _bytes(b), sub="%s:seed=%s" % (what, name))
    # seed sequences and their spawned children (the documented way to get independent streams for parallel runs):
    # every child gives its own screen, different from its siblings, its parent and the plain integer; twice the same
    kids = lambda: numpy.random.SeedSequence(5).spawn(3)
    fam = {"int 5": lambda: 5, "SeedSequence(5)": lambda: numpy.random.SeedSequence(5),
           "child0": lambda: kids()[0], "child1": lambda: kids()[1], "child2": lambda: kids()[2],
           "grandchild": lambda: kids()[1].spawn(2)[1], "SeedSequence(5, spawn_key=(7,))": lambda: numpy.random.SeedSequence(5, spawn_key=(7,))}
    got = {}
    for name, mk in fam.items():
        a, b = make(mk()), make(mk())
        o.check("same_seed_same_bytes", _bytes(a) == _bytes(b), sub="%s:seed=%s" % (what, name))
        got[name] = digest(a)
    names = [n_ for n_ in fam if n_ != "SeedSequence(5)"]      # SeedSequence(5) and the integer 5 are the same seed
    for i_, n1 in enumerate(names):
        for n2 in names[i_ + 1:]:
            o.check("different_seeds_give_different_screens", got[n1] != got[n2], sub="%s:%s vs %s" % (what, n1, n2))
    o.stat("lib_calls", 2 * len(fam))
    o.stat("lib_calls", 2 * (32 + len(BIG_SEEDS)) + 2 * len(specials))
    return o


def _unseeded():
    from aotools.turbulence import phasescreen as ps
    o = Out()
    ft = (FTB["r0"], FTB["N"], FTB["delta"], FTB["L0"], FTB["l0"])

    def rows(kind, base):
        def f():
            s = _new(kind, base, None)
            a = numpy.array(s.scrn)
            s.add_row()
            return numpy.concatenate([a.ravel(), numpy.asarray(s.scrn).ravel()])
        return f
    saved = numpy.random.get_state()
    for name, f in (("ft", lambda: ps.ft_phase_screen(*ft)), ("ftsh", lambda: ps.ft_sh_phase_screen(*ft)),
                    ("vk", rows("vk", VKB)), ("fried", rows("fr", FRB))):
        # every way the history can prepare NumPy's global generator before the two calls
        for prep_name, prep in (("none", lambda: None), ("np_seed3_before_each", lambda: numpy.random.seed(3)),
                                ("set_state_before_each", lambda: numpy.random.set_state(saved))):
            prep()
            a = f()
            prep()
            b = f()
            o.check("unseeded_calls_differ", _bytes(a) != _bytes(b), sub="%s:global=%s" % (name, prep_name))
    o.stat("lib_calls", 24)
    return o


def replay_one(p, failure):
    """Plain re-execution of one recorded history (no search): the operations named in the failure's sub id
    are applied one after the other in a fresh process and every seeded artefact is compared with the table."""
    from mc.isolate import isolated
    sub = failure.get("sub") or ""
    if p["kind"] != "hist" or not sub.startswith("h="):
        o = evaluate(p)
        ids = ["%s|%s" % (f["clause"], f["sub"]) for f in o.failures]
        return ("%s|%s" % (failure["clause"], failure["sub"])) in ids, "re-evaluated whole case"
    ops = sub[2:].split(":")[0].split(",")
    return isolated(_replay_history, p["family"], ops, failure["clause"])


def _replay_history(family, ops, clause):
    from aotools.turbulence import infinitephasescreen as ips, phasescreen, turb
    numpy.random.seed(12345)
    world = _W({"rows": {}}, modules=(ips, phasescreen, turb))
    world.family = family
    apply_op = _apply_factory(family)
    bad = []
    for k, op in enumerate(ops):
        pre = world.components()
        res = apply_op(world, op)
        post = world.components()
        rows = world.objects["rows"]
        for slot, (kind, prm, seed) in SLOTS[family].items():
            if seed is not None and slot in rows and _bytes(world.objects[slot].scrn) != _TABLE[(family, slot)][rows[slot]]:
                bad.append("step %d (%s): %s differs from its isolated reference" % (k, op, slot))
        if op in FUNCS[family] and FUNCS[family][op][2] is not None and _bytes(res) != _TABLE[(family, op)]:
            bad.append("step %d (%s): result differs from its isolated reference" % (k, op))
        touched = op[4:] if (op.startswith("new_") or op.startswith("row_")) else None
        others = [c for c in ss.changed(pre, post) if c.startswith("obj:") and c != "obj:" + str(touched)]
        if others:
            bad.append("step %d (%s): changed %s" % (k, op, others))
        if pre["numpy.global_rng"] != post["numpy.global_rng"] and (op in FUNCS[family] and FUNCS[family][op][2] is not None):
            bad.append("step %d (%s): global RNG touched" % (k, op))
    return bool(bad), "history %s -> %s" % (ops, bad or "all seeded artefacts equal their isolated references")


def _unseeded_digests():
    from aotools.turbulence import phasescreen as ps
    ft = (FTB["r0"], FTB["N"], FTB["delta"], FTB["L0"], FTB["l0"])
    a = _new("vk", VKB, None)
    a.add_row()
    b = _new("fr", FRB, None)
    b.add_row()
    return {"ft": digest(ps.ft_phase_screen(*ft)), "ftsh": digest(ps.ft_sh_phase_screen(*ft)),
            "vk": digest(numpy.array(a.scrn)), "fried": digest(numpy.array(b.scrn))}


def _siblings():
    """Schedules: processes forked from one parent that has already imported (and used) the library are the
    usual way to generate screens in parallel; unseeded screens made by such siblings must differ from each other
    (a generator created once at import, or in the parent, would be duplicated by fork)."""
    from mc.isolate import isolated_map
    o = Out()
    _unseeded_digests()                      # the parent has used the library before forking
    kids = isolated_map(_unseeded_digests, [() for _ in range(3)], jobs=3)
    for name in ("ft", "ftsh", "vk", "fried"):
        vals = [k[name] for k in kids]
        o.check("unseeded_calls_differ", len(set(vals)) == len(vals), sub="%s:three_forked_siblings" % name,
                detail=vals)
    o.stat("lib_calls", 16)
    return o


_INTERP_SCRIPT = """
import sys, json
sys.path.insert(0, %r); sys.path.insert(0, %r)
from mc import repo; repo.load()
from checks import C06
out = {}
for fam, slot in (("main", "vk1"), ("main", "fr1"), ("main", "vkG")):
    out[fam + ":" + slot] = [C06.digest(x) for x in C06._table_slot(fam, slot, 3)]
for fam, op in (("main", "ft1"), ("main", "ftsh1"), ("main", "ftG")):
    out[fam + ":" + op] = C06.digest(C06._table_func(fam, op))
print("RESULT" + json.dumps(out))
"""


def _interp():
    """Two reproductions in different interpreter runs: fresh `python` processes with different PYTHONHASHSEED
    (string hashing is salted per process) must produce the bytes this process produces for the same seeds."""
    import json
    import os
    import subprocess
    import sys
    from mc import repo
    from mc.core import VERIF
    o = Out()
    mine = {}
    for fam, slot in (("main", "vk1"), ("main", "fr1"), ("main", "vkG")):
        mine[fam + ":" + slot] = [digest(x) for x in _TABLE[(fam, slot)][:4]]
    for fam, op in (("main", "ft1"), ("main", "ftsh1"), ("main", "ftG")):
        mine[fam + ":" + op] = digest(_TABLE[(fam, op)])
    for hs in ("1", "987654"):
        env = dict(os.environ, PYTHONHASHSEED=hs, AOTOOLS_REPO=repo.REPO)
        r = subprocess.run([sys.executable, "-c", _INTERP_SCRIPT % (VERIF, repo.REPO)], env=env, capture_output=True,
                           text=True, timeout=600)
        line = [l for l in r.stdout.splitlines() if l.startswith("RESULT")]
        if not line:
            o.check("fresh_interpreter_runs", False, sub="PYTHONHASHSEED=" + hs, detail=(r.stdout + r.stderr)[-600:])
            continue
        theirs = json.loads(line[0][6:])
        for k in sorted(mine):
            o.check("seeded_artefact_equal_in_a_fresh_interpreter", theirs.get(k) == mine[k],
                    sub="%s:PYTHONHASHSEED=%s" % (k, hs))
        o.stat("lib_calls", 6)
    return o
