"""C06 Seeded screens are reproducible and instances are isolated.

E3: explicit-state BFS over histories that interleave seeded screen objects, seeded
function calls, unseeded calls and noise on NumPy's global random state.  Reference
model: a table of the exact bytes every seeded artefact must have (kind, parameters, seed,
number of rows added); EVERY table entry is generated in its own pristine forked process,
so nothing another call left behind (caches, shared generators) can leak into it.  After
EVERY transition every live seeded object and every seeded function result must equal its
table entry bit for bit, and seeded operations must leave the global random state untouched.

Four operation families share the machinery:
  main   two seeds, both screen kinds, Generator-as-seed, unseeded objects, global-RNG noise
  vkp    von Karman screens that differ from a base screen in exactly ONE parameter
         (r0, L0, pixel scale, size, stencil depth), same seed -> exposes state keyed on a subset
         of the parameters (e.g. a cache of the A/B matrices that forgets r0)
  frp    the same for the Fried variant
  ftp    seeded FFT screens (plain and sub-harmonic) under single-parameter variations
  alias  a small alphabet (one seeded screen of each kind, seeded and unseeded FFT calls, an unseeded screen,
         a reset of the global RNG) explored with PROCESS snapshots: the state reached by a history is the
         process that executed it (fork), so links between live objects and state hidden in the library's
         modules are preserved exactly; the other families use copy.deepcopy snapshots, which are much faster
         but cut such links (a family whose objects cannot be deep-copied faithfully - probed in a forked child
         before the search - is explored with process snapshots too, to depth <= 3)

What is judged is observable behaviour only: bytes of `.scrn`, of the arrays returned by `add_row()` and by the
FFT functions, and NumPy's global generator.  Private attributes, generator states and module globals are part of
the de-duplication key of the search, and a change of hidden state of an object that was not operated on only
TRIGGERS a run-ahead (two more rows added in a forked copy and compared with the pristine table) - it is never a
violation by itself.
"""
import copy
import itertools
import random

import numpy

from mc import Out, Case
from mc import statespace as ss
from mc.core import digest
from mc.isolate import isolated_map

PROPERTY = "C06"
LEVEL = "model_checking"
ISOLATE_CASES = True     # every case starts from a pristine process: verdicts do not depend on which case ran before
ENGINES = ["E3-explicit-state-history-search", "E4-schedule-exploration"]
TECHNIQUE = ("explicit-state breadth-first search over interleaved operation histories on several live screen "
             "objects and NumPy's global RNG, each reached state compared bit-for-bit (.scrn, arrays returned by "
             "add_row and by the FFT functions) with a reference table whose every entry was generated in its own "
             "pristine process; seed / call-form / result-ownership / equal-seed-twin enumerations; as an "
             "OBSERVATION only (never a violation): single-preemption interleaving of pairs of calls at "
             "library-line granularity (one call run to completion at every line of the other, in a forked child "
             "with a deadlock guard)")
RULE = ("case = (family, first operation of the history); from there BFS over the family's whole operation "
        "alphabet to the depth bound, de-duplicated on the canonical state (seeded objects by content, unseeded "
        "objects by kind and age, global RNG state, module globals); non-trivial = transitions whose history "
        "contains at least one operation on ANOTHER object / a noise operation before the reproduction")
ASSUMPTIONS = [
    "unseeded objects draw from OS entropy; their content is abstracted to (kind, rows added) in the state hash - "
    "sound for this property because every executed transition re-checks every seeded object against the table",
    "depth bound per tier; at most one live object per slot in the history search (two live instances of ONE seed, "
    "advanced asymmetrically and re-created, are enumerated separately: twins:*)",
    "the statement quantifies over interleavings of whole OPERATIONS; it does not promise re-entrancy under threads. "
    "Two calls interleaved with ONE preemption at line granularity (mc/reentry.py: the other call run to completion, "
    "nested, at every library line) are still explored, in a forked child with a deadlock / wall-clock guard, but a "
    "dependence found there is recorded as the observation `preemption_dependence_observed`, never as a violation; "
    "a nested call that blocks on a lock the outer call holds, or raises, makes the pair 'not claimed'. "
    "Other processes: forked siblings and fresh interpreters only",
    "small screens (vK 4x4/5x5, Fried 3x3 and requested 4 -> allowed 5, FFT 4x4/8x8) in the history search: the "
    "property is about state isolation, not size; parameter variants lie 1e-6 (relative) next to the base value, "
    "which separates every state keyed on a subset, a rounding or a formatting of the parameters",
    "'unseeded calls differ' is required in every history, including histories that put NumPy's global generator "
    "or Python's `random` module into the same state before both calls (the property quantifies over changes to the "
    "global state)",
    "seed domain: integers of every size and numpy integer scalars are the documented domain (an exception there is "
    "a violation); sequences, SeedSequence objects and their children and Generator objects are judged only if the "
    "library accepts them - a TypeError / ValueError on such a seed makes the sub-case 'not claimed'",
    "make_initial_screen() on a live instance: equal histories must restart to equal bytes; 'equals a fresh "
    "instance' is claimed only if the library restarts the stream at all (probed with zero rows added)",
]
LEVEL_TEXT = ("Every interleaving (to depth 4 quick / 6 thorough in the main family, 4/5 in the parameter-variant "
              "families) of constructing/advancing seeded infinite screens, seeded FFT screens, unseeded calls and "
              "global-RNG noise operations is executed on the real code; all seeded artefacts are compared bit for "
              "bit with references generated in pristine processes after every transition, and the global random "
              "state and the module globals are part of the explicit state. Two-call single-preemption "
              "interleavings (64 ordered pairs of 8 colliding operations x every library line of the first) are "
              "executed as an observation only: thread re-entrancy is not part of the statement.")
LEVEL_NOTE = ("Trusted: copy.deepcopy snapshots (probed for fidelity per family, process snapshots otherwise), "
              "os.fork isolation, numpy bit comparison. Not covered: histories deeper than the bound, parameters "
              "other than the listed ones, real thread concurrency (observation only).")

NEAR = 1.0 + 1e-6        # parameter variants sit next to the base value: a state keyed on rounded / formatted / a
                          # subset of the parameters confuses them, a history-free library gives each its own bytes
VKB = dict(nx=4, ps=0.1, r0=0.2, L0=25.0, sd=2)
FRB = dict(nx=3, ps=0.1, r0=0.2, L0=25.0, sd=4)
FTB = dict(r0=0.2, N=4, delta=0.1, L0=25.0, l0=0.01)


def _var(base, **kw):
    d = dict(base)
    d.update(kw)
    return d


# slot -> (kind, params, seed spec)
SLOTS = {
    "main": {
        "vk1": ("vk", VKB, 1), "vk2": ("vk", VKB, 2), "fr1": ("fr", FRB, 1), "vkG": ("vk", VKB, "G1"),
        "vkN": ("vk", VKB, None),
    },
    "vkp": {
        "vkA": ("vk", VKB, 1), "vkB": ("vk", _var(VKB, r0=0.2 * NEAR), 1), "vkC": ("vk", _var(VKB, L0=25.0 * NEAR), 1),
        "vkD": ("vk", _var(VKB, ps=0.1 * NEAR), 1), "vkE": ("vk", _var(VKB, nx=5), 1), "vkF": ("vk", _var(VKB, sd=1), 1),
    },
    "frp": {
        "frA": ("fr", FRB, 1), "frB": ("fr", _var(FRB, r0=0.2 * NEAR), 1), "frC": ("fr", _var(FRB, L0=25.0 * NEAR), 1),
        # frE: requested size 4 -> allowed size 5 (the crop of the working array to the requested size is exercised)
        "frD": ("fr", _var(FRB, ps=0.1 * NEAR), 1), "frE": ("fr", _var(FRB, nx=4), 1), "frF": ("fr", _var(FRB, sd=2), 1),
    },
    "ftp": {},
    # explored with process snapshots (fork), see _hist: the operations most likely to be linked through state
    # the library keeps outside the objects (one seeded screen of each kind, unseeded screens and calls)
    "alias": {"vk1": ("vk", VKB, 1), "fr1": ("fr", FRB, 1), "vkN": ("vk", VKB, None)},
}
# function ops -> (function, params, seed spec)
FUNCS = {
    "main": {"ft1": ("ft", FTB, 1), "ftsh1": ("ftsh", FTB, 1), "ftG": ("ft", FTB, "G7"),
             "ftN": ("ft", FTB, None), "ftshN": ("ftsh", FTB, None)},
    "vkp": {}, "frp": {},
    "ftp": {},
    "alias": {"ft1": ("ft", FTB, 1), "ftsh1": ("ftsh", FTB, 1), "ftN": ("ft", FTB, None), "ftshN": ("ftsh", FTB, None)},
}
for _f in ("ft", "ftsh"):
    for _name, _p in (("A", FTB), ("B", _var(FTB, r0=0.2 * NEAR)), ("C", _var(FTB, delta=0.1 * NEAR)),
                      ("D", _var(FTB, L0=25.0 * NEAR)), ("E", _var(FTB, l0=0.1)), ("F", _var(FTB, N=8))):
        FUNCS["ftp"][_f + _name] = (_f, _p, 1)
NOISE_OPS = ["np_seed0", "np_seed5", "np_normal3", "opt_grouping", "np_shuffle"]
AHEAD = 2          # table rows beyond the depth bound (run-ahead after a hidden change of an object not operated on)


def _depth(tier, family):
    if family == "main":
        return 4 if tier == "quick" else 6
    if family == "ftp":
        return 3 if tier == "quick" else 4
    if family == "alias":
        return 3 if tier == "quick" else 4
    return 4 if tier == "quick" else 5


BIG_SEEDS = [2 ** 31, 2 ** 32, 2 ** 32 + 1, 2 ** 33, 2 ** 63 - 1, 2 ** 64, 2 ** 64 + 3, 10 ** 30]


def BOUNDS(tier):
    return {"depth": {f: _depth(tier, f) for f in SLOTS}, "families": {f: _ops(f) for f in SLOTS},
            "distinct_seeds": "0..31 and " + ", ".join(str(s) for s in BIG_SEEDS),
            "twins": "all sequences of length %d over {row a, row b, re-create b} on two instances of seed 1" % _twin_len(tier),
            "largest_sizes": "held results: FFT 1024 (2048 thorough), Fried 257, von Karman 9 (130 thorough); "
                             "long extrusions: 39 rows"}


def _ops(family):
    ops = ["new_" + s for s in SLOTS[family]] + ["row_" + s for s in SLOTS[family]] + list(FUNCS[family])
    if family == "main":
        ops += NOISE_OPS
    if family == "alias":
        ops += ["np_seed0"]
    return ops


def _seed_obj(spec):
    if isinstance(spec, str) and spec.startswith("G"):
        return numpy.random.Generator(numpy.random.PCG64(int(spec[1:])))
    return spec


def _documented_seed(spec):
    """the documented seed domain: `seed (int, optional)` - python / numpy integers and None"""
    return spec is None or (isinstance(spec, (int, numpy.integer)) and not isinstance(spec, bool))


def _new(kind, p, seed):
    from aotools.turbulence import infinitephasescreen as ips
    if kind == "vk":
        return ips.PhaseScreenVonKarman(p["nx"], p["ps"], p["r0"], p["L0"], random_seed=_seed_obj(seed), n_columns=p["sd"])
    return ips.PhaseScreenKolmogorov(p["nx"], p["ps"], p["r0"], p["L0"], random_seed=_seed_obj(seed),
                                     stencil_length_factor=p["sd"])


def _fn(kind, p, seed):
    from aotools.turbulence import phasescreen as ps
    f = ps.ft_phase_screen if kind == "ft" else ps.ft_sh_phase_screen
    return f(p["r0"], p["N"], p["delta"], p["L0"], p["l0"], seed=_seed_obj(seed))


def _bytes(a):
    a = numpy.asarray(a)
    return (str(a.dtype), a.shape, numpy.ascontiguousarray(a).tobytes())


# ----------------------------------------------------------------------------- reference table

def _table_slot(family, slot, depth):
    kind, p, seed = SLOTS[family][slot]
    obj = _new(kind, p, seed)
    out = [_bytes(obj.scrn)]
    for _ in range(depth):
        obj.add_row()
        out.append(_bytes(obj.scrn))
    return out


def _table_func(family, op):
    kind, p, seed = FUNCS[family][op]
    return _bytes(_fn(kind, p, seed))


_TABLE = None
_DEEPCOPY = {}


def setup(tier):
    """every reference artefact in its own pristine forked child of this (pristine) parent"""
    global _TABLE
    jobs, keys = [], []
    for family in SLOTS:
        for slot, (kind, p, seed) in SLOTS[family].items():
            if seed is None:
                continue
            jobs.append((0, family, slot, _depth(tier, family) + AHEAD))
            keys.append((family, slot))
        for op, (kind, p, seed) in FUNCS[family].items():
            if seed is None:
                continue
            jobs.append((1, family, op, 0))
            keys.append((family, op))
    for slot, (kind, prm, n_rows) in LONG.items():
        jobs.append((2, "long", slot, n_rows))
        keys.append(("long", slot))
    res = isolated_map(_table_job, jobs)
    _TABLE = dict(zip(keys, res))
    # can the screen objects of a family be deep-copied faithfully?  (decides the kind of snapshot, never a verdict)
    global _DEEPCOPY
    fams = [f for f in SLOTS if f != "alias" and SLOTS[f]]
    try:
        _DEEPCOPY = dict(zip(fams, isolated_map(_probe_deepcopy, [(f,) for f in fams])))
    except Exception as e:
        _DEEPCOPY = {f: "probe failed: %r" % (e,) for f in fams}


def _table_job(which, family, name, depth):
    if which == 2:
        kind, prm, n_rows = LONG[name]
        obj = _new(kind, prm, 1)
        out = [_bytes(obj.scrn)]
        for _ in range(n_rows):
            obj.add_row()
            out.append(_bytes(obj.scrn))
        return out
    seed = (SLOTS if which == 0 else FUNCS)[family][name][2]
    try:
        return _table_slot(family, name, depth) if which == 0 else _table_func(family, name)
    except (TypeError, ValueError) as e:
        # a seed kind outside the documented domain (a Generator handed over as seed) may be rejected: the table
        # entry then says so and every operation that uses it leaves the alphabet ('not claimed')
        if _documented_seed(seed):
            raise
        return {"not_accepted": repr(e)[:300]}


def _accepted(family, name):
    return not isinstance(_TABLE.get((family, name)), dict)


def _family_ops(family):
    """the family's alphabet without the operations whose (undocumented) seed kind the library rejects"""
    out = []
    for op in _ops(family):
        name = op[4:] if op[:4] in ("new_", "row_") else op
        if (family, name) in _TABLE and not _accepted(family, name):
            continue
        out.append(op)
    return out


# long extrusions: several times the working-array length (anything buffered per block of rows shows up); fr_nx4 and
# fr_nx6 have a requested size below the allowed size of the working array (5 and 9): the crop is exercised
LONG = {"vk": ("vk", VKB, 3 * 4 + 3), "vk_big": ("vk", _var(VKB, nx=7), 3 * 7 + 2), "fr": ("fr", FRB, 3 * 12 + 3),
        "fr_sd1": ("fr", _var(FRB, sd=1), 4 * 3 + 2), "fr_nx4": ("fr", _var(FRB, nx=4, sd=2), 2 * 10 + 3),
        "fr_nx6": ("fr", _var(FRB, nx=6, sd=1), 2 * 9 + 2)}


def _twin_len(tier):
    return 5 if tier == "quick" else 7


def cases(tier):
    for family in SLOTS:
        for op in _ops(family):
            if op.startswith("row_"):
                continue     # no object alive at the root
            yield Case("hist:%s:first=%s:depth=%d" % (family, op, _depth(tier, family)),
                       {"kind": "hist", "family": family, "first": op, "depth": _depth(tier, family)}, True)
    for kind in ("ft", "ftsh", "vk", "fried"):
        yield Case("distinct_seeds:%s" % kind, {"kind": "distinct", "what": kind})
    yield Case("unseeded_differ", {"kind": "unseeded"})
    yield Case("unseeded_differ_in_sibling_processes", {"kind": "siblings"})
    yield Case("seeded_reproducible_across_interpreters", {"kind": "interp"})
    for slot in LONG:
        yield Case("long_rows:%s" % slot, {"kind": "long", "slot": slot})
    yield Case("call_forms", {"kind": "callforms"})
    for what in HELD:
        if tier == "thorough" or not what.endswith(":t"):
            yield Case("held:%s" % what, {"kind": "held", "what": what})
    for kind in ("vk", "fr"):
        yield Case("restart:%s" % kind, {"kind": "restart", "what": kind})
    for kind in ("vk", "fr"):
        yield Case("twins:%s" % kind, {"kind": "twins", "what": kind, "n": _twin_len(tier)})
    for a in REENTRY_OPS:
        # observation only (see ASSUMPTIONS): never contributes a violation
        yield Case("preempt:A=%s" % a, {"kind": "preempt", "a": a}, False)


class _NoSnapshot(Exception):
    """the library's objects cannot be copied: deepcopy snapshots are not available (never a violation)"""


class _W(ss.World):
    """world whose unseeded objects are abstracted in the key.  `obj:*` (everything reachable from the object, private
    attributes and generator state included), module globals and process settings serve the de-duplication of the
    search and trigger run-aheads; only `scrn:*` (the observable) and the global generators are judged."""

    def components(self):
        c = {}
        fam = self.family
        for k, v in self.objects.items():
            if k == "rows":
                c["rows"] = repr(sorted(v.items()))
                continue
            if SLOTS[fam][k][2] is None:
                # entropy: abstracted in the key; its screen is watched through `pre_unseeded` (see _apply / verify)
                c["obj:" + k] = "unseeded:rows=%d" % self.objects["rows"].get(k, 0)
            else:
                c["obj:" + k] = ss.obj_digest(v)
                c["scrn:" + k] = digest(_bytes(v.scrn))
        st = numpy.random.get_state()
        c["numpy.global_rng"] = digest([st[0], st[1], st[2], st[3], st[4]])
        c["python.global_rng"] = digest(repr(random.getstate()))
        c["module_globals"] = ss.module_globals_digest(self.modules)
        c["process_settings"] = ss.process_settings()
        return c

    def snapshot(self):
        try:
            objs = copy.deepcopy(self.objects)
        except Exception as e:
            raise _NoSnapshot(repr(e)[:300])
        return (objs, numpy.random.get_state(), random.getstate())

    def restore(self, snap):
        try:
            self.objects = copy.deepcopy(snap[0])
        except Exception as e:
            raise _NoSnapshot(repr(e)[:300])
        numpy.random.set_state(snap[1])
        random.setstate(snap[2])


def evaluate(p):
    if p["kind"] == "hist":
        return _hist(p)
    if p["kind"] == "distinct":
        return _distinct(p["what"])
    if p["kind"] == "long":
        return _long(p["slot"])
    if p["kind"] == "siblings":
        return _siblings()
    if p["kind"] == "interp":
        return _interp()
    if p["kind"] == "callforms":
        return _callforms()
    if p["kind"] == "held":
        return _held(p["what"])
    if p["kind"] == "restart":
        return _restart(p["what"])
    if p["kind"] == "twins":
        return _twins(p["what"], p["n"])
    if p["kind"] == "preempt":
        return _preempt(p["a"])
    return _unseeded()


def _apply_factory(family):
    def _apply(w, op):
        rows = w.objects["rows"]
        # screens of the live unseeded objects before the operation (they are not in the state key)
        w.pre_unseeded = {k: digest(_bytes(v.scrn)) for k, v in w.objects.items()
                          if k != "rows" and SLOTS[family][k][2] is None}
        if op.startswith("new_"):
            slot = op[4:]
            w.objects[slot] = _new(*SLOTS[family][slot])
            rows[slot] = 0
            return None
        if op.startswith("row_"):
            slot = op[4:]
            res = w.objects[slot].add_row()
            rows[slot] += 1
            return res
        if op in FUNCS[family]:
            return _fn(*FUNCS[family][op])
        if op == "np_seed0":
            numpy.random.seed(0)
        elif op == "np_seed5":
            numpy.random.seed(5)
        elif op == "np_normal3":
            numpy.random.standard_normal(3)
        elif op == "np_shuffle":
            numpy.random.shuffle(numpy.arange(5))
        elif op == "opt_grouping":
            from aotools.turbulence import profile_compression as pc
            pc.optimal_grouping(2, 3, numpy.array([1., 2., 1., 3., 2., 1.]) * 1e-15,
                                numpy.linspace(0, 10000., 6))
        return None
    return _apply


def _ahead_rows(obj, k):
    out = []
    for _ in range(k):
        obj.add_row()
        out.append(_bytes(obj.scrn))
    return out


def _make_verify(family, table):
    """the invariants of one transition (used by the search and by the explorer-free replay)"""
    from mc.isolate import isolated
    seeded_slots = [s for s, v in SLOTS[family].items() if v[2] is not None and _accepted(family, s)]
    seeded_funcs = [f for f, v in FUNCS[family].items() if v[2] is not None and _accepted(family, f)]
    seeded_ops = set(["new_" + s for s in seeded_slots] + ["row_" + s for s in seeded_slots] + seeded_funcs)

    def verify(hist, op, pre, w, result, loop, o):
        sub = "h=%s" % ",".join(hist + (op,))
        rows = w.objects["rows"]
        for slot in seeded_slots:
            if slot in rows:
                o.check("seeded_object_equals_isolated_reference",
                        _bytes(w.objects[slot].scrn) == table[(family, slot)][rows[slot]], sub=sub + ":" + slot,
                        detail={"slot": slot, "rows": rows[slot], "params": SLOTS[family][slot][1]})
        if op.startswith("row_") and op[4:] in seeded_slots:
            # what add_row() hands back is the screen with the new row (an implementation that returns nothing is
            # not judged on it)
            if isinstance(result, numpy.ndarray):
                o.check("returned_screen_equals_isolated_reference",
                        _bytes(result) == table[(family, op[4:])][rows[op[4:]]], sub=sub,
                        detail={"slot": op[4:], "rows": rows[op[4:]]})
            else:
                o.stat("add_row_return_value_not_claimed", 1)
        if op in seeded_funcs:
            o.check("seeded_function_equals_isolated_reference", _bytes(result) == table[(family, op)], sub=sub,
                    detail={"params": FUNCS[family][op][1]})
        post = w.components()
        if op in seeded_ops:
            o.check("seeded_op_leaves_global_rng_untouched",
                    pre["numpy.global_rng"] == post["numpy.global_rng"], sub=sub)
        # an operation on one object never changes another object: its screen stays what it was, and - when
        # anything reachable from it changed (hidden state: generator, buffers) - the rows it produces from here on
        # are still those of the pristine table (run-ahead in a forked copy of this process)
        touched = op[4:] if (op.startswith("new_") or op.startswith("row_")) else None
        ch = ss.changed(pre, post)
        others = [k[5:] for k in ch if k.startswith("scrn:") and k[5:] != touched]
        for k, d in getattr(w, "pre_unseeded", {}).items():
            if k != touched and k in w.objects and digest(_bytes(w.objects[k].scrn)) != d:
                others.append(k)
        for k in ch:
            slot = k[4:]
            if not k.startswith("obj:") or slot == touched or slot in others or slot not in seeded_slots \
                    or slot not in rows:
                continue
            want = table[(family, slot)][rows[slot] + 1: rows[slot] + 1 + AHEAD]
            try:
                got = isolated(_ahead_rows, w.objects[slot], len(want))
            except Exception:
                o.stat("run_ahead_not_claimed", 1)     # instrumentation (fork) failed: nothing is concluded
                continue
            if got != want:
                others.append(slot + ":rows_added_later")
            else:
                o.stat("hidden_state_change_without_observable_effect", 1)
        o.check("other_objects_untouched", not others, sub=sub, detail=others)
        # outside the statement (numpy error state, print options, warning filters ...): recorded, not judged
        if pre.get("process_settings") != post.get("process_settings"):
            o.stat("process_settings_changed_observed", 1)
    return verify


def _probe_deepcopy(family):
    """in a forked child: can every screen object of the family be deep-copied, and does the copy evolve exactly as
    the original does?  -> None (yes) or the reason why deepcopy snapshots cannot be used"""
    try:
        for slot, (kind, prm, seed) in SLOTS[family].items():
            if not _accepted(family, slot):
                continue
            obj = _new(kind, prm, seed)
            obj.add_row()
            cp = copy.deepcopy(obj)
            if _ahead_rows(cp, 2) != _ahead_rows(obj, 2):
                return "%s: a deep copy evolves differently from the original" % slot
    except Exception as e:
        return "%s: %r" % (slot, e)
    return None


def _hist(p):
    from aotools.turbulence import infinitephasescreen as ips, phasescreen, turb
    from mc.isolate import isolated
    o = Out()
    depth, family = p["depth"], p["family"]
    table = _TABLE
    first = p["first"]
    ops_ok = _family_ops(family)
    if first not in ops_ok:
        o.stat("seed_kind_not_accepted_not_claimed", 1)
        o.note("not_claimed:%s" % first, table.get((family, first[4:] if first.startswith("new_") else first)))
        return o
    # Snapshots: copy.deepcopy of the live objects (fast; complete for state held in the objects, the global
    # generators and module globals) unless the family is `alias` or the objects cannot be copied faithfully (a lock,
    # a plan object, a handle among their attributes): then a snapshot is an OS process (fork) - the state reached by
    # a history is the process that executed it, so aliasing between a screen's generator and anything the library
    # keeps in its modules survives as well (a seeded 'module-level current generator' was missed by deepcopy).
    use_fork = family == "alias"
    if not use_fork:
        why = _DEEPCOPY.get(family)
        if why:
            use_fork = True
            depth = min(depth, 3)
            o.stat("deepcopy_snapshots_not_available_process_snapshots_used", 1)
            o.note("deepcopy_probe:%s" % family, str(why)[:300])
            o.note("depth_with_process_snapshots:%s" % family, depth)
    # compile the library's numba kernels once in this process: forked children inherit the compiled code, a
    # kernel first used inside a child would be compiled again in every child (the calls are part of the history
    # prefix of every explored history: a screen of another geometry and one optimal grouping)
    if use_fork:
        _new("vk", _var(VKB, nx=3), 99)
    numpy.random.seed(12345)            # owned: the initial global state is part of the input
    random.seed(12345)
    world = _W({"rows": {}}, modules=(ips, phasescreen, turb))
    world.family = family
    apply_op = _apply_factory(family)
    verify = _make_verify(family, table)

    def alphabet(w):
        live = w.objects["rows"]
        out = []
        for op in ops_ok:
            if op.startswith("row_"):
                slot = op[4:]
                if slot not in live or live[slot] >= depth:
                    continue
            out.append(op)
        return out

    import shutil
    import tempfile
    pre = world.components()
    res = apply_op(world, first)
    verify((), first, pre, world, res, False, o)
    if not use_fork:
        def on_t(hist, op, pre, w, result, loop):
            verify((first,) + hist, op, pre, w, result, loop, o)
            if len(set((first,) + hist + (op,))) > 1:
                o.stat("nontrivial", 1)
        try:
            st = ss.bfs(world, alphabet, apply_op, on_t, depth - 1)
        except _NoSnapshot as e:
            # should have been seen by the probe; what was verified so far stands, the rest is not claimed
            o.stat("deepcopy_snapshots_failed_rest_not_claimed", 1)
            o.note("deepcopy_failed:%s:%s" % (family, first), str(e))
            return o
        o.stat("states", st["states"] + 1)
        o.stat("transitions", st["transitions"] + 1)
        o.stat("self_loops", st["self_loops"])
        o.stat("traces_validated_against_impl", st["transitions"] + 1)
        o.outcome(sorted((str(k), digest(v)) for k, v in table.items() if k[0] == family))
        return o
    seen_dir = tempfile.mkdtemp(prefix="c06_seen_")
    try:
        ss._claim(seen_dir, world.key(), 1)

        def check(hist, op, pre, w, result, loop, out):
            verify(hist, op, pre, w, result, loop, out)
            if len(set(hist + (op,))) > 1:
                out.stat("nontrivial", 1)
        sub, st = ss.fork_search(world, alphabet, apply_op, check, depth, seen_dir, hist=(first,))
    finally:
        shutil.rmtree(seen_dir, ignore_errors=True)
    o.merge(sub)
    o.stat("process_snapshot_transitions", st["transitions"])
    o.stat("states", st["states"] + 2)
    o.stat("transitions", st["transitions"] + 1)
    o.stat("self_loops", st["self_loops"])
    o.stat("traces_validated_against_impl", st["transitions"] + 1)
    o.outcome(sorted((str(k), digest(v)) for k, v in table.items() if k[0] == family))
    return o


def _long(slot):
    """every row of a long extrusion (several working-array lengths) equals the pristine reference, with noise
    operations (global RNGs of numpy and python, unseeded calls, other screens) interleaved between the rows"""
    from aotools.turbulence import phasescreen as ps
    o = Out()
    kind, prm, n_rows = LONG[slot]
    table = _TABLE[("long", slot)]
    ft = (FTB["r0"], FTB["N"], FTB["delta"], FTB["L0"], FTB["l0"])
    for mode in ("plain", "interleaved"):
        obj = _new(kind, prm, 1)
        o.check("long_extrusion_equals_isolated_reference", _bytes(obj.scrn) == table[0], sub="%s:row=0" % mode)
        for r in range(1, n_rows + 1):
            if mode == "interleaved":
                which = r % 4
                if which == 0:
                    numpy.random.seed(r)
                    random.seed(r)
                elif which == 1:
                    ps.ft_phase_screen(*ft)
                elif which == 2:
                    _new("vk" if kind == "fr" else "fr", FRB if kind == "vk" else VKB, 1).add_row()
                else:
                    ps.ft_sh_phase_screen(*ft, seed=r)
            got = obj.add_row()
            o.check("long_extrusion_equals_isolated_reference", _bytes(obj.scrn) == table[r], sub="%s:row=%d" % (mode, r))
            if isinstance(got, numpy.ndarray):
                o.check("returned_screen_equals_isolated_reference", _bytes(got) == table[r], sub="%s:row=%d" % (mode, r))
        o.stat("lib_calls", n_rows + 1)
    o.stat("nontrivial", n_rows)
    return o


# ----------------------------------------------------------------------------- ways of calling
# (added after wave-5 seeded changes: a parameter inserted before `seed`, a scratch buffer shared between large
#  screens, a restart that kept the old stream)

def _callforms():
    """the seed handed over positionally (documented parameter order of the pinned revision), by keyword, and
    together with every other argument by keyword gives the same bytes, for the four seeded entry points"""
    from aotools.turbulence import infinitephasescreen as ips, phasescreen as ps
    o = Out()
    ft = (FTB["r0"], FTB["N"], FTB["delta"], FTB["L0"], FTB["l0"])
    ftk = dict(r0=FTB["r0"], N=FTB["N"], delta=FTB["delta"], L0=FTB["L0"], l0=FTB["l0"])
    for seed in (0, 1, 7):
        for name, f in (("ft", ps.ft_phase_screen), ("ftsh", ps.ft_sh_phase_screen)):
            ref = _bytes(f(*ft, seed=seed))
            o.check("positional_seed_same_bytes", _bytes(f(*(ft + (None, seed)))) == ref, sub="%s:seed=%d" % (name, seed))
            o.check("all_keywords_same_bytes", _bytes(f(seed=seed, FFT=None, **ftk)) == ref, sub="%s:seed=%d" % (name, seed))
            o.check("seeded_calls_repeat", _bytes(f(*ft, seed=seed)) == ref, sub="%s:seed=%d" % (name, seed))
        for name, cls, b, extra in (("vk", ips.PhaseScreenVonKarman, VKB, "n_columns"),
                                    ("fr", ips.PhaseScreenKolmogorov, FRB, "stencil_length_factor")):
            def rows(obj):
                out = [_bytes(obj.scrn)]
                for _ in range(3):
                    obj.add_row()
                    out.append(_bytes(obj.scrn))
                return out
            ref = rows(cls(b["nx"], b["ps"], b["r0"], b["L0"], random_seed=seed, **{extra: b["sd"]}))
            o.check("positional_seed_same_bytes", rows(cls(b["nx"], b["ps"], b["r0"], b["L0"], seed, b["sd"])) == ref,
                    sub="%s:seed=%d" % (name, seed))
            o.check("all_keywords_same_bytes",
                    rows(cls(nx_size=b["nx"], pixel_scale=b["ps"], r0=b["r0"], L0=b["L0"], random_seed=seed, **{extra: b["sd"]})) == ref,
                    sub="%s:seed=%d" % (name, seed))
    o.stat("lib_calls", 3 * (2 * 4 + 2 * 3))
    # the accelerated-transform branch: `FFT` is documented as a callable object applied to the shifted coefficient
    # array.  With the SAME callable the seeded screens repeat and different seeds differ (equality with the FFT=None
    # screen is not claimed: another transform is another parameter set).  A library that wants another kind of FFT
    # object (TypeError / AttributeError) is not judged.
    def fft_obj(x):
        return numpy.fft.ifft2(x)
    for name, f in (("ft", ps.ft_phase_screen), ("ftsh", ps.ft_sh_phase_screen)):
        for N in (4, 5):
            got = {}
            try:
                for seed in (1, 7):
                    got[seed] = [_bytes(f(ft[0], N, *ft[2:], FFT=fft_obj, seed=seed)) for _ in range(2)]
                    f(ft[0], N, *ft[2:], FFT=fft_obj)          # an unseeded call between the reproductions
                    got[seed].append(_bytes(f(ft[0], N, *ft[2:], FFT=fft_obj, seed=seed)))
            except (TypeError, AttributeError):
                o.stat("fft_callable_not_claimed", 1)
                continue
            for seed in (1, 7):
                o.check("seeded_calls_repeat", got[seed][0] == got[seed][1] == got[seed][2],
                        sub="%s:N=%d:FFT=callable:seed=%d" % (name, N, seed))
            o.check("different_seeds_give_different_screens", got[1][0] != got[7][0], sub="%s:N=%d:FFT=callable" % (name, N))
            o.stat("lib_calls", 8)
    return o


# results that the caller still holds while later screens are made (sizes up to FFT grids of 1024 / 1028 points)
HELD = ["ft:8", "ftsh:8", "ft:130", "ftsh:130", "ft:1024", "ftsh:1024", "vk:9", "fr:9", "fr:6", "fr:257", "ft:2048:t",
        "vk:130:t"]


def _held(what):
    """hold the result of seed 1; make seed 2, seed 1 again and an unseeded one of the same size; the held arrays
    are still what they were, seed 1 repeats, seed 2 and the unseeded one differ"""
    from aotools.turbulence import phasescreen as ps
    o = Out()
    kind, n = what.split(":")[0], int(what.split(":")[1])

    def make(seed):
        if kind in ("ft", "ftsh"):
            f = ps.ft_phase_screen if kind == "ft" else ps.ft_sh_phase_screen
            return None, f(FTB["r0"], n, FTB["delta"], FTB["L0"], FTB["l0"], seed=seed)
        obj = _new(kind, _var(VKB if kind == "vk" else FRB, nx=n), seed)
        return obj, obj.scrn

    held = []
    for seed in (1, 2, 1, None, 2):
        obj, a = make(seed)
        held.append((seed, obj, a, _bytes(a)))
        for k, (sd, _, arr, b) in enumerate(held):
            o.check("held_result_not_overwritten", _bytes(arr) == b, sub="result %d (seed %s) after call %d" % (k, sd, len(held)))
    o.check("same_seed_same_bytes", held[0][3] == held[2][3] and held[1][3] == held[4][3])
    if kind in ("ft", "ftsh"):
        # the returned array belongs to the caller: converting it in place (radians to nanometres, piston removal)
        # does not change what the next call with the same seed returns
        for k in (0, 1):
            arr = held[k][2]
            if isinstance(arr, numpy.ndarray) and arr.flags.writeable:
                arr *= 79.6
                arr -= arr.mean()
        again = [make(1)[1], make(2)[1]]
        o.check("result_owned_by_caller", _bytes(again[0]) == held[2][3] and _bytes(again[1]) == held[4][3])
    o.check("different_seeds_give_different_screens", held[0][3] != held[1][3])
    o.check("unseeded_differs", held[3][3] not in (held[0][3], held[1][3]))
    if kind in ("vk", "fr"):
        # rows added to one instance do not move the others, and equal-seed instances stay equal row by row
        for step in range(3):
            held[0][1].add_row()
            held[2][1].add_row()
            o.check("same_seed_same_bytes", _bytes(held[0][1].scrn) == _bytes(held[2][1].scrn), sub="row %d" % (step + 1))
            o.check("held_result_not_overwritten", _bytes(held[1][1].scrn) == held[1][3] and _bytes(held[4][1].scrn) == held[4][3],
                    sub="other instances after row %d" % (step + 1))
        # the array add_row() RETURNS, held by the caller, is not changed by what happens to OTHER instances (rows
        # added to them, instances created, function calls); what the SAME instance does to it later is not judged
        ret = held[1][1].add_row()
        if isinstance(ret, numpy.ndarray):
            was = _bytes(ret)
            held[4][1].add_row()
            o.check("held_result_not_overwritten", _bytes(ret) == was, sub="returned row array after add_row of the equal-seed instance")
            o.check("same_seed_same_bytes", _bytes(held[4][1].scrn) == was, sub="equal-seed instance, one row each")
            held[0][1].add_row()
            held[3][1].add_row()
            o.check("held_result_not_overwritten", _bytes(ret) == was, sub="returned row array after add_row of other instances")
            if n <= 130:
                make(2)[0].add_row()
                make(None)
                o.check("held_result_not_overwritten", _bytes(ret) == was, sub="returned row array after new instances")
        else:
            o.stat("add_row_return_value_not_claimed", 1)
    o.stat("lib_calls", 5)
    return o


def _restart(kind):
    """make_initial_screen() (public) on a live integer-seeded instance whose attributes were not touched.
    Claimed always: two instances with equal seed and equal history restart to equal bytes and evolve equally.
    Claimed only if the library restarts the random stream at all - probed on an instance with NO rows added: the
    restarted instance is what a fresh instance is - also after rows were added.  (Where the library creates its
    generator is its own business: one that keeps ONE stream per instance for its whole life is not judged here.)"""
    o = Out()
    base = VKB if kind == "vk" else FRB

    def rows(obj, n=3):
        out = [_bytes(obj.scrn)]
        for _ in range(n):
            obj.add_row()
            out.append(_bytes(obj.scrn))
        return out

    fresh_like = {}
    for seed, pre in itertools.product((1, 2), (0, 1, 3)):
        ref = rows(_new(kind, base, seed))
        pair = [_new(kind, base, seed), _new(kind, base, seed)]
        try:
            for obj in pair:
                for _ in range(pre):
                    obj.add_row()
                obj.make_initial_screen()
        except Exception:
            o.stat("restart_not_claimed", 1)       # no public restart in this library
            continue
        ra, rb = rows(pair[0]), rows(pair[1])
        o.check("restart_is_deterministic", ra == rb, sub="seed=%d:rows_before=%d" % (seed, pre))
        fresh_like[(seed, pre)] = (ra == ref)
        o.stat("lib_calls", 3)
    restarts = all(fresh_like.get((seed, 0), False) for seed in (1, 2))
    for (seed, pre), ok in sorted(fresh_like.items()):
        if pre == 0:
            continue
        if restarts:
            o.check("restart_equals_fresh_instance", ok, sub="seed=%d:rows_before=%d" % (seed, pre))
        else:
            o.stat("restart_not_claimed", 1)
    return o


def _twins(kind, n):
    """two live instances of ONE seed (the history search has one object per slot): every sequence of length n over
    {add a row to a, add a row to b, re-create b}; after every step both equal the pristine table of that seed"""
    o = Out()
    base = VKB if kind == "vk" else FRB
    table = _TABLE[("long", "vk" if kind == "vk" else "fr")]       # seed 1, base parameters
    for seq in itertools.product("abB", repeat=n):
        objs = {"a": _new(kind, base, 1), "b": _new(kind, base, 1)}
        cnt = {"a": 0, "b": 0}
        bad = None
        for step, s in enumerate(seq):
            if s == "B":
                objs["b"] = _new(kind, base, 1)
                cnt["b"] = 0
            else:
                objs[s].add_row()
                cnt[s] += 1
            for k in ("a", "b"):
                if bad is None and _bytes(objs[k].scrn) != table[cnt[k]]:
                    bad = "step %d: instance %s with %d rows" % (step + 1, k, cnt[k])
        o.check("equal_seed_instances_independent", bad is None, sub="%s:seq=%s" % (kind, "".join(seq)), detail=bad)
        o.stat("lib_calls", n + 2)
    o.stat("nontrivial", 3 ** n)
    return o


# ----------------------------------------------------------------------------- two calls interleaved line by line
# OBSERVATION ONLY.  The statement is about interleavings of whole operations (the history search above); whether
# two calls may overlap in time is not part of it.  The exploration is kept because its outcome is informative:
# one call B run to completion, nested, at EVERY library line of another call A - the schedules of two threads with
# one preemption if the library takes no lock (mc/reentry.py).  It runs in a forked child with a guard: a library
# that (correctly) protects shared state with a plain lock makes the nested call wait for the outer one for ever.

def _reentry_thunks():
    from aotools.turbulence import phasescreen as ps

    def screen_rows(kind, base, seed, n=2):
        def f():
            obj = _new(kind, base, seed)
            out = [_bytes(obj.scrn)]
            for _ in range(n):
                obj.add_row()
                out.append(_bytes(obj.scrn))
            return out
        return f
    ft = (FTB["r0"], FTB["N"], FTB["delta"], FTB["L0"], FTB["l0"])
    return {
        "ft:seed=1": lambda: _bytes(ps.ft_phase_screen(*ft, seed=1)),
        "ft:seed=2:r0=0.1": lambda: _bytes(ps.ft_phase_screen(0.1, *ft[1:], seed=2)),
        "ftsh:seed=1": lambda: _bytes(ps.ft_sh_phase_screen(*ft, seed=1)),
        "ftsh:seed=3:L0=10": lambda: _bytes(ps.ft_sh_phase_screen(ft[0], ft[1], ft[2], 10.0, ft[4], seed=3)),
        "vk:seed=1": screen_rows("vk", VKB, 1),
        "vk:seed=2:r0=0.1": screen_rows("vk", _var(VKB, r0=0.1), 2),
        "fr:seed=1": screen_rows("fr", FRB, 1),
        "fr:seed=2:L0=10": screen_rows("fr", _var(FRB, L0=10.0), 2),
    }


REENTRY_OPS = ["ft:seed=1", "ft:seed=2:r0=0.1", "ftsh:seed=1", "ftsh:seed=3:L0=10", "vk:seed=1", "vk:seed=2:r0=0.1",
               "fr:seed=1", "fr:seed=2:L0=10"]
# guard of the forked child that runs one (A, B) pair: it is killed when the process has consumed (almost) no CPU time
# for IDLE_S seconds of wall clock (a nested call waiting for a lock its own caller holds), or after WALL_S in any
# case.  Only an observation depends on it, never a verdict.
IDLE_S, WALL_S = 20.0, 900


def _deadlock_guard():
    import os
    import signal
    import threading
    import time
    signal.signal(signal.SIGALRM, signal.SIG_DFL)
    signal.alarm(WALL_S)

    def watch():
        last = time.process_time()
        while True:
            time.sleep(IDLE_S)
            now = time.process_time()
            if now - last < 0.02:
                os._exit(17)
            last = now
    threading.Thread(target=watch, daemon=True).start()


def _preempt_pair(a, b):
    from mc import reentry
    _deadlock_guard()
    th = _reentry_thunks()
    A, B = th[a], th[b]
    try:
        solo_a, solo_b = A(), B()
        bad_a, bad_b, n = [], [], 0
        for k, where, ra, rb in reentry.explore(A, B):
            n += 1
            if ra != solo_a:
                bad_a.append(where)
            if rb != solo_b:
                bad_b.append(where)
    except Exception as e:
        return {"raised": repr(e)[:300]}
    return {"n": n, "nA": len(bad_a), "nB": len(bad_b), "whereA": sorted(set(map(str, bad_a)))[:8],
            "whereB": sorted(set(map(str, bad_b)))[:8]}


def _preempt(a):
    from mc.isolate import isolated
    o = Out()
    th = _reentry_thunks()
    solo = {k: f() for k, f in th.items()}
    again = {k: f() for k, f in th.items()}
    o.check("seeded_calls_repeat", solo == again)          # serial: this one is judged
    for i, b in enumerate(REENTRY_OPS):
        try:
            r = isolated(_preempt_pair, a, b)
        except Exception:
            # the child was stopped by its guard (the nested call never returned) or died: nothing is claimed for
            # this pair, and the remaining pairs of this A would wait as long
            o.stat("preemption_pairs_not_claimed", len(REENTRY_OPS) - i)
            o.note("preemption_not_claimed:A=%s:B=%s" % (a, b), "nested call did not return (blocked on a lock of the outer call?)")
            break
        if "raised" in r:
            o.stat("preemption_pairs_not_claimed", 1)
            o.note("preemption_not_claimed:A=%s:B=%s" % (a, b), r["raised"])
            continue
        o.stat("schedules_explored", r["n"])
        o.stat("lib_calls", 2 * r["n"])
        if r["nA"] or r["nB"]:
            o.stat("preemption_dependence_observed", r["nA"] + r["nB"])
            o.note("preemption_dependence:A=%s:B=%s" % (a, b),
                   {"A_differs_when_B_runs_at": r["whereA"], "B_differs_when_run_at": r["whereB"]})
    return o


def _innovation_residuals(kind, seed, n=3):
    """OBSERVATION support (uses internals; any surprise -> None): the part of every added row that is not the
    library's own prediction from the existing screen"""
    try:
        obj = _new(kind, VKB if kind == "vk" else FRB, seed)
        out = []
        for _ in range(n):
            cur = numpy.array(obj._scrn)
            z = cur[(obj.stencil_coords[:, 0], obj.stencil_coords[:, 1])]
            if kind == "fr":
                ref = cur[obj.reference_coord]
                pred = obj.A_mat.dot(z - ref) + ref
            else:
                pred = obj.A_mat.dot(z)
            obj.add_row()
            out.append(numpy.asarray(obj._scrn)[0] - pred)
        return numpy.array(out)
    except Exception:
        return None


def _distinct(what):
    from aotools.turbulence import infinitephasescreen as ips, phasescreen as ps
    o = Out()
    seen = {}
    ft = (FTB["r0"], FTB["N"], FTB["delta"], FTB["L0"], FTB["l0"])
    for seed in list(range(32)) + BIG_SEEDS:
        if what == "ft":
            a = ps.ft_phase_screen(*ft, seed=seed)
        elif what == "ftsh":
            a = ps.ft_sh_phase_screen(*ft, seed=seed)
        elif what == "vk":
            s = _new("vk", VKB, seed)
            s.add_row()
            a = s.scrn
        else:
            s = _new("fr", FRB, seed)
            s.add_row()
            a = s.scrn
        d = digest(a)
        o.check("different_seeds_give_different_screens", d not in seen, sub="%s:seed=%d" % (what, seed),
                detail={"same_as_seed": seen.get(d)})
        seen[d] = seed
        # the same seed again gives the same bytes
        if what == "ft":
            b = ps.ft_phase_screen(*ft, seed=seed)
        elif what == "ftsh":
            b = ps.ft_sh_phase_screen(*ft, seed=seed)
        elif what == "vk":
            s = _new("vk", VKB, seed)
            s.add_row()
            b = s.scrn
        else:
            s = _new("fr", FRB, seed)
            s.add_row()
            b = s.scrn
        o.check("same_seed_same_bytes", _bytes(a) == _bytes(b), sub="%s:seed=%d" % (what, seed))

    def make(seed):
        if what == "ft":
            return ps.ft_phase_screen(*ft, seed=seed)
        if what == "ftsh":
            return ps.ft_sh_phase_screen(*ft, seed=seed)
        s_ = _new("vk" if what == "vk" else "fr", VKB if what == "vk" else FRB, seed)
        s_.add_row()
        return s_.scrn

    def twice(mk, documented):
        """the same seed object made twice -> two screens; a seed kind outside the documented domain that the
        library rejects with TypeError / ValueError -> None (not claimed)"""
        try:
            return make(mk()), make(mk())
        except (TypeError, ValueError):
            if documented:
                raise
            o.stat("seed_kind_not_accepted_not_claimed", 1)
            return None
    # numpy integer scalars belong to the documented domain (`seed (int)`); the other kinds of seed that
    # numpy.random.default_rng accepts (sequences, arrays, Generators) are judged if the library accepts them: the
    # same seed object twice gives the same bytes
    specials = {"np.int64(5)": (lambda: numpy.int64(5), True), "np.int32(5)": (lambda: numpy.int32(5), True),
                "np.uint8(5)": (lambda: numpy.uint8(5), True), "list[3,4]": (lambda: [3, 4], False),
                "tuple(1,2,3)": (lambda: (1, 2, 3), False), "array[7,8]": (lambda: numpy.array([7, 8]), False),
                "int 0": (lambda: 0, True), "np.int64(0)": (lambda: numpy.int64(0), True),
                "np.uint64(2**63+5)": (lambda: numpy.uint64(2 ** 63 + 5), True),
                "Generator(PCG64(5))": (lambda: numpy.random.Generator(numpy.random.PCG64(5)), False)}
    for name, (mk, documented) in specials.items():
        pair = twice(mk, documented)
        if pair is not None:
            o.check("same_seed_same_bytes", _bytes(pair[0]) == _bytes(pair[1]), sub="%s:seed=%s" % (what, name))
    # seed sequences and their spawned children (the documented way to get independent streams for parallel runs):
    # every child gives its own screen, different from its siblings, its parent and the plain integer; twice the same
    kids = lambda: numpy.random.SeedSequence(5).spawn(3)
    fam = {"int 5": lambda: 5, "SeedSequence(5)": lambda: numpy.random.SeedSequence(5),
           "child0": lambda: kids()[0], "child1": lambda: kids()[1], "child2": lambda: kids()[2],
           "grandchild": lambda: kids()[1].spawn(2)[1], "SeedSequence(5, spawn_key=(7,))": lambda: numpy.random.SeedSequence(5, spawn_key=(7,))}
    got = {}
    for name, mk in fam.items():
        pair = twice(mk, name == "int 5")
        if pair is None:
            continue
        o.check("same_seed_same_bytes", _bytes(pair[0]) == _bytes(pair[1]), sub="%s:seed=%s" % (what, name))
        got[name] = digest(pair[0])
    names = [n_ for n_ in fam if n_ != "SeedSequence(5)" and n_ in got]   # SeedSequence(5) and the integer 5 are the same seed
    for i_, n1 in enumerate(names):
        for n2 in names[i_ + 1:]:
            o.check("different_seeds_give_different_screens", got[n1] != got[n2], sub="%s:%s vs %s" % (what, n1, n2))
    o.stat("lib_calls", 2 * len(fam))
    o.stat("lib_calls", 2 * (32 + len(BIG_SEEDS)) + 2 * len(specials))
    # OBSERVATION (not judged: the statement compares whole screens): do the random parts of the added rows differ
    # between seeds and between unseeded instances, or is only the initial screen seed dependent?
    if what in ("vk", "fried"):
        kind = "vk" if what == "vk" else "fr"
        res = [_innovation_residuals(kind, s_) for s_ in (1, 2, 3, None, None)]
        if any(r is None for r in res):
            o.stat("innovation_observation_not_available", 1)
        else:
            scale = max(float(numpy.max(numpy.abs(r))) for r in res) or 1.0
            shared = 0
            for i_ in range(len(res)):
                for j_ in range(i_ + 1, len(res)):
                    for row in range(res[i_].shape[0]):
                        if float(numpy.max(numpy.abs(res[i_][row] - res[j_][row]))) <= 1e-6 * scale:
                            shared += 1
            o.stat("row_innovations_shared_between_seeds_observed", shared)
            if shared:
                o.note("row_innovations:%s" % what, "the random part of %d (pair of instances, row) is the same for "
                       "different seeds / unseeded instances" % shared)
    return o


def _unseeded():
    from aotools.turbulence import phasescreen as ps
    o = Out()
    ft = (FTB["r0"], FTB["N"], FTB["delta"], FTB["L0"], FTB["l0"])

    def rows(kind, base):
        def f():
            s = _new(kind, base, None)
            a = numpy.array(s.scrn)
            s.add_row()
            return numpy.concatenate([a.ravel(), numpy.asarray(s.scrn).ravel()])
        return f
    saved = numpy.random.get_state()
    saved_py = random.getstate()
    for name, f in (("ft", lambda: ps.ft_phase_screen(*ft)), ("ftsh", lambda: ps.ft_sh_phase_screen(*ft)),
                    ("vk", rows("vk", VKB)), ("fried", rows("fr", FRB))):
        # every way the history can prepare the process-wide generators (numpy's legacy one, python's) before the two calls
        for prep_name, prep in (("none", lambda: None), ("np_seed3_before_each", lambda: numpy.random.seed(3)),
                                ("set_state_before_each", lambda: numpy.random.set_state(saved)),
                                ("py_random_seed3_before_each", lambda: random.seed(3)),
                                ("py_random_setstate_before_each", lambda: random.setstate(saved_py))):
            prep()
            a = f()
            prep()
            b = f()
            o.check("unseeded_calls_differ", _bytes(a) != _bytes(b), sub="%s:global=%s" % (name, prep_name))
    o.stat("lib_calls", 40)
    return o


def replay_one(p, failure):
    """Plain re-execution of one recorded history (no search): the operations named in the failure's sub id
    are applied one after the other in a fresh process and every seeded artefact is compared with the table."""
    from mc.isolate import isolated
    sub = failure.get("sub") or ""
    if p["kind"] != "hist" or not sub.startswith("h="):
        o = evaluate(p)
        ids = ["%s|%s" % (f["clause"], f["sub"]) for f in o.failures]
        return ("%s|%s" % (failure["clause"], failure["sub"])) in ids, "re-evaluated whole case"
    ops = sub[2:].split(":")[0].split(",")
    return isolated(_replay_history, p["family"], ops, failure["clause"])


def _replay_history(family, ops, clause):
    from aotools.turbulence import infinitephasescreen as ips, phasescreen, turb
    numpy.random.seed(12345)
    random.seed(12345)
    world = _W({"rows": {}}, modules=(ips, phasescreen, turb))
    world.family = family
    apply_op = _apply_factory(family)
    verify = _make_verify(family, _TABLE)
    out = Out()
    for k, op in enumerate(ops):
        pre = world.components()
        res = apply_op(world, op)
        verify(tuple(ops[:k]), op, pre, world, res, False, out)
    bad = ["%s %s %s" % (f["clause"], f["sub"], f["detail"] or "") for f in out.failures]
    return any(f["clause"] == clause for f in out.failures) or bool(bad), \
        "history %s -> %s" % (ops, bad[:6] or "all seeded artefacts equal their isolated references")


def _unseeded_digests():
    from aotools.turbulence import phasescreen as ps
    ft = (FTB["r0"], FTB["N"], FTB["delta"], FTB["L0"], FTB["l0"])
    a = _new("vk", VKB, None)
    a.add_row()
    b = _new("fr", FRB, None)
    b.add_row()
    return {"ft": digest(ps.ft_phase_screen(*ft)), "ftsh": digest(ps.ft_sh_phase_screen(*ft)),
            "vk": digest(numpy.array(a.scrn)), "fried": digest(numpy.array(b.scrn))}


def _siblings():
    """Schedules: processes forked from one parent that has already imported (and used) the library are the
    usual way to generate screens in parallel; unseeded screens made by such siblings must differ from each other
    (a generator created once at import, or in the parent, would be duplicated by fork)."""
    from mc.isolate import isolated_map
    o = Out()
    _unseeded_digests()                      # the parent has used the library before forking
    kids = isolated_map(_unseeded_digests, [() for _ in range(3)], jobs=3)
    for name in ("ft", "ftsh", "vk", "fried"):
        vals = [k[name] for k in kids]
        o.check("unseeded_calls_differ", len(set(vals)) == len(vals), sub="%s:three_forked_siblings" % name,
                detail=vals)
    o.stat("lib_calls", 16)
    return o


_INTERP_SCRIPT = """
import sys, json
sys.path.insert(0, %r); sys.path.insert(0, %r)
from mc import repo; repo.load()
from checks import C06
out = {}
for fam, slot in (("main", "vk1"), ("main", "fr1"), ("main", "vkG")):
    try:
        out[fam + ":" + slot] = [C06.digest(x) for x in C06._table_slot(fam, slot, 3)]
    except (TypeError, ValueError) as e:
        out[fam + ":" + slot] = "raised " + repr(e)
for fam, op in (("main", "ft1"), ("main", "ftsh1"), ("main", "ftG")):
    try:
        out[fam + ":" + op] = C06.digest(C06._table_func(fam, op))
    except (TypeError, ValueError) as e:
        out[fam + ":" + op] = "raised " + repr(e)
print("RESULT" + json.dumps(out))
"""


def _interp():
    """Two reproductions in different interpreter runs: fresh `python` processes with different PYTHONHASHSEED
    (string hashing is salted per process) must produce the bytes this process produces for the same seeds."""
    import json
    import os
    import subprocess
    import sys
    from mc import repo
    from mc.core import VERIF
    o = Out()
    mine = {}
    for fam, slot in (("main", "vk1"), ("main", "fr1"), ("main", "vkG")):
        if _accepted(fam, slot):            # a Generator as seed is judged only if the library accepts it
            mine[fam + ":" + slot] = [digest(x) for x in _TABLE[(fam, slot)][:4]]
    for fam, op in (("main", "ft1"), ("main", "ftsh1"), ("main", "ftG")):
        if _accepted(fam, op):
            mine[fam + ":" + op] = digest(_TABLE[(fam, op)])
    for hs in ("1", "987654"):
        env = dict(os.environ, PYTHONHASHSEED=hs, AOTOOLS_REPO=repo.REPO)
        r = subprocess.run([sys.executable, "-c", _INTERP_SCRIPT % (VERIF, repo.REPO)], env=env, capture_output=True,
                           text=True, timeout=3600)
        line = [l for l in r.stdout.splitlines() if l.startswith("RESULT")]
        if not line:
            o.check("fresh_interpreter_runs", False, sub="PYTHONHASHSEED=" + hs, detail=(r.stdout + r.stderr)[-600:])
            continue
        theirs = json.loads(line[0][6:])
        for k in sorted(mine):
            o.check("seeded_artefact_equal_in_a_fresh_interpreter", theirs.get(k) == mine[k],
                    sub="%s:PYTHONHASHSEED=%s" % (k, hs))
        o.stat("lib_calls", 6)
    return o
