"""C06 Seeded screens are reproducible and instances are isolated.

E3: explicit-state BFS over histories that interleave seeded screen objects, seeded
function calls, unseeded calls and noise on NumPy's global random state.  Reference
model: a table of the exact bytes every seeded artefact must have (kind, seed, number of
rows added), built in isolation.  After EVERY transition every live seeded object and
every seeded function result must equal its table entry bit for bit, and seeded operations
must leave the global random state untouched.
"""
import numpy

from mc import Out, Case
from mc import statespace as ss
from mc.core import digest

PROPERTY = "C06"
LEVEL = "model_checking"
ENGINES = ["E3-explicit-state-history-search"]
TECHNIQUE = ("explicit-state breadth-first search over interleaved operation histories on several live screen "
             "objects and NumPy's global RNG, each reached state compared bit-for-bit with a reference table "
             "built in isolation")
RULE = ("case = first operation of the history (root branch); from there BFS over the whole operation alphabet "
        "to the depth bound, de-duplicated on the canonical state (seeded objects by content, unseeded objects "
        "by kind and age, global RNG state, module globals); non-trivial = histories containing at least one "
        "noise operation between two reproductions (counted per transition)")
ASSUMPTIONS = [
    "unseeded objects draw from OS entropy; their content is abstracted to (kind, rows added) in the state hash - "
    "sound for this property because every executed transition re-checks every seeded object against the table",
    "depth bound per tier; at most one live object per slot (4 seeded slots + 1 unseeded slot)",
    "process-level sources of interference (threads, other processes) are not modelled",
    "small screens (vK 4x4, Fried 3x3, FFT 4x4 / 8x8): the property is about state isolation, not size",
]
LEVEL_TEXT = ("Every interleaving (to depth 4 quick / 6 thorough) of constructing/advancing four seeded infinite "
              "screens, seeded FFT screens, unseeded calls and global-RNG noise operations is executed on the "
              "real code; all seeded artefacts are compared bit for bit with their isolated reference after "
              "every transition and the global random state is part of the explicit state.")
LEVEL_NOTE = ("Trusted: copy.deepcopy snapshots, numpy bit comparison. Not covered: histories deeper than the bound, "
              "more than one object per slot, parameters other than the listed ones.")

VK = (4, 0.1, 0.2, 25.0)
FR = (3, 0.1, 0.2, 25.0)
FT = (0.2, 4, 0.1, 25.0, 0.01)
SEEDED_SLOTS = ["vk1", "vk2", "fr1", "vkG"]


def _depth(tier):
    return 4 if tier == "quick" else 6


def BOUNDS(tier):
    return {"depth": _depth(tier), "ops": OPS, "vk_params": VK, "fried_params": FR, "ft_params": FT,
            "distinct_seeds": list(range(32))}


OPS = ["new_vk1", "new_vk2", "new_fr1", "new_vkG", "new_vkN",
       "row_vk1", "row_vk2", "row_fr1", "row_vkG", "row_vkN",
       "ft1", "ftsh1", "ftG", "ftN", "ftshN",
       "np_seed0", "np_seed5", "np_normal3", "opt_grouping", "np_shuffle"]
NOISE = {"np_seed0", "np_seed5", "np_normal3", "opt_grouping", "np_shuffle", "ftN", "ftshN", "new_vkN", "row_vkN"}
SEEDED_OPS = {"new_vk1", "new_vk2", "new_fr1", "new_vkG", "row_vk1", "row_vk2", "row_fr1", "row_vkG",
              "ft1", "ftsh1", "ftG"}


def cases(tier):
    for op in OPS:
        if op.startswith("row_"):
            continue     # no object alive at the root
        yield Case("hist:first=%s:depth=%d" % (op, _depth(tier)), {"kind": "hist", "first": op,
                                                                  "depth": _depth(tier)}, True)
    for kind in ("ft", "ftsh", "vk", "fried"):
        yield Case("distinct_seeds:%s" % kind, {"kind": "distinct", "what": kind})
    yield Case("unseeded_differ", {"kind": "unseeded"})


def _new(slot):
    from aotools.turbulence import infinitephasescreen as ips
    if slot == "vk1":
        return ips.PhaseScreenVonKarman(*VK, random_seed=1)
    if slot == "vk2":
        return ips.PhaseScreenVonKarman(*VK, random_seed=2)
    if slot == "fr1":
        return ips.PhaseScreenKolmogorov(*FR, random_seed=1)
    if slot == "vkG":
        return ips.PhaseScreenVonKarman(*VK, random_seed=numpy.random.Generator(numpy.random.PCG64(1)))
    if slot == "vkN":
        return ips.PhaseScreenVonKarman(*VK, random_seed=None)
    raise KeyError(slot)


def _fn(op):
    from aotools.turbulence import phasescreen as ps
    if op == "ft1":
        return ps.ft_phase_screen(*FT, seed=1)
    if op == "ftsh1":
        return ps.ft_sh_phase_screen(*FT, seed=1)
    if op == "ftG":
        return ps.ft_phase_screen(*FT, seed=numpy.random.Generator(numpy.random.PCG64(7)))
    if op == "ftN":
        return ps.ft_phase_screen(*FT, seed=None)
    if op == "ftshN":
        return ps.ft_sh_phase_screen(*FT, seed=None)
    raise KeyError(op)


def _bytes(a):
    a = numpy.asarray(a)
    return (str(a.dtype), a.shape, numpy.ascontiguousarray(a).tobytes())


def _table(depth):
    """reference model: every seeded artefact generated in isolation"""
    t = {}
    for slot in SEEDED_SLOTS:
        obj = _new(slot)
        t[(slot, 0)] = _bytes(obj.scrn)
        for r in range(1, depth + 1):
            obj.add_row()
            t[(slot, r)] = _bytes(obj.scrn)
    for op in ("ft1", "ftsh1", "ftG"):
        t[op] = _bytes(_fn(op))
    return t


class _W(ss.World):
    """world whose unseeded object is abstracted in the key"""

    def components(self):
        c = {}
        for k, v in self.objects.items():
            if k == "vkN":
                c["obj:vkN"] = "unseeded:rows=%d" % self.objects["rows"].get("vkN", 0)
            elif k == "rows":
                c["rows"] = repr(sorted(v.items()))
            else:
                c["obj:" + k] = ss.obj_digest(v)
        st = numpy.random.get_state()
        c["numpy.global_rng"] = digest([st[0], st[1], st[2], st[3], st[4]])
        c["module_globals"] = ss.module_globals_digest(self.modules)
        return c


def evaluate(p):
    if p["kind"] == "hist":
        return _hist(p)
    if p["kind"] == "distinct":
        return _distinct(p["what"])
    return _unseeded()


def _apply(w, op):
    rows = w.objects["rows"]
    if op.startswith("new_"):
        slot = op[4:]
        w.objects[slot] = _new(slot)
        rows[slot] = 0
        return None
    if op.startswith("row_"):
        slot = op[4:]
        w.objects[slot].add_row()
        rows[slot] += 1
        return None
    if op in ("ft1", "ftsh1", "ftG", "ftN", "ftshN"):
        return _fn(op)
    if op == "np_seed0":
        numpy.random.seed(0)
    elif op == "np_seed5":
        numpy.random.seed(5)
    elif op == "np_normal3":
        numpy.random.standard_normal(3)
    elif op == "np_shuffle":
        numpy.random.shuffle(numpy.arange(5))
    elif op == "opt_grouping":
        from aotools.turbulence import profile_compression as pc
        pc.optimal_grouping(2, 3, numpy.array([1., 2., 1., 3., 2., 1.]) * 1e-15,
                            numpy.linspace(0, 10000., 6))
    return None


def _hist(p):
    from aotools.turbulence import infinitephasescreen as ips, phasescreen, turb
    o = Out()
    depth = p["depth"]
    numpy.random.seed(12345)            # owned: the initial global state is part of the input
    table = _table(depth)
    numpy.random.seed(12345)
    world = _W({"rows": {}}, modules=(ips, phasescreen, turb))
    noise_seen = {"n": 0}

    def alphabet(w):
        live = w.objects["rows"]
        out = []
        for op in OPS:
            if op.startswith("row_"):
                slot = op[4:]
                if slot not in live or live[slot] >= depth:
                    continue
            out.append(op)
        return out

    def verify(hist, op, pre, w, result, loop):
        sub = "h=%s" % ",".join(hist + (op,))
        rows = w.objects["rows"]
        for slot in SEEDED_SLOTS:
            if slot in rows:
                o.check("seeded_object_equals_isolated_reference",
                        _bytes(w.objects[slot].scrn) == table[(slot, rows[slot])], sub=sub + ":" + slot,
                        detail={"slot": slot, "rows": rows[slot]})
        if op in ("ft1", "ftsh1", "ftG"):
            o.check("seeded_function_equals_isolated_reference", _bytes(result) == table[op], sub=sub)
        post = w.components()
        if op in SEEDED_OPS:
            o.check("seeded_op_leaves_global_rng_untouched",
                    pre["numpy.global_rng"] == post["numpy.global_rng"], sub=sub)
        # an operation on one object never changes another object
        touched = op[4:] if (op.startswith("new_") or op.startswith("row_")) else None
        others = [k for k in ss.changed(pre, post)
                  if k.startswith("obj:") and k != "obj:" + str(touched)]
        o.check("other_objects_untouched", not others, sub=sub, detail=others)
        if any(h in NOISE for h in hist + (op,)):
            noise_seen["n"] += 1

    # root branch: apply the first operation, then search
    first = p["first"]
    pre = world.components()
    res = _apply(world, first)
    verify((), first, pre, world, res, False)
    st = ss.bfs(world, alphabet, _apply,
                lambda hist, op, pre, w, result, loop: verify((first,) + hist, op, pre, w, result, loop),
                depth - 1)
    o.stat("states", st["states"] + 1)
    o.stat("transitions", st["transitions"] + 1)
    o.stat("self_loops", st["self_loops"])
    o.stat("traces_validated_against_impl", st["transitions"] + 1)
    o.stat("nontrivial", noise_seen["n"])
    if st["capped"]:
        o.stat("caps_hit", 1)
    o.outcome(sorted((str(k), digest(v[2])) for k, v in table.items()))
    return o


def _distinct(what):
    from aotools.turbulence import infinitephasescreen as ips, phasescreen as ps
    o = Out()
    seen = {}
    for seed in range(32):
        if what == "ft":
            a = ps.ft_phase_screen(*FT, seed=seed)
        elif what == "ftsh":
            a = ps.ft_sh_phase_screen(*FT, seed=seed)
        elif what == "vk":
            s = ips.PhaseScreenVonKarman(*VK, random_seed=seed)
            s.add_row()
            a = s.scrn
        else:
            s = ips.PhaseScreenKolmogorov(*FR, random_seed=seed)
            s.add_row()
            a = s.scrn
        d = digest(a)
        o.check("different_seeds_give_different_screens", d not in seen, sub="%s:seed=%d" % (what, seed),
                detail={"same_as_seed": seen.get(d)})
        seen[d] = seed
        # and the same seed again gives the same bytes (fresh call, nothing interleaved)
        if what == "ft":
            b = ps.ft_phase_screen(*FT, seed=seed)
            o.check("same_seed_same_bytes", _bytes(a) == _bytes(b), sub="%s:seed=%d" % (what, seed))
    o.stat("lib_calls", 32)
    return o


def _unseeded():
    from aotools.turbulence import infinitephasescreen as ips, phasescreen as ps
    o = Out()
    for name, f in (("ft", lambda: ps.ft_phase_screen(*FT)), ("ftsh", lambda: ps.ft_sh_phase_screen(*FT)),
                    ("vk", lambda: ips.PhaseScreenVonKarman(*VK).scrn),
                    ("fried", lambda: ips.PhaseScreenKolmogorov(*FR).scrn)):
        a = f()
        b = f()
        o.check("unseeded_calls_differ", _bytes(a) != _bytes(b), sub=name)
    return o
