"""C06 Seeded screens are reproducible and instances are isolated.

E3: explicit-state BFS over histories that interleave seeded screen objects, seeded
function calls, unseeded calls and noise on NumPy's global random state.  Reference
model: a table of the exact bytes every seeded artefact must have (kind, parameters, seed,
number of rows added); EVERY table entry is generated in its own pristine forked process,
so nothing another call left behind (caches, shared generators) can leak into it.  After
EVERY transition every live seeded object and every seeded function result must equal its
table entry bit for bit, and seeded operations must leave the global random state untouched.

Four operation families share the machinery:
  main   two seeds, both screen kinds, Generator-as-seed, unseeded objects, global-RNG noise
  vkp    von Karman screens that differ from a base screen in exactly ONE parameter
         (r0, L0, pixel scale, size, stencil depth), same seed -> exposes state keyed on a subset
         of the parameters (e.g. a cache of the A/B matrices that forgets r0)
  frp    the same for the Fried variant
  ftp    seeded FFT screens (plain and sub-harmonic) under single-parameter variations
"""
import numpy

from mc import Out, Case
from mc import statespace as ss
from mc.core import digest
from mc.isolate import isolated_map

PROPERTY = "C06"
LEVEL = "model_checking"
ISOLATE_CASES = True     # every case starts from a pristine process: verdicts do not depend on which case ran before
ENGINES = ["E3-explicit-state-history-search"]
TECHNIQUE = ("explicit-state breadth-first search over interleaved operation histories on several live screen "
             "objects and NumPy's global RNG, each reached state compared bit-for-bit with a reference table "
             "whose every entry was generated in its own pristine process")
RULE = ("case = (family, first operation of the history); from there BFS over the family's whole operation "
        "alphabet to the depth bound, de-duplicated on the canonical state (seeded objects by content, unseeded "
        "objects by kind and age, global RNG state, module globals); non-trivial = transitions whose history "
        "contains at least one operation on ANOTHER object / a noise operation before the reproduction")
ASSUMPTIONS = [
    "unseeded objects draw from OS entropy; their content is abstracted to (kind, rows added) in the state hash - "
    "sound for this property because every executed transition re-checks every seeded object against the table",
    "depth bound per tier; at most one live object per slot",
    "process-level sources of interference (threads, other processes) are not modelled",
    "small screens (vK 4x4/5x5, Fried 3x3/5x5, FFT 4x4/8x8): the property is about state isolation, not size",
    "'unseeded calls differ' is required in every history, including histories that put NumPy's global generator "
    "into the same state before both calls (the property quantifies over changes to the global state)",
]
LEVEL_TEXT = ("Every interleaving (to depth 4 quick / 6 thorough in the main family, 4/5 in the parameter-variant "
              "families) of constructing/advancing seeded infinite screens, seeded FFT screens, unseeded calls and "
              "global-RNG noise operations is executed on the real code; all seeded artefacts are compared bit for "
              "bit with references generated in pristine processes after every transition, and the global random "
              "state and the module globals are part of the explicit state.")
LEVEL_NOTE = ("Trusted: copy.deepcopy snapshots, os.fork isolation, numpy bit comparison. Not covered: histories "
              "deeper than the bound, more than one object per slot, parameters other than the listed ones.")

VKB = dict(nx=4, ps=0.1, r0=0.2, L0=25.0, sd=2)
FRB = dict(nx=3, ps=0.1, r0=0.2, L0=25.0, sd=4)
FTB = dict(r0=0.2, N=4, delta=0.1, L0=25.0, l0=0.01)


def _var(base, **kw):
    d = dict(base)
    d.update(kw)
    return d


# slot -> (kind, params, seed spec)
SLOTS = {
    "main": {
        "vk1": ("vk", VKB, 1), "vk2": ("vk", VKB, 2), "fr1": ("fr", FRB, 1), "vkG": ("vk", VKB, "G1"),
        "vkN": ("vk", VKB, None),
    },
    "vkp": {
        "vkA": ("vk", VKB, 1), "vkB": ("vk", _var(VKB, r0=0.1), 1), "vkC": ("vk", _var(VKB, L0=10.0), 1),
        "vkD": ("vk", _var(VKB, ps=0.2), 1), "vkE": ("vk", _var(VKB, nx=5), 1), "vkF": ("vk", _var(VKB, sd=1), 1),
    },
    "frp": {
        "frA": ("fr", FRB, 1), "frB": ("fr", _var(FRB, r0=0.1), 1), "frC": ("fr", _var(FRB, L0=10.0), 1),
        "frD": ("fr", _var(FRB, ps=0.2), 1), "frE": ("fr", _var(FRB, nx=5), 1), "frF": ("fr", _var(FRB, sd=2), 1),
    },
    "ftp": {},
}
# function ops -> (function, params, seed spec)
FUNCS = {
    "main": {"ft1": ("ft", FTB, 1), "ftsh1": ("ftsh", FTB, 1), "ftG": ("ft", FTB, "G7"),
             "ftN": ("ft", FTB, None), "ftshN": ("ftsh", FTB, None)},
    "vkp": {}, "frp": {},
    "ftp": {},
}
for _f in ("ft", "ftsh"):
    for _name, _p in (("A", FTB), ("B", _var(FTB, r0=0.1)), ("C", _var(FTB, delta=0.2)), ("D", _var(FTB, L0=10.0)),
                      ("E", _var(FTB, l0=0.1)), ("F", _var(FTB, N=8))):
        FUNCS["ftp"][_f + _name] = (_f, _p, 1)
NOISE_OPS = ["np_seed0", "np_seed5", "np_normal3", "opt_grouping", "np_shuffle"]


def _depth(tier, family):
    if family == "main":
        return 4 if tier == "quick" else 6
    if family == "ftp":
        return 3 if tier == "quick" else 4
    return 4 if tier == "quick" else 5


BIG_SEEDS = [2 ** 31, 2 ** 32, 2 ** 32 + 1, 2 ** 33, 2 ** 63 - 1, 2 ** 64, 2 ** 64 + 3, 10 ** 30]


def BOUNDS(tier):
    return {"depth": {f: _depth(tier, f) for f in SLOTS}, "families": {f: _ops(f) for f in SLOTS},
            "distinct_seeds": "0..31 and " + ", ".join(str(s) for s in BIG_SEEDS)}


def _ops(family):
    ops = ["new_" + s for s in SLOTS[family]] + ["row_" + s for s in SLOTS[family]] + list(FUNCS[family])
    if family == "main":
        ops += NOISE_OPS
    return ops


def _seed_obj(spec):
    if isinstance(spec, str) and spec.startswith("G"):
        return numpy.random.Generator(numpy.random.PCG64(int(spec[1:])))
    return spec


def _new(kind, p, seed):
    from aotools.turbulence import infinitephasescreen as ips
    if kind == "vk":
        return ips.PhaseScreenVonKarman(p["nx"], p["ps"], p["r0"], p["L0"], random_seed=_seed_obj(seed), n_columns=p["sd"])
    return ips.PhaseScreenKolmogorov(p["nx"], p["ps"], p["r0"], p["L0"], random_seed=_seed_obj(seed),
                                     stencil_length_factor=p["sd"])


def _fn(kind, p, seed):
    from aotools.turbulence import phasescreen as ps
    f = ps.ft_phase_screen if kind == "ft" else ps.ft_sh_phase_screen
    return f(p["r0"], p["N"], p["delta"], p["L0"], p["l0"], seed=_seed_obj(seed))


def _bytes(a):
    a = numpy.asarray(a)
    return (str(a.dtype), a.shape, numpy.ascontiguousarray(a).tobytes())


# ----------------------------------------------------------------------------- reference table

def _table_slot(family, slot, depth):
    kind, p, seed = SLOTS[family][slot]
    obj = _new(kind, p, seed)
    out = [_bytes(obj.scrn)]
    for _ in range(depth):
        obj.add_row()
        out.append(_bytes(obj.scrn))
    return out


def _table_func(family, op):
    kind, p, seed = FUNCS[family][op]
    return _bytes(_fn(kind, p, seed))


_TABLE = None


def setup(tier):
    """every reference artefact in its own pristine forked child of this (pristine) parent"""
    global _TABLE
    jobs, keys = [], []
    for family in SLOTS:
        for slot, (kind, p, seed) in SLOTS[family].items():
            if seed is None:
                continue
            jobs.append((0, family, slot, _depth(tier, family)))
            keys.append((family, slot))
        for op, (kind, p, seed) in FUNCS[family].items():
            if seed is None:
                continue
            jobs.append((1, family, op, 0))
            keys.append((family, op))
    res = isolated_map(_table_job, jobs)
    _TABLE = dict(zip(keys, res))


def _table_job(which, family, name, depth):
    return _table_slot(family, name, depth) if which == 0 else _table_func(family, name)


def cases(tier):
    for family in SLOTS:
        for op in _ops(family):
            if op.startswith("row_"):
                continue     # no object alive at the root
            yield Case("hist:%s:first=%s:depth=%d" % (family, op, _depth(tier, family)),
                       {"kind": "hist", "family": family, "first": op, "depth": _depth(tier, family)}, True)
    for kind in ("ft", "ftsh", "vk", "fried"):
        yield Case("distinct_seeds:%s" % kind, {"kind": "distinct", "what": kind})
    yield Case("unseeded_differ", {"kind": "unseeded"})


class _W(ss.World):
    """world whose unseeded objects are abstracted in the key"""

    def components(self):
        c = {}
        fam = self.family
        for k, v in self.objects.items():
            if k == "rows":
                c["rows"] = repr(sorted(v.items()))
            elif SLOTS[fam][k][2] is None:
                c["obj:" + k] = "unseeded:rows=%d" % self.objects["rows"].get(k, 0)
            else:
                c["obj:" + k] = ss.obj_digest(v)
        st = numpy.random.get_state()
        c["numpy.global_rng"] = digest([st[0], st[1], st[2], st[3], st[4]])
        c["module_globals"] = ss.module_globals_digest(self.modules)
        return c


def evaluate(p):
    if p["kind"] == "hist":
        return _hist(p)
    if p["kind"] == "distinct":
        return _distinct(p["what"])
    return _unseeded()


def _apply_factory(family):
    def _apply(w, op):
        rows = w.objects["rows"]
        if op.startswith("new_"):
            slot = op[4:]
            w.objects[slot] = _new(*SLOTS[family][slot])
            rows[slot] = 0
            return None
        if op.startswith("row_"):
            slot = op[4:]
            w.objects[slot].add_row()
            rows[slot] += 1
            return None
        if op in FUNCS[family]:
            return _fn(*FUNCS[family][op])
        if op == "np_seed0":
            numpy.random.seed(0)
        elif op == "np_seed5":
            numpy.random.seed(5)
        elif op == "np_normal3":
            numpy.random.standard_normal(3)
        elif op == "np_shuffle":
            numpy.random.shuffle(numpy.arange(5))
        elif op == "opt_grouping":
            from aotools.turbulence import profile_compression as pc
            pc.optimal_grouping(2, 3, numpy.array([1., 2., 1., 3., 2., 1.]) * 1e-15,
                                numpy.linspace(0, 10000., 6))
        return None
    return _apply


def _hist(p):
    from aotools.turbulence import infinitephasescreen as ips, phasescreen, turb
    o = Out()
    depth, family = p["depth"], p["family"]
    table = _TABLE
    numpy.random.seed(12345)            # owned: the initial global state is part of the input
    world = _W({"rows": {}}, modules=(ips, phasescreen, turb))
    world.family = family
    apply_op = _apply_factory(family)
    seeded_slots = [s for s, v in SLOTS[family].items() if v[2] is not None]
    seeded_funcs = [f for f, v in FUNCS[family].items() if v[2] is not None]
    seeded_ops = set(["new_" + s for s in seeded_slots] + ["row_" + s for s in seeded_slots] + seeded_funcs)
    interleaved = {"n": 0}

    def alphabet(w):
        live = w.objects["rows"]
        out = []
        for op in _ops(family):
            if op.startswith("row_"):
                slot = op[4:]
                if slot not in live or live[slot] >= depth:
                    continue
            out.append(op)
        return out

    def verify(hist, op, pre, w, result, loop):
        sub = "h=%s" % ",".join(hist + (op,))
        rows = w.objects["rows"]
        for slot in seeded_slots:
            if slot in rows:
                o.check("seeded_object_equals_isolated_reference",
                        _bytes(w.objects[slot].scrn) == table[(family, slot)][rows[slot]], sub=sub + ":" + slot,
                        detail={"slot": slot, "rows": rows[slot], "params": SLOTS[family][slot][1]})
        if op in seeded_funcs:
            o.check("seeded_function_equals_isolated_reference", _bytes(result) == table[(family, op)], sub=sub,
                    detail={"params": FUNCS[family][op][1]})
        post = w.components()
        if op in seeded_ops:
            o.check("seeded_op_leaves_global_rng_untouched",
                    pre["numpy.global_rng"] == post["numpy.global_rng"], sub=sub)
        # an operation on one object never changes another object
        touched = op[4:] if (op.startswith("new_") or op.startswith("row_")) else None
        others = [k for k in ss.changed(pre, post)
                  if k.startswith("obj:") and k != "obj:" + str(touched)]
        o.check("other_objects_untouched", not others, sub=sub, detail=others)
        if len(set(hist + (op,))) > 1:
            interleaved["n"] += 1

    first = p["first"]
    pre = world.components()
    res = apply_op(world, first)
    verify((), first, pre, world, res, False)
    st = ss.bfs(world, alphabet, apply_op,
                lambda hist, op, pre, w, result, loop: verify((first,) + hist, op, pre, w, result, loop),
                depth - 1)
    o.stat("states", st["states"] + 1)
    o.stat("transitions", st["transitions"] + 1)
    o.stat("self_loops", st["self_loops"])
    o.stat("traces_validated_against_impl", st["transitions"] + 1)
    o.stat("nontrivial", interleaved["n"])
    if st["capped"]:
        o.stat("caps_hit", 1)
    o.outcome(sorted((str(k), digest(v)) for k, v in table.items() if k[0] == family))
    return o


def _distinct(what):
    from aotools.turbulence import infinitephasescreen as ips, phasescreen as ps
    o = Out()
    seen = {}
    ft = (FTB["r0"], FTB["N"], FTB["delta"], FTB["L0"], FTB["l0"])
    for seed in list(range(32)) + BIG_SEEDS:
        if what == "ft":
            a = ps.ft_phase_screen(*ft, seed=seed)
        elif what == "ftsh":
            a = ps.ft_sh_phase_screen(*ft, seed=seed)
        elif what == "vk":
            s = _new("vk", VKB, seed)
            s.add_row()
            a = s.scrn
        else:
            s = _new("fr", FRB, seed)
            s.add_row()
            a = s.scrn
        d = digest(a)
        o.check("different_seeds_give_different_screens", d not in seen, sub="%s:seed=%d" % (what, seed),
                detail={"same_as_seed": seen.get(d)})
        seen[d] = seed
        # the same seed again gives the same bytes
        if what == "ft":
            b = ps.ft_phase_screen(*ft, seed=seed)
        elif what == "ftsh":
            b = ps.ft_sh_phase_screen(*ft, seed=seed)
        elif what == "vk":
            s = _new("vk", VKB, seed)
            s.add_row()
            b = s.scrn
        else:
            s = _new("fr", FRB, seed)
            s.add_row()
            b = s.scrn
        o.check("same_seed_same_bytes", _bytes(a) == _bytes(b), sub="%s:seed=%d" % (what, seed))
    o.stat("lib_calls", 2 * (32 + len(BIG_SEEDS)))
    return o


def _unseeded():
    from aotools.turbulence import phasescreen as ps
    o = Out()
    ft = (FTB["r0"], FTB["N"], FTB["delta"], FTB["L0"], FTB["l0"])

    def rows(kind, base):
        def f():
            s = _new(kind, base, None)
            a = numpy.array(s.scrn)
            s.add_row()
            return numpy.concatenate([a.ravel(), numpy.asarray(s.scrn).ravel()])
        return f
    saved = numpy.random.get_state()
    for name, f in (("ft", lambda: ps.ft_phase_screen(*ft)), ("ftsh", lambda: ps.ft_sh_phase_screen(*ft)),
                    ("vk", rows("vk", VKB)), ("fried", rows("fr", FRB))):
        # every way the history can prepare NumPy's global generator before the two calls
        for prep_name, prep in (("none", lambda: None), ("np_seed3_before_each", lambda: numpy.random.seed(3)),
                                ("set_state_before_each", lambda: numpy.random.set_state(saved))):
            prep()
            a = f()
            prep()
            b = f()
            o.check("unseeded_calls_differ", _bytes(a) != _bytes(b), sub="%s:global=%s" % (name, prep_name))
    o.stat("lib_calls", 24)
    return o
