"""C10 Optical propagators are linear and conserve power.

E1 x E2: for every even grid size N in the bound and every configuration of the lattice
(wavelength x input spacing x magnification / focal length x distance of both signs x the
scalar type the parameters are passed in) the COMPLETE operator matrix T of
each of the four propagators is extracted from all N^2 unit inputs e_k and all i*e_k.
  * complex linearity   T(i e_k) = i T(e_k) for every k, superposition on a family of
                        combinations of basis vectors
  * power conservation  T^H T * d_out^2 = d_in^2 * I   (the polarised form of
                        sum|U_out|^2 d_out^2 = sum|U_in|^2 d_in^2, hence for EVERY complex input)
Output spacings are the ones the property / docstrings name: outputSpacing (angular spectrum),
d2 (two-step), lambda z / (N d1) (one-step), lambda f / (N d1) (lens).
"""
import itertools
import warnings

import numpy

from mc import Out, Case
from mc import linear

PROPERTY = "C10"
LEVEL = "exploration"
TECHNIQUE = ("bounded exhaustive enumeration (even N <= bound x wavelengths x spacings x magnifications / "
             "focal lengths x distances of both signs x scalar type of the parameters) with basis exhaustion of each "
             "propagator (full N^2 x N^2 operator from all unit inputs e_k and i e_k); per case a call history "
             "with every single-parameter sibling configuration and the other propagators in between")
RULE = ("cases = product(propagator in {angular_spectrum, one_step, two_step, lens}, even N, wavelength, "
        "input spacing, magnification (angular spectrum, two-step) or focal length (lens), distance z, "
        "type of z in {float, numpy.float64} (a sub-lattice and the unit-less rows also with every integer-valued "
        "parameter as Python int / numpy.int64)); each case extracts the whole operator; every case is "
        "non-trivial (z != 0, N >= 2, quadratic phase factors differ from 1)")
ASSUMPTIONS = [
    "values outside the (N, wavelength, spacing, magnification, distance, focal length) lattice are not "
    "covered; for an enumerated configuration the identities are decided for every complex input by "
    "linearity, which is itself tested on the basis (e_k, i e_k, superpositions)",
    "square even grids only (the propagators assume square inputs; odd N is outside the quantifier and is not run)",
    "tolerance 1e-10 on the dimensionless operator identities (measured residuals on the unchanged library: "
    "<= 2e-15 for the complete operators, <= 1e-12 for the unnormalised Gram residual of the 26 unit fields on "
    "grids of up to 2050 points, which grows like N^2 times the rounding unit)",
    "derived obligations, not literal words of the statement, are checked because 'P is a linear function of the "
    "field' implies them for a function of the VALUES of its argument: the caller's input array is left as it "
    "was, a result the caller holds is not overwritten by a later call, a result is not shared with state kept "
    "by the library, the zero field gives the zero field exactly (0 * finite = 0), the result does not depend "
    "on the memory layout / exactly-representing dtype of the field nor on which other configuration was "
    "propagated before, a keyword call (documented parameter names; skipped when the names are not accepted) "
    "gives the positional result",
    "a field or parameter stored in single precision is NOT required to give double-precision accuracy: "
    "float32 / complex64 fields are compared at 1e-5 per radian of the largest quadratic phase of the "
    "configuration (at least 1e-5); single-precision scalars for wavelength / spacing / distance are not run",
]
ENGINES = ["E1-product-enumeration", "E2-basis-exhaustion"]
LEVEL_TEXT = ("Every even N <= 6 (quick) / <= 16 (thorough), 2 wavelengths, 2 input spacings, 6 (thorough: 10) "
              "magnifications, 5 (10) distances of both signs (3 (6) focal lengths for the lens), each with z as "
              "Python float and as numpy.float64 (a sub-lattice and two unit-less rows also with Python int and "
              "numpy.int64 parameters), plus six rows of extreme geometries, are enumerated completely for all "
              "four propagators; for each the full operator "
              "matrix is extracted from all unit inputs, so linearity and power conservation are decided "
              "for all complex inputs of that size, not for sampled fields. Grids of 64 ... 600 (thorough: 2050) "
              "points, powers of two included, are covered on the span of 26 unit fields and two dense fields.")
LEVEL_NOTE = ("Trusted: numpy matrix arithmetic. Not covered: N beyond the bound, odd N, non-square inputs, parameter "
              "values outside the lattice, single-precision scalar parameters. Output spacing of the "
              "single-transform propagators is taken as |lambda z / (N d1)| (only its square enters).")

TOL = 1e-10
TOL32 = 1e-5          # single-precision fields, per radian of the largest quadratic phase (see _phase_scale)
WVLS = [0.5e-6, 1.5e-6]
D1S = [0.01, 0.05]
MAGS = [1.0, 0.5, 2.0, 1.3, 1.005, 0.9999]      # incl. magnifications within a percent of 1
ZS = [100.0, -100.0, 2500.0, -2500.0, 1.0e4]
FOCALS = [0.1, 2.5, -2.5]
ZTYPES = ["float", "np"]
# every integer-valued parameter (wavelength, spacings, distance) handed over as Python int / numpy.int64
INT_TYPES = ["int", "np.int64"]


def NS(tier):
    # even N only: the statement quantifies over even square grids (an implementation may refuse odd N)
    return [2, 4, 6] if tier == "quick" else [2, 4, 6, 8, 10, 12, 14, 16]


def _focals(tier):
    return FOCALS if tier == "quick" else FOCALS + [-0.1, 30.0, 400.0]


def BOUNDS(tier):
    return {"N": NS(tier), "N_big(span of 26 unit fields + dense fields)": BIG_NS[tier] + HUGE_NS[tier],
            "wavelengths": WVLS, "input_spacings": D1S, "magnifications": _mags(tier),
            "distances": _zs(tier), "focal_lengths": _focals(tier), "z_scalar_types": ZTYPES,
            "integer_parameter_types(sub-lattice N=4 and unit-less rows)": INT_TYPES,
            "extreme_rows(wavelength, spacing, distances, focal lengths)": [list(r) for r in EXTREME],
            "unitless_rows(wavelength, spacing, distances, focal lengths)": [list(r) for r in UNIT_ROWS],
            "big_long_path_rows": [list(r) for r in BIG_EXTRA],
            "sibling_histories": "per case: wavelength x3, spacing x5, -z, another magnification, N+2, the other "
                                 "propagators on the same geometry, one-step at the two-step's first leg",
            "propagators": ["angular_spectrum", "one_step", "two_step", "lens"]}


def _zs(tier):
    return ZS if tier == "quick" else ZS + [1.0, -1.0, 37.5, -7.0e4, 3.0e5]


def _mags(tier):
    return MAGS if tier == "quick" else MAGS + [0.25, 0.77, 3.0, 1.001]


def _integral(v):
    return float(v) == int(v)


def cases(tier):
    for c in big_cases(tier):
        yield c
    for c in huge_cases(tier):
        yield c
    for N in NS(tier):
        for wvl, d1, zt in itertools.product(WVLS, D1S, ZTYPES):
            base = "N=%d:lam=%g:d1=%g" % (N, wvl, d1)
            for z in _zs(tier):
                for m in _mags(tier):
                    for prop in ("angular_spectrum", "two_step"):
                        yield Case("%s:%s:m=%g:z=%g:ztype=%s" % (prop, base, m, z, zt),
                                   {"prop": prop, "N": N, "wvl": wvl, "d1": d1, "m": m, "z": z, "zt": zt})
                yield Case("one_step:%s:z=%g:ztype=%s" % (base, z, zt),
                           {"prop": "one_step", "N": N, "wvl": wvl, "d1": d1, "z": z, "zt": zt})
            for f in _focals(tier):
                yield Case("lens:%s:f=%g:ztype=%s" % (base, f, zt),
                           {"prop": "lens", "N": N, "wvl": wvl, "d1": d1, "z": f, "zt": zt})
    # the distance / focal length as Python int and numpy.int64 (a height or a focal length typed `100`, or read from
    # an integer array): one grid size and one (wavelength, spacing) pair of the lattice, every integral distance
    N, wvl, d1 = 4, WVLS[0], D1S[1]
    base = "N=%d:lam=%g:d1=%g" % (N, wvl, d1)
    for zt in INT_TYPES:
        for z in _zs(tier):
            if not _integral(z):
                continue
            for m in _mags(tier):
                for prop in ("angular_spectrum", "two_step"):
                    yield Case("%s:%s:m=%g:z=%g:ztype=%s" % (prop, base, m, z, zt),
                               {"prop": prop, "N": N, "wvl": wvl, "d1": d1, "m": m, "z": z, "zt": zt})
            yield Case("one_step:%s:z=%g:ztype=%s" % (base, z, zt),
                       {"prop": "one_step", "N": N, "wvl": wvl, "d1": d1, "z": z, "zt": zt})
        for f in _focals(tier) + [3.0, -40.0]:
            if _integral(f):
                yield Case("lens:%s:f=%g:ztype=%s" % (base, f, zt),
                           {"prop": "lens", "N": N, "wvl": wvl, "d1": d1, "z": f, "zt": zt})
    # corners of the parameter space far from the adaptive-optics lattice above ("all wavelengths, samplings and
    # distances"): sampling finer than the wavelength, very long and very short distances, millimetre waves with a
    # long focal length (a physically large focal plane); unit-less / non-SI numbers (wavelength 1, spacing 1) with
    # every parameter also as Python int and numpy.int64
    for N in (4, 6):
        for rows, zts in ((EXTREME, ("float",)), (UNIT_ROWS, ("float",) + tuple(INT_TYPES))):
            for (wvl, d1, zs, fs), zt in itertools.product(rows, zts):
                base = "N=%d:lam=%g:d1=%g" % (N, wvl, d1)
                for z in zs:
                    for m in (1.0, 2.0, 0.5):
                        for prop in ("angular_spectrum", "two_step"):
                            yield Case("%s:%s:m=%g:z=%g:ztype=%s" % (prop, base, m, z, zt),
                                       {"prop": prop, "N": N, "wvl": wvl, "d1": d1, "m": m, "z": z, "zt": zt})
                    yield Case("one_step:%s:z=%g:ztype=%s" % (base, z, zt),
                               {"prop": "one_step", "N": N, "wvl": wvl, "d1": d1, "z": z, "zt": zt})
                for f in fs:
                    yield Case("lens:%s:f=%g:ztype=%s" % (base, f, zt),
                               {"prop": "lens", "N": N, "wvl": wvl, "d1": d1, "z": f, "zt": zt})


# even sizes only; powers of two (the sizes adaptive-optics simulations use: a radix-2 / planned-FFT path) next to
# sizes that are not multiples of 128 just above 512 / 1024 / 2048
BIG_NS = {"quick": [64, 128, 130], "thorough": [64, 128, 130, 256, 258]}
HUGE_NS = {"quick": [512, 600], "thorough": [512, 600, 1024, 1030, 2048, 2050]}
# (wavelength, input spacing, distances, focal lengths) on the big grids besides z = +-2500 m:
# paths longer than N d1 d2 / lambda (the sampled band no longer holds the chirp) and sub-wavelength sampling
BIG_EXTRA = [
    (0.5e-6, 0.01, [1.0e6, -3.0e5], [1.0e3]),
    (1.0e-6, 0.4e-6, [3.0e-6, -5.0e-5], [1.0e-4]),
]


def big_cases(tier):
    """grids far above the operator-extraction bound: the propagator restricted to the span of 26 unit fields
    (corners, edges, centre, asymmetric interior points; real and imaginary unit)"""
    for N in BIG_NS[tier]:
        for wvl, d1 in ((0.5e-6, 0.01), (1.5e-6, 0.05)):
            base = "N=%d:lam=%g:d1=%g" % (N, wvl, d1)
            for z in (2500.0, -2500.0):
                for m in (1.0, 1.3, 0.5):
                    for prop in ("angular_spectrum", "two_step"):
                        yield Case("big:%s:%s:m=%g:z=%g" % (prop, base, m, z),
                                   {"big": True, "prop": prop, "N": N, "wvl": wvl, "d1": d1, "m": m, "z": z, "zt": "float"})
                yield Case("big:one_step:%s:z=%g" % (base, z),
                           {"big": True, "prop": "one_step", "N": N, "wvl": wvl, "d1": d1, "z": z, "zt": "float"})
            for f in (2.5, -2.5):
                yield Case("big:lens:%s:f=%g" % (base, f),
                           {"big": True, "prop": "lens", "N": N, "wvl": wvl, "d1": d1, "z": f, "zt": "float"})
        for wvl, d1, zs, fs in BIG_EXTRA:
            base = "N=%d:lam=%g:d1=%g" % (N, wvl, d1)
            for z in zs:
                for m in (1.0, 1.3):
                    for prop in ("angular_spectrum", "two_step"):
                        yield Case("big:%s:%s:m=%g:z=%g" % (prop, base, m, z),
                                   {"big": True, "prop": prop, "N": N, "wvl": wvl, "d1": d1, "m": m, "z": z, "zt": "float"})
                yield Case("big:one_step:%s:z=%g" % (base, z),
                           {"big": True, "prop": "one_step", "N": N, "wvl": wvl, "d1": d1, "z": z, "zt": "float"})
            for f in fs:
                yield Case("big:lens:%s:f=%g" % (base, f),
                           {"big": True, "prop": "lens", "N": N, "wvl": wvl, "d1": d1, "z": f, "zt": "float"})


def huge_cases(tier):
    for N in HUGE_NS[tier]:
        wvl, d1 = 0.5e-6, 0.01
        base = "N=%d:lam=%g:d1=%g" % (N, wvl, d1)
        for m in (1.0, 1.3):
            for prop in ("angular_spectrum", "two_step"):
                yield Case("big:%s:%s:m=%g:z=2500" % (prop, base, m),
                           {"big": True, "prop": prop, "N": N, "wvl": wvl, "d1": d1, "m": m, "z": 2500.0, "zt": "float"})
        yield Case("big:one_step:%s:z=-2500" % base,
                   {"big": True, "prop": "one_step", "N": N, "wvl": wvl, "d1": d1, "z": -2500.0, "zt": "float"})
        yield Case("big:lens:%s:f=2.5" % base,
                   {"big": True, "prop": "lens", "N": N, "wvl": wvl, "d1": d1, "z": 2.5, "zt": "float"})
        # a path longer than N d1 d2 / lambda on the largest grids as well
        yield Case("big:angular_spectrum:%s:m=1.3:z=1e+06" % base,
                   {"big": True, "prop": "angular_spectrum", "N": N, "wvl": wvl, "d1": d1, "m": 1.3, "z": 1.0e6, "zt": "float"})


def _dense(N, which=0):
    """dense complex fields without a single zero pixel (real parts are odd multiples of 1/4 or 1/2)"""
    idx = numpy.arange(N * N)
    if which == 0:
        return (((idx * 7) % 5 - 1.5) + 1j * ((idx * 3) % 7 - 3.0)).reshape(N, N)
    return (((idx * 11) % 13 - 6.25) + 1j * ((idx * 5) % 11 - 5.0)).reshape(N, N)


def _phase_scale(p):
    """largest argument (radians, at least 1) of the quadratic phase factors of configuration p: the accuracy an
    implementation that keeps a single-precision field in single precision throughout can reach is the single
    precision rounding unit times this number"""
    N, wvl, d1 = p["N"], float(p["wvl"]), float(p["d1"])
    z = abs(float(p["z"]))
    if p["prop"] in ("angular_spectrum", "two_step"):
        d2 = p["m"] * d1
    else:
        d2 = wvl * z / (N * d1)
    r2 = 2.0 * (N / 2.0 * max(d1, d2)) ** 2
    legs = [z]
    if p["prop"] == "two_step":
        m = p["m"]
        z1 = z / (1 + m) if m == 1 else z / abs(1 - m)
        legs = [z1, abs(z - z1) if m == 1 else z1 * m]
        r2 = max(r2, 2.0 * (wvl * z1 / (2.0 * d1)) ** 2)
    ph = [numpy.pi / (wvl * max(l, 1e-300)) * r2 for l in legs]
    if p["prop"] == "angular_spectrum":
        # Q1 / Q3 carry (1 - m), the transfer function pi lambda z f^2 / m up to the corner frequency
        ph = [ph[0] * max(1.0, abs(1.0 - p["m"])), numpy.pi * wvl * z / (2.0 * p["m"] * d1 ** 2)]
    return max([1.0] + ph)


def _rel(a, b):
    a = numpy.asarray(a)
    b = numpy.asarray(b)
    if a.shape != b.shape:
        return float("inf")
    e = _maxabs(a - b) / max(_maxabs(b), 1e-300)
    return e if e == e else float("inf")


def _scale_and_reuse(o, fn, x, p):
    """P(s U) = s P(U) over 60 decades of amplitude (relative to the scaled result: an absolute threshold anywhere
    inside shows), a call history on one caller-owned complex128 field (P(x) evaluated, x used again), the same
    values in other memory layouts / dtypes, and call histories with sibling configurations in between"""
    from mc import variants
    base = numpy.asarray(fn(x.copy()))
    zero = numpy.asarray(fn(numpy.zeros_like(x)))
    o.check("zero_field_gives_zero_field", zero.shape == base.shape and bool(numpy.all(zero == 0)),
            detail=None if zero.shape == base.shape and numpy.all(zero == 0) else "%d non-zero / non-finite samples" % int(numpy.sum(zero != 0)))
    for s_ in (1e-30, 1e-18, 1e-9, 1e9, 1e30):
        got = numpy.asarray(fn(x * s_))
        o.close("homogeneous_over_amplitude", _maxabs(got / s_ - base) / max(_maxabs(base), 1e-300), TOL, sub="s=%g" % s_)
    k = variants.check_reuse(o, "input_field", fn, x, TOL, mutate=lambda a: a.__imul__(-0.5j))
    o.stat("lib_calls", 7 + k)
    # the same values stored differently (Fortran order, transposed / strided views, a read-only array; for a
    # non-negative integer-valued real field also int64 / int32 / uint8 / uint16): same field, same result.
    # Results are normalised to max|P(x)| = 1, so TOL is a relative tolerance.
    s0 = max(_maxabs(base), 1e-300)

    def fnn(a):
        return numpy.asarray(fn(a)) / s0
    exact = ("int64", "int32", "uint8", "uint16")
    k = variants.check_storage(o, "input_independent_of_storage", fnn, x, TOL, sub="complex", kinds=exact)
    xr = ((numpy.arange(x.size) * 5) % 7).astype(float).reshape(x.shape)
    k += variants.check_storage(o, "input_independent_of_storage", fnn, xr, TOL, sub="real", kinds=exact)
    # single-precision storage of the same values (exactly representable): single-precision agreement
    ps = _phase_scale(p)
    y64 = numpy.asarray(fn(x.astype(numpy.complex64)))
    o.close("single_precision_field_is_same_field", _rel(y64, base) / ps, TOL32, sub="complex64")
    y32 = numpy.asarray(fn(xr.astype(numpy.float32)))
    o.close("single_precision_field_is_same_field", _rel(y32, numpy.asarray(fn(xr.astype(complex)))) / ps, TOL32, sub="float32")
    o.stat("lib_calls", k + 3)
    _histories(o, p, x, base)
    _keyword_call(o, p, x, base)


def _siblings(p):
    """configurations that differ from p in ONE parameter (and the other propagators on the same geometry):
    state the library might keep under a key that omits that parameter shows when the two are called in turn"""
    out = []

    def sib(tag, **kw):
        q = dict(p)
        q.pop("big", None)
        q.update(kw)
        out.append((tag, q))
    sib("wavelength", wvl=p["wvl"] * 3)
    sib("spacing", d1=p["d1"] * 5)
    sib("sign_of_z", z=-p["z"])
    sib("N", N=p["N"] + 2)
    if p["prop"] in ("angular_spectrum", "two_step"):
        m = p["m"]
        sib("magnification", m=1.3 if m != 1.3 else 2.0)
        sib("other_propagator", prop="two_step" if p["prop"] == "angular_spectrum" else "angular_spectrum")
        sib("one_step", prop="one_step")
        sib("lens", prop="lens")
        if p["prop"] == "two_step":
            # the one-step propagator over the first leg of the two-step path
            sib("one_step_first_leg", prop="one_step", z=p["z"] / (1 + m) if m == 1 else p["z"] / (1 - m), zt="float")
    elif p["prop"] == "one_step":
        sib("lens", prop="lens")
        sib("two_step", prop="two_step", m=1.3)
        sib("two_step_first_leg", prop="two_step", m=0.5, z=p["z"] / 2.0, zt="float")   # first leg z' / (1 - m) = z
        sib("angular_spectrum", prop="angular_spectrum", m=1.0)
    else:
        sib("one_step", prop="one_step")
        sib("two_step", prop="two_step", m=1.3)
        sib("angular_spectrum", prop="angular_spectrum", m=1.0)
    return out


def _histories(o, p, x, y0):
    """for every sibling configuration s:  s(x') ; P(x).  The sibling's own output conserves power (it may read
    what P left behind) and P(x) is what it was before (it may read what s left behind).  On a library without
    state this is 2 plain calls per sibling."""
    if p["N"] > 600:
        return
    d1 = float(p["d1"])
    for tag, q in _siblings(p):
        fs, dout_s = propagator(q)
        xs = x if q["N"] == p["N"] else _dense(q["N"])
        ys = numpy.asarray(fs(xs.copy()))
        pin = float(numpy.sum(numpy.abs(xs) ** 2) * float(q["d1"]) ** 2)
        pout = float(numpy.sum(numpy.abs(ys) ** 2) * dout_s ** 2)
        o.close("sibling_call_conserves_power", abs(pout / pin - 1.0), TOL, sub=tag)
        fn, _ = propagator(p)
        y = numpy.asarray(fn(x.copy()))
        o.close("same_result_after_sibling_call", _rel(y, y0), TOL, sub=tag)
        o.stat("lib_calls", 2)


KEYWORDS = {
    "angular_spectrum": ("inputComplexAmp", "wvl", "inputSpacing", "outputSpacing", "z"),
    "two_step": ("Uin", "wvl", "d1", "d2", "z"),
    "one_step": ("Uin", "wvl", "d1", "z"),
    "lens": ("Uin", "wvl", "d1", "f"),
}


def _keyword_call(o, p, x, y0):
    """the documented parameter names as keywords give the positional result; an implementation that does not
    accept these names is not judged (the statement does not name them)"""
    fk, _ = propagator(p, keywords=True)
    try:
        yk = numpy.asarray(fk(x.copy()))
    except TypeError:
        o.stat("keyword_call_not_claimed", 1)
        return
    o.stat("lib_calls", 1)
    o.close("keyword_call_same_result", _rel(yk, y0), TOL)


def _big(p):
    o = Out()
    N, d1 = p["N"], p["d1"]
    fn, d_out = propagator(p)
    c = N // 2
    pts = [(0, 0), (0, N - 1), (N - 1, 0), (N - 1, N - 1), (c, c), (c - 1, c), (c, c + 1), (0, c), (c, 0),
           (N - 1, c - 3), (5, N - 7), (N // 3, 2 * N // 3 + 1), (2 * N // 3, N // 5)]
    cols, ins = [], []
    with warnings.catch_warnings():
        warnings.simplefilter("ignore")
        for (i, j) in pts:
            for unit in (1.0, 1j):
                e = numpy.zeros((N, N), dtype=complex)
                e[i, j] = unit
                cols.append(numpy.asarray(fn(e.copy())).reshape(-1))
                ins.append(((i, j), unit))
    o.stat("lib_calls", len(cols))
    T = numpy.array(cols).T
    del cols
    finite = bool(numpy.all(numpy.isfinite(T)))
    o.check("finite_output", finite)
    if not finite or T.shape[0] != N * N:
        o.check("output_shape", T.shape[0] == N * N, detail=T.shape)
        return o
    scale = _maxabs(T)
    o.check("operator_nonzero", scale > 0)
    if not scale > 0:
        return o
    o.close("complex_linear", _maxabs(T[:, 1::2] - 1j * T[:, 0::2]) / scale, TOL)
    # power conserved for every field in the span of these unit fields: Gram matrix = that of the inputs
    # (unnormalised residual of N^2-term sums: 8e-13 at N = 2050 on the unchanged library, TOL is 130 x that)
    Gin = numpy.array([[numpy.conj(ua) * ub if pa == pb else 0.0 for (pb, ub) in ins] for (pa, ua) in ins])
    G = T.conj().T @ T * (d_out / d1) ** 2
    o.close("power_conserved", _maxabs(G - Gin), TOL)
    coef = numpy.array([(1 + (3 * k) % 5) * (1 - 2 * (k % 3 == 0)) for k in range(len(ins))], dtype=float)
    x = numpy.zeros((N, N), dtype=complex)
    for ck, (pk, uk) in zip(coef, ins):
        x[pk] += ck * uk
    with warnings.catch_warnings():
        warnings.simplefilter("ignore")
        y = numpy.asarray(fn(x.copy())).reshape(-1)
        o.close("superposition", _maxabs(y - T @ coef) / (numpy.sum(numpy.abs(coef)) * scale), TOL)
        del T
        # dense fields (every pixel lit): the plain sums of the statement, and additivity of two dense fields
        xd = _dense(N)
        yd = numpy.asarray(fn(xd.copy()))
        o.stat("lib_calls", 2)
        pin = float(numpy.sum(numpy.abs(xd) ** 2) * d1 ** 2)
        pout = float(numpy.sum(numpy.abs(yd) ** 2) * d_out ** 2)
        o.close("power_conserved_dense_field", abs(pout / pin - 1.0), TOL)
        xe = _dense(N, 1)
        ye = numpy.asarray(fn(xe.copy()))
        ys = numpy.asarray(fn(xd + (2 - 1j) * xe))
        o.stat("lib_calls", 2)
        o.close("additive_dense_fields", _maxabs(ys - (yd + (2 - 1j) * ye)) / max(_maxabs(yd) + 3 * _maxabs(ye), 1e-300), TOL)
        pin = float(numpy.sum(numpy.abs(xe) ** 2) * d1 ** 2)
        pout = float(numpy.sum(numpy.abs(ye) ** 2) * d_out ** 2)
        o.close("power_conserved_dense_field", abs(pout / pin - 1.0), TOL, sub="second_field")
        del ye, ys, xe
        if N <= 130:
            _scale_and_reuse(o, fn, xd, p)
        elif N <= 600:
            _histories(o, p, xd, yd)
        xr = numpy.round(xd.real + 0.5)
        for dt in (numpy.float64, numpy.int64):
            yr = numpy.asarray(fn(xr.astype(dt)))
            yc = numpy.asarray(fn(xr.astype(complex)))
            o.close("real_dtype_input_is_same_field", _maxabs(yr - yc) / max(_maxabs(yc), 1e-300), TOL, sub=numpy.dtype(dt).name)
            o.stat("lib_calls", 2)
    return o


# (wavelength, input spacing, distances, focal lengths)
EXTREME = [
    (1.0e-6, 0.4e-6, [3.0e-6, -3.0e-6, 5.0e-5], [1.0e-4]),          # sub-wavelength sampling
    (0.5e-6, 0.01, [1.0e6, -1.0e6, 1.0e-3], [1.0e3, -1.0e3]),       # very long / very short distance
    (3.0e-3, 0.005, [10.0, -10.0], [2.0, 50.0]),                    # mm waves: focal plane of order a metre
    (10.0e-6, 1.0e-5, [1.0, -0.2], [0.3]),                          # thermal IR, micron sampling
]
# unit-less / non-SI numbers (textbook units, nanometres): also run with every parameter as int / numpy.int64
UNIT_ROWS = [
    (1.0, 1.0, [100.0, -10.0, 1000.0], [10.0, -100.0]),
    (633.0, 10.0, [1.0e4, -1.0e4], [1.0e3]),
]


def _maxabs(a):
    a = numpy.asarray(a)
    return float(numpy.max(numpy.abs(a))) if a.size else 0.0


def _typed(v, zt):
    """the number v in the scalar type family zt (integer types only where v is integer-valued)"""
    if zt in ("int", "np.int64") and _integral(v):
        return int(v) if zt == "int" else numpy.int64(int(v))
    return float(v)


def propagator(p, keywords=False):
    """-> (fn(U) calling the real aotools propagator, |d_out|)"""
    import aotools.opticalpropagation as op
    N, zt = p["N"], p["zt"]
    wvl, d1 = _typed(p["wvl"], zt), _typed(p["d1"], zt)
    z = numpy.float64(p["z"]) if zt == "np" else _typed(p["z"], zt)
    names = KEYWORDS[p["prop"]]
    if p["prop"] in ("angular_spectrum", "two_step"):
        d_out = p["m"] * float(p["d1"])
        f = op.angularSpectrum if p["prop"] == "angular_spectrum" else op.twoStepFresnel
        args = (wvl, d1, _typed(d_out, zt), z)
    else:
        d_out = abs(float(p["wvl"]) * float(p["z"]) / (N * float(p["d1"])))
        f = op.oneStepFresnel if p["prop"] == "one_step" else op.lensAgainst
        args = (wvl, d1, z)
    if keywords:
        return (lambda U: f(**dict(zip(names, (U,) + args)))), d_out
    return (lambda U: f(U, *args)), d_out


def evaluate(p):
    if p.get("big"):
        return _big(p)
    o = Out()
    N, d1 = p["N"], p["d1"]
    shape = (N, N)
    n = N * N
    fn, d_out = propagator(p)
    with warnings.catch_warnings():
        warnings.simplefilter("ignore")      # a non-finite result is reported by the clause below
        T, c1 = linear.operator(fn, shape, out_shape=shape)
        Ti, c2 = linear.operator_imag(fn, shape)
    o.stat("lib_calls", c1 + c2)
    finite = bool(numpy.all(numpy.isfinite(T)) and numpy.all(numpy.isfinite(Ti)))
    o.check("finite_output", finite,
            detail=None if finite else "%d of %d operator entries are NaN/inf"
            % (int(numpy.sum(~numpy.isfinite(T))), T.size))
    if not finite:
        return o
    scale = _maxabs(T)
    o.check("operator_nonzero", scale > 0)
    if not scale > 0:
        return o
    o.close("complex_linear", _maxabs(Ti - 1j * T) / scale, TOL)
    e, k = linear.superposition_error(fn, shape, T)
    o.stat("lib_calls", k)
    # the combinations have 1-norm <= 4 n, so |fn(x) - T x| / (4 n scale) is a relative residual
    o.close("superposition", e / (4.0 * n * scale), TOL)
    # a field stored in a real dtype is the same field (zero imaginary part): every real-dtype unit input and
    # a dense real-dtype input must give what the complex-dtype operator predicts (linearity over complex
    # coefficients of real basis fields: P(a + i b) = P(a) + i P(b))
    with warnings.catch_warnings():
        warnings.simplefilter("ignore")
        Tr, c3 = linear.operator(fn, shape, dtype=float, out_shape=shape)
    xr = ((numpy.arange(n) * 5) % 7 - 3.0)
    worst_r = _maxabs(Tr - T)
    for dt in (numpy.float64, numpy.int64):
        yr = numpy.asarray(fn(xr.reshape(shape).astype(dt)))
        worst_r = max(worst_r, _maxabs(yr.reshape(-1) - T @ xr) / (3.0 * n))
    o.close("real_dtype_input_is_same_field", worst_r / scale, TOL)
    # ... a float32 field to single precision (2e-8 on the unchanged library, where only the lens keeps the data in
    # single precision; an implementation that keeps a float32 field in single precision throughout reaches about
    # 1e-7 per radian of quadratic phase)
    yr = numpy.asarray(fn(xr.reshape(shape).astype(numpy.float32)))
    o.close("float32_input_is_same_field", _maxabs(yr.reshape(-1) - T @ xr) / (3.0 * n * scale) / _phase_scale(p), TOL32)
    o.stat("lib_calls", c3 + 3)
    G = T.conj().T @ T * (d_out / d1) ** 2
    o.close("power_conserved", _maxabs(G - numpy.eye(n)), TOL)
    # the same statement on one dense input (no pixel is zero), through the plain sum formula of the statement
    x = _dense(N)
    y = numpy.asarray(fn(x.copy()))
    o.stat("lib_calls", 1)
    pin = float(numpy.sum(numpy.abs(x) ** 2) * d1 ** 2)
    pout = float(numpy.sum(numpy.abs(y) ** 2) * d_out ** 2)
    o.close("power_conserved_dense_field", abs(pout / pin - 1.0), TOL)
    with warnings.catch_warnings():
        warnings.simplefilter("ignore")
        _scale_and_reuse(o, fn, x, p)
    o.outcome(numpy.round(T / scale, 6))
    return o
