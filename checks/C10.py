"""C10 Optical propagators are linear and conserve power.

E1 x E2: for every even grid size N in the bound and every configuration of the lattice
(wavelength x input spacing x magnification / focal length x distance of both signs x the
Python-float and numpy.float64 spelling of the distance) the COMPLETE operator matrix T of
each of the four propagators is extracted from all N^2 unit inputs e_k and all i*e_k.
  * complex linearity   T(i e_k) = i T(e_k) for every k, superposition on a family of
                        combinations of basis vectors
  * power conservation  T^H T * d_out^2 = d_in^2 * I   (the polarised form of
                        sum|U_out|^2 d_out^2 = sum|U_in|^2 d_in^2, hence for EVERY complex input)
Output spacings are the ones the property / docstrings name: outputSpacing (angular spectrum),
d2 (two-step), lambda z / (N d1) (one-step), lambda f / (N d1) (lens).
"""
import itertools
import warnings

import numpy

from mc import Out, Case
from mc import linear

PROPERTY = "C10"
LEVEL = "exploration"
TECHNIQUE = ("bounded exhaustive enumeration (even N <= bound x wavelengths x spacings x magnifications / "
             "focal lengths x distances of both signs x scalar type of z) with basis exhaustion of each "
             "propagator (full N^2 x N^2 operator from all unit inputs e_k and i e_k)")
RULE = ("cases = product(propagator in {angular_spectrum, one_step, two_step, lens}, even N, wavelength, "
        "input spacing, magnification (angular spectrum, two-step) or focal length (lens), distance z, "
        "type of z in {float, numpy.float64}); each case extracts the whole operator; every case is "
        "non-trivial (z != 0, N >= 2, quadratic phase factors differ from 1)")
ASSUMPTIONS = [
    "values outside the (N, wavelength, spacing, magnification, distance, focal length) lattice are not "
    "covered; for an enumerated configuration the identities are decided for every complex input by "
    "linearity, which is itself tested on the basis (e_k, i e_k, superpositions)",
    "square even grids only (the propagators assume square inputs; odd N is outside the quantifier)",
    "tolerance 1e-10 on the dimensionless operator identities (measured residuals <= 1e-14)",
]
ENGINES = ["E1-product-enumeration", "E2-basis-exhaustion"]
LEVEL_TEXT = ("Every even N <= 6 (quick) / <= 12 (thorough), 2 wavelengths, 2 input spacings, 4 magnifications, "
              "5 distances of both signs (3 focal lengths for the lens), each as Python float and as "
              "numpy.float64, are enumerated completely for all four propagators; for each the full operator "
              "matrix is extracted from all unit inputs, so linearity and power conservation are decided "
              "for all complex inputs of that size, not for sampled fields.")
LEVEL_NOTE = ("Trusted: numpy matrix arithmetic. Not covered: N beyond the bound, non-square inputs, parameter "
              "values outside the lattice. Output spacing of the single-transform propagators is taken as "
              "|lambda z / (N d1)| (only its square enters).")

TOL = 1e-10
WVLS = [0.5e-6, 1.5e-6]
D1S = [0.01, 0.05]
MAGS = [1.0, 0.5, 2.0, 1.3, 1.005, 0.9999]      # incl. magnifications within a percent of 1
ZS = [100.0, -100.0, 2500.0, -2500.0, 1.0e4]
FOCALS = [0.1, 2.5, -2.5]
ZTYPES = ["float", "np"]


def NS(tier):
    return [2, 4, 6] if tier == "quick" else [2, 3, 4, 5, 6, 7, 8, 10, 12, 14, 16]


def BOUNDS(tier):
    return {"N": NS(tier), "N_big(span of 26 unit fields + dense field)": BIG_NS[tier] + HUGE_NS[tier], "wavelengths": WVLS, "input_spacings": D1S, "magnifications": _mags(tier),
            "distances": _zs(tier), "focal_lengths": FOCALS if tier == "quick" else FOCALS + [-0.1, 30.0, 400.0], "z_scalar_types": ZTYPES,
            "propagators": ["angular_spectrum", "one_step", "two_step", "lens"]}


def _zs(tier):
    return ZS if tier == "quick" else ZS + [1.0, -1.0, 37.5, -7.0e4, 3.0e5]


def _mags(tier):
    return MAGS if tier == "quick" else MAGS + [0.25, 0.77, 3.0, 1.001]


def cases(tier):
    for c in big_cases(tier):
        yield c
    for c in huge_cases(tier):
        yield c
    for N in NS(tier):
        for wvl, d1, zt in itertools.product(WVLS, D1S, ZTYPES):
            base = "N=%d:lam=%g:d1=%g" % (N, wvl, d1)
            for z in _zs(tier):
                for m in _mags(tier):
                    for prop in ("angular_spectrum", "two_step"):
                        yield Case("%s:%s:m=%g:z=%g:ztype=%s" % (prop, base, m, z, zt),
                                   {"prop": prop, "N": N, "wvl": wvl, "d1": d1, "m": m, "z": z, "zt": zt})
                yield Case("one_step:%s:z=%g:ztype=%s" % (base, z, zt),
                           {"prop": "one_step", "N": N, "wvl": wvl, "d1": d1, "z": z, "zt": zt})
            for f in (FOCALS if tier == "quick" else FOCALS + [-0.1, 30.0, 400.0]):
                yield Case("lens:%s:f=%g:ztype=%s" % (base, f, zt),
                           {"prop": "lens", "N": N, "wvl": wvl, "d1": d1, "z": f, "zt": zt})
    # corners of the parameter space far from the adaptive-optics lattice above ("all wavelengths, samplings and
    # distances"): sampling finer than the wavelength, very long and very short distances, millimetre waves with a
    # long focal length (a physically large focal plane)
    for N in NS(tier)[1:3]:
        for wvl, d1, zs, fs in EXTREME:
            base = "N=%d:lam=%g:d1=%g" % (N, wvl, d1)
            for z in zs:
                for m in (1.0, 2.0, 0.5):
                    for prop in ("angular_spectrum", "two_step"):
                        yield Case("%s:%s:m=%g:z=%g:ztype=float" % (prop, base, m, z),
                                   {"prop": prop, "N": N, "wvl": wvl, "d1": d1, "m": m, "z": z, "zt": "float"})
                yield Case("one_step:%s:z=%g:ztype=float" % (base, z),
                           {"prop": "one_step", "N": N, "wvl": wvl, "d1": d1, "z": z, "zt": "float"})
            for f in fs:
                yield Case("lens:%s:f=%g:ztype=float" % (base, f),
                           {"prop": "lens", "N": N, "wvl": wvl, "d1": d1, "z": f, "zt": "float"})


BIG_NS = {"quick": [64, 130], "thorough": [64, 130, 257]}
HUGE_NS = {"quick": [600], "thorough": [600, 1030, 2050]}      # above 512 / 1024 / 2048, not multiples of 128


def big_cases(tier):
    """grids far above the operator-extraction bound: the propagator restricted to the span of 26 unit fields
    (corners, edges, centre, asymmetric interior points; real and imaginary unit)"""
    for N in BIG_NS[tier]:
        for wvl, d1 in ((0.5e-6, 0.01), (1.5e-6, 0.05)):
            base = "N=%d:lam=%g:d1=%g" % (N, wvl, d1)
            for z in (2500.0, -2500.0):
                for m in (1.0, 1.3, 0.5):
                    for prop in ("angular_spectrum", "two_step"):
                        yield Case("big:%s:%s:m=%g:z=%g" % (prop, base, m, z),
                                   {"big": True, "prop": prop, "N": N, "wvl": wvl, "d1": d1, "m": m, "z": z, "zt": "float"})
                yield Case("big:one_step:%s:z=%g" % (base, z),
                           {"big": True, "prop": "one_step", "N": N, "wvl": wvl, "d1": d1, "z": z, "zt": "float"})
            for f in (2.5, -2.5):
                yield Case("big:lens:%s:f=%g" % (base, f),
                           {"big": True, "prop": "lens", "N": N, "wvl": wvl, "d1": d1, "z": f, "zt": "float"})


def huge_cases(tier):
    for N in HUGE_NS[tier]:
        wvl, d1 = 0.5e-6, 0.01
        base = "N=%d:lam=%g:d1=%g" % (N, wvl, d1)
        for m in (1.0, 1.3):
            for prop in ("angular_spectrum", "two_step"):
                yield Case("big:%s:%s:m=%g:z=2500" % (prop, base, m),
                           {"big": True, "prop": prop, "N": N, "wvl": wvl, "d1": d1, "m": m, "z": 2500.0, "zt": "float"})
        yield Case("big:one_step:%s:z=-2500" % base,
                   {"big": True, "prop": "one_step", "N": N, "wvl": wvl, "d1": d1, "z": -2500.0, "zt": "float"})
        yield Case("big:lens:%s:f=2.5" % base,
                   {"big": True, "prop": "lens", "N": N, "wvl": wvl, "d1": d1, "z": 2.5, "zt": "float"})


def _scale_and_reuse(o, fn, x):
    """P(s U) = s P(U) over 60 decades of amplitude (relative to the scaled result: an absolute threshold anywhere
    inside shows), and a call history on one caller-owned complex128 field (P(x) evaluated, x used again)"""
    from mc import variants
    base = numpy.asarray(fn(x.copy()))
    zero = numpy.asarray(fn(numpy.zeros_like(x)))
    o.check("zero_field_gives_zero_field", zero.shape == base.shape and bool(numpy.all(zero == 0)),
            detail=None if zero.shape == base.shape and numpy.all(zero == 0) else "%d non-zero / non-finite samples" % int(numpy.sum(zero != 0)))
    for s_ in (1e-30, 1e-18, 1e-9, 1e9, 1e30):
        got = numpy.asarray(fn(x * s_))
        o.close("homogeneous_over_amplitude", _maxabs(got / s_ - base) / max(_maxabs(base), 1e-300), TOL, sub="s=%g" % s_)
    k = variants.check_reuse(o, "input_field", fn, x, TOL, mutate=lambda a: a.__imul__(-0.5j))
    o.stat("lib_calls", 6 + k)


def _big(p):
    o = Out()
    N, d1 = p["N"], p["d1"]
    fn, d_out = propagator(p)
    c = N // 2
    pts = [(0, 0), (0, N - 1), (N - 1, 0), (N - 1, N - 1), (c, c), (c - 1, c), (c, c + 1), (0, c), (c, 0),
           (N - 1, c - 3), (5, N - 7), (N // 3, 2 * N // 3 + 1), (2 * N // 3, N // 5)]
    cols, ins = [], []
    with warnings.catch_warnings():
        warnings.simplefilter("ignore")
        for (i, j) in pts:
            for unit in (1.0, 1j):
                e = numpy.zeros((N, N), dtype=complex)
                e[i, j] = unit
                cols.append(numpy.asarray(fn(e.copy())).reshape(-1))
                ins.append(e)
    o.stat("lib_calls", len(cols))
    T = numpy.array(cols).T
    finite = bool(numpy.all(numpy.isfinite(T)))
    o.check("finite_output", finite)
    if not finite or T.shape[0] != N * N:
        o.check("output_shape", T.shape[0] == N * N, detail=T.shape)
        return o
    scale = _maxabs(T)
    o.check("operator_nonzero", scale > 0)
    if not scale > 0:
        return o
    o.close("complex_linear", _maxabs(T[:, 1::2] - 1j * T[:, 0::2]) / scale, TOL)
    # power conserved for every field in the span of these unit fields: Gram matrix = that of the inputs
    Gin = numpy.array([[numpy.vdot(a, b) for b in ins] for a in ins])
    G = T.conj().T @ T * (d_out / d1) ** 2
    o.close("power_conserved", _maxabs(G - Gin), TOL)
    coef = numpy.array([(1 + (3 * k) % 5) * (1 - 2 * (k % 3 == 0)) for k in range(len(ins))], dtype=float)
    x = sum(ck * e for ck, e in zip(coef, ins))
    y = numpy.asarray(fn(x.copy())).reshape(-1)
    o.close("superposition", _maxabs(y - T @ coef) / (numpy.sum(numpy.abs(coef)) * scale), TOL)
    # a dense field (every pixel lit): the plain sums of the statement
    idx = numpy.arange(N * N)
    xd = (((idx * 7) % 5 - 2.0) + 1j * ((idx * 3) % 7 - 3.0)).reshape(N, N)
    yd = numpy.asarray(fn(xd.copy()))
    o.stat("lib_calls", 2)
    pin = float(numpy.sum(numpy.abs(xd) ** 2) * d1 ** 2)
    pout = float(numpy.sum(numpy.abs(yd) ** 2) * d_out ** 2)
    o.close("power_conserved_dense_field", abs(pout / pin - 1.0), TOL)
    if N <= 130:
        _scale_and_reuse(o, fn, xd)
    xr = xd.real
    for dt in (numpy.float64, numpy.int64):
        yr = numpy.asarray(fn(xr.astype(dt)))
        yc = numpy.asarray(fn(xr.astype(complex)))
        o.close("real_dtype_input_is_same_field", _maxabs(yr - yc) / max(_maxabs(yc), 1e-300), TOL, sub=numpy.dtype(dt).name)
        o.stat("lib_calls", 2)
    return o


# (wavelength, input spacing, distances, focal lengths)
EXTREME = [
    (1.0e-6, 0.4e-6, [3.0e-6, -3.0e-6, 5.0e-5], [1.0e-4]),          # sub-wavelength sampling
    (0.5e-6, 0.01, [1.0e6, -1.0e6, 1.0e-3], [1.0e3, -1.0e3]),       # very long / very short distance
    (3.0e-3, 0.005, [10.0, -10.0], [2.0, 50.0]),                    # mm waves: focal plane of order a metre
    (10.0e-6, 1.0e-5, [1.0, -0.2], [0.3]),                          # thermal IR, micron sampling
]


def _maxabs(a):
    a = numpy.asarray(a)
    return float(numpy.max(numpy.abs(a))) if a.size else 0.0


def propagator(p):
    """-> (fn(U) calling the real aotools propagator, |d_out|)"""
    import aotools.opticalpropagation as op
    N, wvl, d1 = p["N"], p["wvl"], p["d1"]
    z = float(p["z"]) if p["zt"] == "float" else numpy.float64(p["z"])
    if p["prop"] == "angular_spectrum":
        d2 = p["m"] * d1
        return (lambda U: op.angularSpectrum(U, wvl, d1, d2, z)), d2
    if p["prop"] == "two_step":
        d2 = p["m"] * d1
        return (lambda U: op.twoStepFresnel(U, wvl, d1, d2, z)), d2
    if p["prop"] == "one_step":
        return (lambda U: op.oneStepFresnel(U, wvl, d1, z)), abs(wvl * p["z"] / (N * d1))
    return (lambda U: op.lensAgainst(U, wvl, d1, z)), abs(wvl * p["z"] / (N * d1))


def evaluate(p):
    if p.get("big"):
        return _big(p)
    o = Out()
    N, d1 = p["N"], p["d1"]
    shape = (N, N)
    n = N * N
    fn, d_out = propagator(p)
    with warnings.catch_warnings():
        warnings.simplefilter("ignore")      # a non-finite result is reported by the clause below
        T, c1 = linear.operator(fn, shape, out_shape=shape)
        Ti, c2 = linear.operator_imag(fn, shape)
    o.stat("lib_calls", c1 + c2)
    finite = bool(numpy.all(numpy.isfinite(T)) and numpy.all(numpy.isfinite(Ti)))
    o.check("finite_output", finite,
            detail=None if finite else "%d of %d operator entries are NaN/inf"
            % (int(numpy.sum(~numpy.isfinite(T))), T.size))
    if not finite:
        return o
    scale = _maxabs(T)
    o.check("operator_nonzero", scale > 0)
    if not scale > 0:
        return o
    o.close("complex_linear", _maxabs(Ti - 1j * T) / scale, TOL)
    e, k = linear.superposition_error(fn, shape, T)
    o.stat("lib_calls", k)
    # the combinations have 1-norm <= 4 n, so |fn(x) - T x| / (4 n scale) is a relative residual
    o.close("superposition", e / (4.0 * n * scale), TOL)
    # a field stored in a real dtype is the same field (zero imaginary part): every real-dtype unit input and
    # a dense real-dtype input must give what the complex-dtype operator predicts (linearity over complex
    # coefficients of real basis fields: P(a + i b) = P(a) + i P(b))
    with warnings.catch_warnings():
        warnings.simplefilter("ignore")
        Tr, c3 = linear.operator(fn, shape, dtype=float, out_shape=shape)
    xr = ((numpy.arange(n) * 5) % 7 - 3.0)
    worst_r = _maxabs(Tr - T)
    for dt in (numpy.float64, numpy.float32, numpy.int64):
        yr = numpy.asarray(fn(xr.reshape(shape).astype(dt)))
        worst_r = max(worst_r, _maxabs(yr.reshape(-1) - T @ xr) / (3.0 * n) * (TOL / 1e-5 if dt == numpy.float32 else 1.0))   # float32 input: 1e-5
    o.stat("lib_calls", c3 + 3)
    o.close("real_dtype_input_is_same_field", worst_r / scale, TOL)
    G = T.conj().T @ T * (d_out / d1) ** 2
    o.close("power_conserved", _maxabs(G - numpy.eye(n)), TOL)
    # the same statement on one dense input, through the plain sum formula of the statement
    x = ((numpy.arange(n) * 7) % 5 - 2.0) + 1j * ((numpy.arange(n) * 3) % 7 - 3.0)
    y = numpy.asarray(fn(x.reshape(shape).copy()))
    o.stat("lib_calls", 1)
    pin = float(numpy.sum(numpy.abs(x) ** 2) * d1 ** 2)
    pout = float(numpy.sum(numpy.abs(y) ** 2) * d_out ** 2)
    o.close("power_conserved_dense_field", abs(pout / pin - 1.0), TOL)
    with warnings.catch_warnings():
        warnings.simplefilter("ignore")
        _scale_and_reuse(o, fn, x.reshape(shape))
    o.outcome(numpy.round(T / scale, 6))
    return o
