"""C07 FFT phase screens have exactly the discretised von Karman statistics.

E2 x E1: for every even N in the bound and every (delta, r0, L0, l0) tuple of the lattice, the number nd of
normals the screen generator consumes is DISCOVERED by a probe call, and every one of the nd unit draw
vectors is injected through a SeqGenerator into ft_phase_screen / ft_sh_phase_screen.  The responses are the
columns of the operator T (screen <- draws); T T^T is the EXACT ensemble covariance of the screen, which is
compared with the inverse discrete Fourier sum of the modified von Karman spectrum coded from the statement
(mc/refmodels/psd.py).  Nothing is assumed about the order, the request shapes or the number of the draws:
all verdicts are on Gram matrices (ensemble covariances), on relations the statement makes "for fixed draws"
(r0 scaling), or on structures that are first identified from the responses of the library under test and
are "not claimed" (a statistic, never a violation) when they cannot be identified.
"""
import math

import numpy

from mc import Out, Case
from mc import linear
from mc.env import SeqGenerator
from mc.refmodels import psd, vk_cov

PROPERTY = "C07"
LEVEL = "exploration"
TECHNIQUE = ("bounded exhaustive enumeration (even N x atmosphere tuples x {plain, sub-harmonic}) with basis "
             "exhaustion over the Gaussian draws: the number of normals consumed is discovered by a probe, every "
             "unit draw vector is injected through a Generator double, giving the full response operator T and the "
             "exact ensemble covariance T T^T (all verdicts on Gram matrices, none on the position of a draw in the "
             "stream); frequency-class-by-frequency-class and parameter-ladder cases beyond the full-operator sizes, "
             "with the draw structure identified from the responses; the integer-seed ensemble through a model of "
             "numpy.random.default_rng; single-preemption interleaving of two screen generations as an observation")
RULE = ("cases = {ft, sh} x even N in bound x (delta, r0, L0, l0) tuples, plus one refinement-ladder case per "
        "rung N at fixed N*delta = 4*L0; every case pushes all consumed unit draws through the real code; "
        "all cases are non-trivial (N = 2 is the smallest even grid)")
ASSUMPTIONS = [
    "even N up to the bound and the atmosphere lattice (five general tuples, two with the inner scale above the "
    "pixel size, an outer-scale ladder 0.01 m ... 1e150 m and infinity at N = 6); the exact r0^(-5/6) law is "
    "verified as an exact relation between operators, so the lattice result extends along r0",
    "the ensemble is the one induced by an injected numpy Generator (draws i.i.d. unit normal, requested through "
    "normal()/standard_normal()); all statements about the ensemble follow from T T^T by linearity in the draws, "
    "which is tested on the basis; the number of normals is whatever the library consumes (it must only be the "
    "same on every call of a case); a library that draws through another Generator method is not claimed",
    "'approaches the analytic structure function as the grid is refined' is decided on a finite ladder "
    "N = 8..64 (quick) / 8..128 (thorough) at fixed N*delta = 4*L0: the maximal relative error of D over the "
    "fixed physical offsets (multiples of L0/2 with |dy|,|dx| <= L0, excluding 0) is non-increasing and below "
    "the stated bound (0.05 at N=64, 0.02 at N=128) at the last rung",
    "'closer to the analytic curve at large separations' is decided for every pixel pair at least N/4 pixels "
    "apart, for every configuration of the lattice (the unchanged library gains at least 1e-4 of D_vK on every "
    "such pair; the verdict threshold is gain > 0); for L0 > 1e6 N delta the analytic curve is taken in its "
    "Kolmogorov limit. 'adds low-frequency power' is read as: at least one structure-function value increases",
    "tolerance 1e-10 relative (measured <= 2e-15) on the covariance identity; 1e-12 on exact scaling (measured "
    "<= 1e-15)",
    "integer / None / SeedSequence seeds: numpy.random.default_rng is replaced by a model in which equal seed "
    "material (same entropy and spawn key) replays the same stream and distinct material (another integer, "
    "another SeedSequence child, every seed=None call) gets a disjoint stretch of independent normals; the "
    "covariance over that ensemble must equal the covariance over injected Generator draws. If the library does "
    "not reach its generators through numpy.random.default_rng (no replayed generator is consumed) the clause is "
    "not claimed (stat intseed_not_claimed)",
]
ASSUMPTIONS.append(
    "hfbig cases (N = 130...2048): the full covariance needs all operator columns and is out of reach there; the "
    "covariance is decided frequency class by frequency class ({f, -f} on the pixel grid): a set of unit draws is "
    "pushed through, the frequency each one excites is read off its response (which must be a pure plane wave), a "
    "dense draw vector on all OTHER draws shows that nothing else excites the probed classes, and the summed "
    "contribution of a class must be exactly its term of the statement's Fourier sum. A library whose unit "
    "responses are not plane waves, or whose classes cannot be completed from the probed positions (index [i, j] "
    "and its mirror [-i, -j] in every N x N block of the stream), is not claimed (stats "
    "hfbig_structure_not_identified_not_claimed / hfbig_classes_not_claimed). The full-operator cases "
    "(N <= 34) make no such assumption")
ASSUMPTIONS.append(
    "shbig cases (N = 130...500): the normals of the plain screen are located inside the stream of the sub-harmonic "
    "variant by aligning the two request logs, and the alignment is accepted only if the variant with the remaining "
    "draws zero reproduces the plain screen of the same draws (otherwise: stat shbig_structure_not_identified_"
    "not_claimed, no verdict). The structure function added by the remaining draws is taken from the library "
    "(all of them, 3 reference pixels x every pixel, origin- and order-free), that of the plain screen from the "
    "reference sum, and the 'closer at large separations' clause is decided on them")
ENGINES = ["E1-product-enumeration", "E2-basis-exhaustion", "E5-environment-answers", "E4-schedule-exploration"]

TOL = 1e-10
TOL_SCALE = 1e-12
# (delta, r0, L0, l0)
TUPLES = [(0.1, 0.2, 25.0, 0.01), (0.5, 0.1, 10.0, 0.05), (0.05, 0.2, 100.0, 0.001),
          (0.25, 0.15, 5.0, 0.1), (1.0, 0.1, 2.0, 0.01)]
# inner scale above the pixel size (the factor exp(-(f/fm)^2) resolved by the grid: l0/delta = 10 and 5)
TUPLES_L0_RESOLVED = [(0.001, 0.2, 25.0, 0.01), (0.01, 0.1, 10.0, 0.05)]
# l0/delta = 100: the factor underflows over most of the frequency plane (N >= 6: at N = 2 every weight is 0)
TUPLE_UNDERFLOW = (0.01, 0.1, 10.0, 1.0)
# outer-scale ladder at N = 6, delta = 0.1: below the pixel size ... between the Bessel and the Kolmogorov branch
L0_LADDER_BOTH = [0.05, 1e3, 1e5, 1e8]
L0_LADDER_PLAIN = [0.01, 1e150]
R0_FACTORS = [2.0, 0.37]
LADDER_L0, LADDER_R0, LADDER_l0 = 2.0, 0.1, 1e-4
LADDER_BOUND = {64: 0.05, 128: 0.02}
# refuse to build operators on absurdly many columns (a library that oversamples its draws): not claimed
MAX_DRAW_FACTOR = 4


def _sizes(tier):
    return [2, 4, 6, 8] if tier == "quick" else [2, 4, 6, 8, 10, 12, 14, 16, 20, 24]


def _sh_sizes(tier):
    return [2, 4, 6, 8] if tier == "quick" else [2, 4, 6, 8, 10, 12, 14, 16]


def _ladder(tier):
    return [8, 16, 32, 64] if tier == "quick" else [8, 16, 32, 64, 128]


def _shbig_sizes(tier):
    return (130, 160, 256) if tier == "quick" else (130, 160, 192, 200, 256, 300, 384, 500)


def _hfbig_sizes(tier):
    return (130, 1024) if tier == "quick" else (130, 300, 1024, 1030, 2048)


def _intseed_sizes(tier):
    return (4, 8, 32) if tier == "quick" else (4, 8, 16, 32, 48, 64)


def BOUNDS(tier):
    return {"N_plain": _sizes(tier), "N_subharmonic": _sh_sizes(tier),
            "tuples(delta,r0,L0,l0)": TUPLES + TUPLES_L0_RESOLVED + [TUPLE_UNDERFLOW],
            "L0_ladder_at_N=6": L0_LADDER_PLAIN + L0_LADDER_BOTH + ["inf", 1e12, 1e100],
            "r0_factors": R0_FACTORS,
            "ladder_N": _ladder(tier), "ladder(L0,r0,l0)": [LADDER_L0, LADDER_R0, LADDER_l0],
            "ladder_bound_at_last_rung": LADDER_BOUND[_ladder(tier)[-1]],
            "N_shbig": list(_shbig_sizes(tier)), "N_hfbig": list(_hfbig_sizes(tier)), "N_sh_contains_plain": [1024],
            "N_intseed": list(_intseed_sizes(tier)), "N_dc_every_even_N_up_to": 512 if tier == "quick" else 1536,
            "largest_N": max(_hfbig_sizes(tier)),
            "tolerances": {"covariance_rel": TOL, "scaling_rel": TOL_SCALE}}


def _tag(t):
    return "d=%g,r0=%g,L0=%g,l0=%g" % t


def cases(tier):
    for t in TUPLES:
        tag = _tag(t)
        for N in _sizes(tier):
            yield Case("ft:N=%d:%s" % (N, tag), {"kind": "ft", "N": N, "t": t})
        for N in _sh_sizes(tier):
            yield Case("sh:N=%d:%s" % (N, tag), {"kind": "sh", "N": N, "t": t})
    for N in _ladder(tier):
        yield Case("ladder:N=%d" % N, {"kind": "ladder", "N": N})
    for N in _intseed_sizes(tier):      # (band- or block-wise drawing starts at some size)
        yield Case("intseed:N=%d" % N, {"kind": "intseed", "N": N})
    # boundary values of the outer scale ("all L0"): infinite (pure Kolmogorov) and astronomically large
    for L0 in (float("inf"), 1e12, 1e100):
        t = (0.1, 0.2, L0, 0.01)
        yield Case("ft:N=6:%s" % _tag(t), {"kind": "ft", "N": 6, "t": t, "plain_only": True})
        yield Case("sh:N=6:%s" % _tag(t), {"kind": "sh", "N": 6, "t": t})
    # an accelerated transform passed in by the caller (FFT=...) must give the same ensemble as the default path
    for N in (4, 8):
        yield Case("fftarg:N=%d" % N, {"kind": "fftarg", "N": N})
    # the zero-mean clause alone is cheap, so it is decided for EVERY even N up to a much larger bound
    top = 512 if tier == "quick" else 1536
    # the sub-harmonic part for grid sizes far beyond those whose full operator is extracted
    for N in _shbig_sizes(tier):
        yield Case("shbig:N=%d" % N, {"kind": "shbig", "N": N})
    # more plain-screen sizes (full operator): sizes with a large prime factor (26 = 2*13, 34 = 2*17)
    for N in ((26, 34) if tier == "quick" else (26, 34, 38, 46)):
        t = TUPLES[0]
        yield Case("ft:N=%d:%s" % (N, _tag(t)), {"kind": "ft", "N": N, "t": t, "plain_only": True})
    # the high-frequency part on grids far above the full-operator sizes, frequency class by frequency class
    for N in _hfbig_sizes(tier):
        yield Case("hfbig:N=%d" % N, {"kind": "hfbig", "N": N})
    # amplitude ~ r0^(-5/6) over nine decades of r0, and the other parameters over wide ladders
    for fn in ("ft", "ftsh"):
        yield Case("r0ladder:%s" % fn, {"kind": "r0ladder", "fn": fn})
        yield Case("preempt:%s" % fn, {"kind": "preempt", "fn": fn})
    for lo in range(2, top + 1, 32):
        yield Case("dc:N=%d-%d" % (lo, min(lo + 30, top)), {"kind": "dc", "lo": lo, "hi": min(lo + 30, top)})
    # ---- added with the soundness pass (ids above are unchanged) ------------------------------------------------
    # inner scale resolved by the grid / underflowing inner-scale factor
    for t in TUPLES_L0_RESOLVED:
        for N in (2, 4, 6, 8):
            yield Case("ft:N=%d:%s" % (N, _tag(t)), {"kind": "ft", "N": N, "t": t})
            yield Case("sh:N=%d:%s" % (N, _tag(t)), {"kind": "sh", "N": N, "t": t})
    for N in (6, 8):
        yield Case("ft:N=%d:%s" % (N, _tag(TUPLE_UNDERFLOW)), {"kind": "ft", "N": N, "t": TUPLE_UNDERFLOW})
        yield Case("sh:N=%d:%s" % (N, _tag(TUPLE_UNDERFLOW)), {"kind": "sh", "N": N, "t": TUPLE_UNDERFLOW})
    # outer-scale ladder at fixed N, delta
    for L0 in L0_LADDER_PLAIN + L0_LADDER_BOTH:
        t = (0.1, 0.2, L0, 0.01)
        yield Case("ft:N=6:%s" % _tag(t), {"kind": "ft", "N": 6, "t": t, "plain_only": True})
        if L0 in L0_LADDER_BOTH:
            yield Case("sh:N=6:%s" % _tag(t), {"kind": "sh", "N": 6, "t": t})
    # the frequency-class clause with a caller-supplied transform, and the plain screen inside the sub-harmonic
    # variant on a grid far above the sizes of the shbig cases
    yield Case("hfbig:N=130:fft", {"kind": "hfbig", "N": 130, "fft": True})
    yield Case("shhf:N=1024", {"kind": "shbig", "N": 1024, "guard_only": True})


def setup(tier):
    vk_cov.selftest()


def _maxabs(a):
    a = numpy.asarray(a)
    return float(numpy.max(numpy.abs(a))) if a.size else 0.0


def _dense_irregular(n, which=0):
    """fixed dense vectors without zero entries and without any arithmetic regularity (constants: the first n outputs
    of PCG64 with a fixed seed, mapped to +-[0.5, 1.5]).  Used where several draws feed one quantity and a periodic
    pattern could cancel between them (met with the pattern ((7 k) mod 11, (5 k) mod 13): two draws 11*13*120 positions apart)."""
    R = numpy.random.Generator(numpy.random.PCG64(20260927 + which))
    u = R.random(n)
    return numpy.where(u < 0.5, -(0.5 + 2.0 * u), 2.0 * u - 0.5)


class _NotClaimed(Exception):
    """the structure a clause needs could not be identified on the library under test"""


class _Screen(object):
    """screen as a function of the flat draw vector, through the seed seam; the number of normals the library
    consumes is discovered by `probe()` (a call with an empty preset: all draws zero)"""

    def __init__(self, o, fn, N, t, r0=None, extra=()):
        self.o, self.fn, self.N = o, fn, N
        self.d, self.r0, self.L0, self.l0 = t
        if r0 is not None:
            self.r0 = r0
        self.extra = tuple(extra)
        self.nd = None
        self.requests = None
        self.bad = None
        self.changed = None

    def _call(self, draws):
        g = SeqGenerator(draws)
        y = self.fn(self.r0, self.N, self.d, self.L0, self.l0, *self.extra, seed=g)
        self.o.stat("lib_calls", 1)
        y = numpy.asarray(y)
        if self.bad is None and (y.shape != (self.N, self.N) or numpy.iscomplexobj(y)
                                 or not numpy.all(numpy.isfinite(y))):
            self.bad = "shape %s dtype %s" % (y.shape, y.dtype)
        return g, y

    def probe(self):
        g, y = self._call(())
        self.nd = int(g.consumed)
        self.requests = list(g.calls)
        return y

    def __call__(self, draws):
        g, y = self._call(draws)
        if self.nd is not None and g.consumed != self.nd and self.changed is None:
            self.changed = "%d normals consumed, %d on the probe call (requests %s)" % (g.consumed, self.nd, g.calls)
        return y


def _operator(scr, ndraw):
    T, _ = linear.operator(scr, (ndraw,), dtype=float)
    return T


def _pair_structure(C):
    """D[x, x'] = C[x,x] + C[x',x'] - 2 C[x,x'] for every pixel pair"""
    d = numpy.diag(C)
    return d[:, None] + d[None, :] - 2.0 * C


def _seam_failure(e):
    """an exception raised by the draw double itself (the library used another Generator method): the observation
    seam of this check does not apply to that library"""
    return isinstance(e, RuntimeError) and "SeqGenerator" in str(e)


def evaluate(p):
    from aotools.turbulence import phasescreen as ps
    o = Out()
    try:
        return _evaluate(o, ps, p)
    except _NotClaimed as e:
        o.stat("%s_not_claimed" % p["kind"], 1)
        o.note("not_claimed_reason", str(e))
        return o
    except RuntimeError as e:
        if not _seam_failure(e):
            raise
        o.stat("draw_seam_not_claimed", 1)
        o.note("not_claimed_reason", str(e))
        return o


def _evaluate(o, ps, p):
    if p["kind"] == "ladder":
        return _ladder_case(o, ps, p["N"])
    if p["kind"] == "dc":
        return _dc_case(o, ps, p["lo"], p["hi"])
    if p["kind"] == "shbig":
        return _shbig_case(o, ps, p["N"], p.get("guard_only", False))
    if p["kind"] == "intseed":
        return _intseed_case(o, ps, p["N"])
    if p["kind"] == "fftarg":
        return _fftarg_case(o, ps, p["N"])
    if p["kind"] == "hfbig":
        return _hfbig_case(o, ps, p["N"], p.get("fft", False))
    if p["kind"] == "r0ladder":
        return _r0ladder_case(o, ps, p["fn"])
    if p["kind"] == "preempt":
        return _preempt_case(o, ps, p["fn"])
    N, t = p["N"], p["t"]
    delta, r0, L0, l0 = t
    n2 = N * N
    cap = MAX_DRAW_FACTOR * (2 * n2) + 1024
    plain = _Screen(o, ps.ft_phase_screen, N, t)
    z = plain.probe()
    nd = plain.nd
    if p["kind"] == "ft":
        # the number of normals is the library's business (request shapes, order and count are free); the unit
        # vectors of what it consumes are a basis of the ensemble as long as it consumes the same number every time
        o.check("draws_consumed", nd > 0, detail="no normal was requested from the injected Generator")
    if nd == 0 or nd > cap:
        o.stat("operator_not_claimed(draw_count=%d)" % nd, 1)
        return o
    T = _operator(plain, nd)
    Cref = psd.covariance_matrix(N, delta, r0, L0, l0)
    cs = float(numpy.max(numpy.diag(Cref)))
    ts = max(_maxabs(T), 1e-300)
    C = T @ T.T
    if p["kind"] == "ft":
        o.check("real_finite_NxN", plain.bad is None, detail=plain.bad)
        # relative to the unit responses: exact zero today, ~1e-16 for a library that removes the mean afterwards
        o.close("zero_draws_zero_screen", _maxabs(z) / ts if z.shape == (N, N) else float("inf"), TOL)
        e, k = linear.superposition_error(plain, (nd,), T, dtype=float)
        o.close("linear_in_draws", e / (4.0 * ts), TOL)
        o.close("covariance_equals_discrete_vk_sum", _maxabs(C - Cref) / cs, TOL)
        dg = numpy.diag(C)
        o.close("variance_position_independent", float(dg.max() - dg.min()) / cs, TOL)
        o.close("zero_frequency_removed", _maxabs(T.sum(axis=0)) / (n2 * ts), TOL)
        for c in R0_FACTORS:
            sc = _Screen(o, ps.ft_phase_screen, N, t, r0=c * r0)
            sc.probe()
            if sc.nd == nd:
                # "for fixed draws": column by column
                Tc = _operator(sc, nd)
                o.close("r0_scaling_exact", _maxabs(Tc - c ** (-5.0 / 6.0) * T) / ts, TOL_SCALE, sub="c=%g" % c)
            elif 0 < sc.nd <= cap:
                # another number of draws for another r0: only the ensemble form of the law can be decided
                Tc = _operator(sc, sc.nd)
                o.close("r0_scaling_exact", _maxabs(Tc @ Tc.T - c ** (-5.0 / 3.0) * C) / (ts * ts), TOL_SCALE,
                        sub="c=%g" % c)
            else:
                o.stat("r0_scaling_not_claimed", 1)
        o.check("draws_consumed", plain.changed is None, detail=plain.changed)
        o.outcome(numpy.round(C / cs, 9))
        return o

    # ---------------------------------------------------------------- sub-harmonic variant
    sh = _Screen(o, ps.ft_sh_phase_screen, N, t)
    z = sh.probe()
    nds = sh.nd
    o.check("sh_draws_consumed", nds > 0, detail="no normal was requested from the injected Generator")
    if nds == 0 or nds > cap:
        o.stat("operator_not_claimed(draw_count=%d)" % nds, 1)
        return o
    Ts = _operator(sh, nds)
    tss = max(_maxabs(Ts), 1e-300)
    o.check("sh_real_finite_NxN", sh.bad is None, detail=sh.bad)
    o.close("sh_zero_draws_zero_screen", _maxabs(z) / tss if z.shape == (N, N) else float("inf"), TOL)
    e, k = linear.superposition_error(sh, (nds,), Ts, dtype=float)
    o.close("sh_linear_in_draws", e / (4.0 * tss), TOL)
    o.check("sh_draws_consumed", sh.changed is None, detail=sh.changed)
    if Ts.shape != (n2, nds) or not numpy.all(numpy.isfinite(Ts)) or not numpy.all(numpy.isfinite(T)):
        return o            # reported above (sh_real_finite_NxN / real_finite_NxN of the ft case)
    Cs = Ts @ Ts.T
    Dh, Ds = _pair_structure(C), _pair_structure(Cs)
    dmax = float(Dh.max())
    if not (dmax > 0.0 and numpy.isfinite(dmax)):
        # the plain screen's structure function vanishes in floating point (spectrum underflows): the comparisons
        # below have no scale; the plain screen itself is judged by the ft case of the same parameters
        o.stat("sh_structure_clauses_not_claimed(no_plain_structure)", 1)
        return o
    o.close("sh_no_structure_value_decreases", float(numpy.max(Dh - Ds)) / dmax, 1e-12)
    # 'adds low-frequency power': something is added (the unchanged library adds at least 1e-2 of max D somewhere
    # on every configuration of the lattice; 1e-9 is seven orders below that and six above rounding)
    added = float(numpy.max(Ds - Dh)) / dmax
    o.check("sh_adds_low_frequency_power", added > 1e-9, measure=-added, tol=-1e-9,
            detail="max over pixel pairs of D_sh - D_hi, relative to max D_hi: %.3g" % added)
    # pixel pair geometry
    y, x = numpy.divmod(numpy.arange(n2), N)
    dy, dx = y[:, None] - y[None, :], x[:, None] - x[None, :]
    sep = numpy.sqrt(dy ** 2 + dx ** 2)
    if L0 > 1e6 * N * delta:
        # outer scale astronomically larger than the screen: the analytic curve is its Kolmogorov limit
        # 6.88 (r/r0)^(5/3), from which the von Karman curve differs by less than (r/L0)^(1/3) < 1e-2 relative
        # (the reference's Bessel form loses all digits there)
        Dvk = 6.88 * (sep * delta / r0) ** (5.0 / 3.0)
    else:
        Dvk = vk_cov.structure_function(sep * delta, r0, L0)
    far = sep >= N / 4.0
    gain = numpy.abs(Dh - Dvk) - numpy.abs(Ds - Dvk)       # must be > 0
    rel = numpy.where(far, gain / numpy.where(Dvk > 0, Dvk, 1.0), numpy.inf)
    worst = float(numpy.min(rel))
    i = int(numpy.argmin(rel))
    a, b = divmod(i, n2)
    o.check("sh_closer_to_analytic_at_large_separation", worst > 0.0, measure=-worst, tol=0.0,
            detail="pixels %s-%s: D_hi %.6g D_sh %.6g D_vK %.6g" % (
                (int(y[a]), int(x[a])), (int(y[b]), int(x[b])), Dh[a, b], Ds[a, b], Dvk[a, b]),
            n=int(far.sum()))
    o.note("case_sh_min_relative_gain_far_pairs", worst)
    # observations (not verdicts) -------------------------------------------------------------
    Dlo_ref = psd.subharmonic_structure_function(N, delta, r0, L0, l0, dy, dx)
    o.note("case_sh_added_structure_vs_Lane_Schmidt_rel",
           _maxabs((Ds - Dh) - Dlo_ref) / max(float(Dlo_ref.max()), 1e-300))
    o.note("case_sh_columns_spatial_mean_rel", _maxabs(Ts.mean(axis=0)) / tss)
    try:
        w = numpy.linalg.eigvalsh(Cs - C)
        o.note("case_sh_added_covariance_min_eigenvalue_rel", float(w.min()) / max(float(w.max()), 1e-300))
    except Exception:
        pass
    o.outcome(numpy.round(Cs / cs, 9))
    return o


def _ladder_case(o, ps, N):
    L0, r0, l0 = LADDER_L0, LADDER_R0, LADDER_l0
    delta = 4.0 * L0 / N
    c = N // 2
    n2 = N * N
    g = SeqGenerator(())
    ps.ft_phase_screen(r0, N, delta, L0, l0, seed=g)
    nd = int(g.consumed)
    if nd == 0 or nd > MAX_DRAW_FACTOR * 2 * n2 + 1024:
        raise _NotClaimed("%d normals consumed" % nd)
    # covariance of three pixels with every pixel (centre, a corner, a pixel on the last row)
    pixels = [("", (c, c)), ("px=0,0", (0, 0)), ("px=last,3", (N - 1, 3))]
    rows = [numpy.zeros((N, N)) for _ in pixels]
    diag = numpy.zeros((N, N))
    draws = numpy.zeros(nd)
    for k in range(nd):
        draws[k] = 1.0
        s = numpy.asarray(ps.ft_phase_screen(r0, N, delta, L0, l0, seed=SeqGenerator(draws)))
        draws[k] = 0.0
        for r_, (_, (a, b)) in zip(rows, pixels):
            r_ += s[a, b] * s
        diag += s * s
    o.stat("lib_calls", nd + 1)
    for r_, (sub, px) in zip(rows, pixels):
        ref = psd.covariance_row(N, delta, r0, L0, l0, px)
        o.close("ladder_covariance_row", _maxabs(r_ - ref) / float(ref[px]), TOL, sub=sub or None)
    row = rows[0]
    D = diag[c, c] + diag - 2.0 * row
    off = numpy.arange(N) - c
    dy, dx = off[:, None], off[None, :]
    sep = numpy.sqrt(dy ** 2 + dx ** 2)
    sel = (sep >= 1.0) & (numpy.abs(dy) <= N // 4) & (numpy.abs(dx) <= N // 4)
    Dvk = vk_cov.structure_function(sep * delta, r0, L0)
    err = float(numpy.max(numpy.abs(D[sel] - Dvk[sel]) / Dvk[sel]))
    o.note("case_ladder_err_all_offsets", err)
    # same physical offsets on every rung (multiples of the coarsest pixel, 4*L0/8)
    step = N // 8
    coarse = sel & (dy % step == 0) & (dx % step == 0)
    o.note("case_ladder_err_fixed_offsets", float(numpy.max(numpy.abs(D[coarse] - Dvk[coarse]) / Dvk[coarse])))
    return o


def finalize(tier, results):
    o = Out()
    # observations aggregated over all cases (per-case notes are "last one wins" in the runner)
    def agg(key, fn):
        v = [r.notes[key] for r in results.values() if key in r.notes and r.notes[key] is not None]
        try:
            return fn(v) if v else None
        except Exception:
            return None
    o.note("obs_sh_added_structure_vs_Lane_Schmidt_weights_max_rel",
           agg("case_sh_added_structure_vs_Lane_Schmidt_rel", max))
    o.note("obs_shbig_added_structure_vs_Lane_Schmidt_weights_max_rel",
           agg("case_shbig_added_structure_vs_Lane_Schmidt_rel", max))
    o.note("obs_sh_columns_spatial_mean_max_rel", agg("case_sh_columns_spatial_mean_rel", max))
    o.note("obs_sh_added_covariance_min_eigenvalue_rel", agg("case_sh_added_covariance_min_eigenvalue_rel", min))
    o.note("obs_sh_min_relative_gain_far_pairs", agg("case_sh_min_relative_gain_far_pairs", min))
    o.note("obs_preemption_dependent_schedules", agg("case_preemption_dependent_schedules", sum))
    rungs = _ladder(tier)
    errs, fixed = [], []
    for N in rungs:
        r = results.get("ladder:N=%d" % N)
        if r is None or "case_ladder_err_fixed_offsets" not in r.notes:
            return o          # filtered run (--only), a rung that raised (reported as no_exception) or not claimed
        errs.append(float(r.notes["case_ladder_err_all_offsets"]))
        fixed.append(float(r.notes["case_ladder_err_fixed_offsets"]))
    o.note("obs_ladder_max_rel_error_all_pixel_offsets_by_N", dict(zip(map(str, rungs), errs)))
    o.note("ladder_max_rel_error_fixed_offsets_by_N", dict(zip(map(str, rungs), fixed)))
    # verdict: error at FIXED physical offsets (multiples of the coarsest pixel 4*L0/8); the error over all
    # pixel offsets (dominated by the one-pixel separation, which shrinks with the pixel) is an observation.
    # Once ladder_covariance_row holds on every rung these numbers are those of the reference sum (0.587, 0.236,
    # 0.082, 0.024, 0.0045): the bounds 0.05 / 0.02 are statements about the discretisation, with 2x / 4x room.
    for a, b, Na, Nb in zip(fixed[:-1], fixed[1:], rungs[:-1], rungs[1:]):
        o.check("ladder_error_non_increasing", b <= a, sub="N=%d->%d" % (Na, Nb),
                measure=b - a, tol=0.0, detail="max relative error of D at fixed offsets: %.4g -> %.4g" % (a, b))
    o.close("ladder_error_at_last_rung", fixed[-1], LADDER_BOUND[rungs[-1]], sub="N=%d" % rungs[-1])
    return o


LEVEL_TEXT = ("Every even N in the bound (2..8 quick; 2..24 plain / 2..16 sub-harmonic thorough) x the "
              "(delta, r0, L0, l0) lattice x both generators is enumerated; for each, all unit draw vectors of the "
              "normals the library consumes are injected, so the covariance identity, zero mean, constant variance "
              "and the exact r0^(-5/6) law hold for the whole Gaussian ensemble and every pixel pair, not for sampled "
              "screens; the refinement clause is decided on a ladder N = 8..64 (128 thorough); zero mean for every "
              "even N up to 512 (1536), single frequency classes up to N = 1024 (2048), the sub-harmonic part up to "
              "N = 256 (500), the ensemble over integer / None / SeedSequence seeds up to N = 32 (64), and the "
              "FFT= argument at N = 4, 8, 130.")
LEVEL_NOTE = ("Trusted: numpy matrix arithmetic, the PSD/covariance reference (mc/refmodels/psd.py, from the "
              "statement) and the closed-form von Karman structure function (mc/refmodels/vk_cov.py, self-tested). "
              "Not covered: odd N (outside the property), N beyond the bounds, non-float64 parameter types other than "
              "those listed in the r0ladder cases, the exact sub-harmonic weights (the statement only requires added "
              "low-frequency power that brings the structure function closer to the analytic one; their agreement "
              "with the Lane/Schmidt scheme is recorded as an observation), re-entrancy under threads (the statement "
              "does not promise it: the single-preemption interleavings of two screen generations are explored and "
              "the number of schedules in which a screen depends on the other call is recorded as an observation, "
              "stat preemption_dependence_observed).")


def _dc_case(o, ps, lo, hi):
    """'with the zero frequency removed ... therefore the screen has zero mean', for every even N of the range and
    five pixel sizes (the frequency grid is a function of N and delta): the screens of two dense draw vectors
    without zero entries have zero spatial mean.  Whatever draw feeds the zero-frequency coefficient, it is excited
    by both vectors; no position in the stream is assumed (the vectors are longer than what the library consumes
    and their tail is simply not read).
    (Added after a seeded change left the DC term in for N = 98, 196, 206, ... only.)"""
    r0, L0, l0 = 0.2, 25.0, 0.01
    for N in range(lo, hi + 1, 2):
        n2 = N * N
        worst, where, vac = 0.0, None, None
        vecs = [_dense_irregular(4 * n2 + 1024, 0), _dense_irregular(4 * n2 + 1024, 1)]
        for delta in (0.1, 0.3, 0.02, 1.0, 4.2 / 128):
            for which in (0, 1):
                g = SeqGenerator(vecs[which])
                dense = numpy.asarray(ps.ft_phase_screen(r0, N, delta, L0, l0, seed=g), dtype=float)
                o.stat("lib_calls", 1)
                scale = _maxabs(dense)
                if dense.shape != (N, N) or not scale > 0.0 or not numpy.isfinite(scale):
                    vac = "delta=%g: screen of a dense draw vector has shape %s, max |.| = %r" % (delta, dense.shape, scale)
                    continue
                m = abs(float(dense.mean())) / scale
                if m >= worst:
                    worst, where = m, "delta=%g, dense vector %d" % (delta, which)
        # measured <= 1e-16 on the unchanged library; a mean removed after the transform leaves ~1e-14
        o.check("dense_screen_has_zero_mean", vac is None and worst <= 1e-10, sub="N=%d" % N, measure=worst, tol=1e-10,
                detail=vac or where)
    o.stat("nontrivial", (hi - lo) // 2 + 1)
    return o


# ------------------------------------------------------------------------------------------------ hfbig
def _plane_wave(col, N):
    """(amplitude, q, c, resid): q = canonical representative of the frequency class {q, -q} (mod N) carrying the
    response, c its complex amplitude (col = Re[c exp(2 pi i q.x / N)]; real cosine amplitude when q = -q), resid =
    the part of the response outside the class, relative (2-norm)."""
    amp = _maxabs(col)
    if not amp > 0.0:
        return 0.0, None, 0.0, 0.0
    F = numpy.fft.fft2(col)
    P = F.real ** 2 + F.imag ** 2
    tot = float(P.sum())
    q = tuple(int(v) for v in numpy.unravel_index(int(numpy.argmax(P)), P.shape))
    mq = ((-q[0]) % N, (-q[1]) % N)
    if mq < q:
        q, mq = mq, q
    c = F[q] / (N * N) if q == mq else 2.0 * F[q] / (N * N)
    P[q] = 0.0
    P[mq] = 0.0
    resid = math.sqrt(float(P.sum()) / tot)
    return amp, q, complex(c), resid


def _hfbig_case(o, ps, N, fft=False):
    """Large grids, one frequency class at a time.  The covariance of the statement is a sum of one term per grid
    frequency, Phi(f) df^2 cos(2 pi f.(x - x')); f and -f (taken on the pixel grid, i.e. mod N) give the same
    pattern, so the term of the class {f, -f} is W_c cos(2 pi f.(x - x')), W_c = sum of the weights in the class.
    A set of unit draws is pushed through; the response of each must be a pure plane wave Re[c_m exp(2 pi i q.x/N)]
    (checked on every pixel through its discrete transform), which identifies the class it feeds.  Two dense draw
    vectors on all OTHER draws show that no unprobed draw excites a probed class.  The contribution of a class to the
    covariance is then  sum_m Re[c_m e^(i th)] Re[c_m e^(i th')] = 1/2 Re[sum c_m^2 e^(i(th+th'))] + 1/2 sum |c_m|^2
    cos(th - th'),  which is the statement's term for EVERY pixel pair iff  sum_m c_m^2 = 0  and  1/2 sum_m |c_m|^2
    = W_c  (for a self-conjugate class: sum_m a_m^2 = W_c).  The probed positions are index [i, j] and its mirror
    [-i, -j] in every N x N block of the stream, for the zero-frequency lines, the Nyquist lines, the diagonals and
    scattered interior indices; where that does not complete a class, or a response is not a plane wave, nothing is
    claimed."""
    delta, r0, L0, l0 = 0.1, 0.2, 25.0, 0.01
    n2 = N * N
    c = N // 2
    extra = (numpy.fft.ifft2,) if fft else ()

    def screen(vec):
        g = SeqGenerator(vec)
        y = numpy.asarray(ps.ft_phase_screen(r0, N, delta, L0, l0, *extra, seed=g), dtype=float)
        o.stat("lib_calls", 1)
        return g, y
    g, z = screen(())
    nd = int(g.consumed)
    if nd == 0 or nd % n2 or nd // n2 > 4 or z.shape != (N, N):
        o.stat("hfbig_structure_not_identified_not_claimed", 1)
        o.note("hfbig_draw_requests", str(g.calls))
        return o
    blocks = nd // n2
    _, W = psd.grid_weights(N, delta, r0, L0, l0)
    wmax = float(W.max())
    idx = set()
    ks = (0, 1, 2, c - 3, c - 1, c + 1, c + 2, N - 2, N - 1) if N < 1000 else (0, 1, c - 1, c + 2, N - 1)
    for k in ks:
        idx.update([(c, k), (k, c), (0, k), (k, 0), (k, k), (k, N - 1 - k)])
    idx.update([(7, 3), (N // 3, 2 * N // 3 + 1), (N - 5, c + 9), (c + 1, c + 1), (c - 1, c + 1), (c, c)])
    pos = set()
    for (i, j) in idx:
        for b in range(blocks):
            pos.add(b * n2 + i * N + j)
            pos.add(b * n2 + ((N - i) % N) * N + (N - j) % N)
    pos = sorted(pos)
    members = {}          # class -> list of complex amplitudes
    probes = []
    for k in pos:
        v = numpy.zeros(nd)
        v[k] = 1.0
        _, col = screen(v)
        if col.shape != (N, N) or not numpy.all(numpy.isfinite(col)):
            o.check("frequency_term_exact_on_large_grid", False, sub="draw=%d" % k,
                    detail="response to a unit draw: shape %s, finite %s" % (col.shape, bool(numpy.all(numpy.isfinite(col)))))
            return o
        probes.append((k,) + _plane_wave(col, N))
    scale = max(p_[1] for p_ in probes)
    o.close("zero_draws_zero_screen", _maxabs(z) / scale if scale > 0 else float("inf"), TOL)
    if not scale > 0.0:
        return o
    for (k, amp, q, cm, resid) in probes:
        if amp <= 1e-11 * scale:
            # contributes nothing to any class (today: the zero-frequency draw, exactly 0; the rounding residue of a
            # mean removed after the transform is ~1e-14); 1e-11 of the largest response is 1e-22 in the covariance
            continue
        if resid > 1e-10:
            # not a plane wave: the library does not synthesise the screen one frequency per draw - not claimed
            o.stat("hfbig_structure_not_identified_not_claimed", 1)
            o.note("hfbig_non_plane_wave_response", {"draw": int(k), "residual": resid})
            return o
        members.setdefault(q, []).append(cm)
    # completeness: no unprobed draw may excite a probed class
    incomplete = set()
    for which in (0, 1):
        v = _dense_irregular(nd, which)
        v[pos] = 0.0
        _, R = screen(v)
        F = numpy.fft.fft2(R) / n2
        for q, cms in members.items():
            own = math.sqrt(sum(abs(x) ** 2 for x in cms))
            if not abs(F[q]) <= 1e-6 * own:
                incomplete.add(q)
    worst, claimed = 0.0, 0
    for q in sorted(members):
        if q in incomplete:
            o.stat("hfbig_classes_not_claimed", 1)
            continue
        cms = numpy.array(members[q])
        mq = ((-q[0]) % N, (-q[1]) % N)
        wq = float(W[(q[0] + c) % N, (q[1] + c) % N])
        if q == mq:
            wc = wq
            got_iso, got_aniso = float(numpy.sum(cms.real ** 2)), 0.0
        else:
            wc = wq + float(W[(mq[0] + c) % N, (mq[1] + c) % N])
            got_iso, got_aniso = 0.5 * float(numpy.sum(numpy.abs(cms) ** 2)), 0.5 * abs(complex(numpy.sum(cms ** 2)))
        # relative to the class's own weight (the zero-frequency class, weight 0: relative to the largest weight)
        norm = wc if wc > 0.0 else wmax
        err = max(abs(got_iso - wc), got_aniso) / norm
        worst = max(worst, err)
        claimed += 1
        if not err <= 1e-9:
            ky, kx = (q[0] + c) % N - c, (q[1] + c) % N - c
            o.check("frequency_term_exact_on_large_grid", False, sub="ky=%d:kx=%d" % (ky, kx), measure=err, tol=1e-9,
                    detail="frequency class +-(%d, %d) of an N=%d grid: summed contribution of its %d draws %.12g, "
                           "anisotropic part %.3g, weight in the statement's sum %.12g" % (ky, kx, N, len(cms), got_iso, got_aniso, wc))
    if claimed and worst <= 1e-9:
        o.check("frequency_term_exact_on_large_grid", True, measure=worst, tol=1e-9, n=claimed)
    o.stat("hfbig_classes_claimed", claimed)
    o.stat("nontrivial", 1)
    return o


def _preempt_case(o, ps, fn):
    """OBSERVATION, not a verdict (the statement does not promise re-entrancy under threads): call B (other draws,
    other r0) is run to completion at EVERY library line of call A (all two-thread schedules with one preemption,
    mc/reentry.py); the number of schedules in which A's screen is not the screen of A's draws alone, or B's not that
    of B's, is recorded."""
    from mc import reentry
    N, delta, L0, l0 = 8, 0.1, 25.0, 0.01
    f = ps.ft_phase_screen if fn == "ft" else ps.ft_sh_phase_screen
    nlong = MAX_DRAW_FACTOR * 2 * N * N + 1024
    za = ((numpy.arange(nlong) * 7) % 11 - 5.0) / 5.0
    zb = ((numpy.arange(nlong) * 5) % 13 - 6.0) / 3.0
    A = lambda: numpy.asarray(f(0.2, N, delta, L0, l0, seed=SeqGenerator(za))).copy()
    n_bad = n = 0
    try:
        for other in (ps.ft_phase_screen, ps.ft_sh_phase_screen):
            B = lambda: numpy.asarray(other(0.1, N, delta, L0, l0, seed=SeqGenerator(zb))).copy()
            ra, rb = A(), B()
            where_bad = []
            for k, where, xa, xb in reentry.explore(A, B):
                n += 1
                if not (numpy.array_equal(xa, ra) and numpy.array_equal(xb, rb)):
                    where_bad.append(where)
            n_bad += len(where_bad)
            if where_bad:
                o.note("preemption_dependence_B=%s" % other.__name__,
                       "differs when B runs at %s" % ", ".join(sorted(set(map(str, where_bad)))[:8]))
    except Exception as e:                       # the tracer is the check's own instrumentation
        o.stat("preempt_exploration_failed_not_claimed", 1)
        o.note("preempt_exploration_error", repr(e)[:200])
    o.stat("preemption_dependence_observed", n_bad)
    o.note("case_preemption_dependent_schedules", n_bad)
    o.stat("schedules_explored", n)
    o.stat("lib_calls", 2 * n)
    o.stat("nontrivial", 1)
    return o


def _r0ladder_case(o, ps, fn):
    """amplitude ~ r0^(-5/6) exactly, over nine decades of r0 (sub-millimetre to 100 m), same draws; the unit of
    length; the type the parameters are passed in; two screens from one real Generator"""
    N, delta, L0, l0 = 8, 0.1, 25.0, 0.01
    f = ps.ft_phase_screen if fn == "ft" else ps.ft_sh_phase_screen
    # longer than anything the library reads: the number of normals consumed is not assumed
    vec = ((numpy.arange(MAX_DRAW_FACTOR * 2 * N * N + 1024) * 7) % 11 - 5.0) / 5.0
    base = numpy.asarray(f(0.2, N, delta, L0, l0, seed=SeqGenerator(vec)))
    for r0 in (2e-5, 1e-4, 5e-4, 1e-3, 0.01, 1.0, 12.0, 100.0, 1e4):
        got = numpy.asarray(f(r0, N, delta, L0, l0, seed=SeqGenerator(vec)))
        want = base * (r0 / 0.2) ** (-5.0 / 6.0)
        o.close("r0_scaling_exact", _maxabs(got - want) / max(_maxabs(want), 1e-300), 1e-11, sub="%s:r0=%g" % (fn, r0))
    for d in (1e-4, 0.004, 3.0, 250.0):
        # phi(x; delta, L0, l0) depends on lengths only through ratios and the r0^(-5/6) amplitude: scaling every
        # length by c scales nothing but r0's unit, so screen(c r0, c delta, c L0, c l0) = screen(r0, delta, L0, l0)
        c = d / delta
        got = numpy.asarray(f(0.2 * c, N, d, L0 * c, l0 * c, seed=SeqGenerator(vec)))
        o.close("unit_of_length_irrelevant", _maxabs(got - base) / max(_maxabs(base), 1e-300), 1e-10, sub="%s:delta=%g" % (fn, d))
    o.stat("lib_calls", 14)
    # the same parameter VALUES in other types ("all r0, L0, l0, pixel sizes"): values exactly representable in
    # every type used.  (float32 / float16 / uint8 parameters of ft_sh_phase_screen are left out: see the report
    # of the soundness pass - the unchanged library evaluates part of the sub-harmonic sum in the narrow type.)
    F = (0.25, 0.125, 32.0, 0.015625)            # r0, delta, L0, l0
    I = (1, 2, 32, 1)
    bF = numpy.asarray(f(F[0], N, F[1], F[2], F[3], seed=SeqGenerator(vec)))
    bI = numpy.asarray(f(1.0, N, 2.0, 32.0, 1.0, seed=SeqGenerator(vec)))
    variants = [("float64", F, bF, numpy.float64), ("0d-array", F, bF, lambda v: numpy.array(v, dtype=float)),
                ("int", I, bI, int), ("int32", I, bI, numpy.int32), ("int64", I, bI, numpy.int64)]
    if fn == "ft":
        variants.append(("float32", F, bF, numpy.float32))
    for name, P, b, conv in variants:
        got = numpy.asarray(f(conv(P[0]), N, conv(P[1]), conv(P[2]), conv(P[3]), seed=SeqGenerator(vec)))
        o.stat("lib_calls", 1)
        o.close("parameter_type_irrelevant", _maxabs(got - b) / max(_maxabs(b), 1e-300) if got.shape == b.shape else float("inf"),
                1e-10, sub="%s:%s" % (fn, name))
    for name, conv in (("int32", numpy.int32), ("int64", numpy.int64)):
        got = numpy.asarray(f(0.2, conv(N), delta, L0, l0, seed=SeqGenerator(vec)))
        o.stat("lib_calls", 1)
        o.close("parameter_type_irrelevant", _maxabs(got - base) / max(_maxabs(base), 1e-300) if got.shape == base.shape else float("inf"),
                1e-10, sub="%s:N=%s" % (fn, name))
    # a history with ONE real Generator: the second screen is another realisation (the stream moves on, the library
    # does not re-seed from the generator it is handed)
    R = numpy.random.Generator(numpy.random.PCG64(1))
    s1 = numpy.asarray(f(0.2, N, delta, L0, l0, seed=R)).copy()
    s2 = numpy.asarray(f(0.2, N, delta, L0, l0, seed=R)).copy()
    o.stat("lib_calls", 2)
    o.check("successive_screens_from_one_generator_differ", s1.shape == s2.shape and _maxabs(s1 - s2) > 1e-6 * _maxabs(s1),
            sub=fn, detail="two calls with the same numpy Generator object returned the same screen")
    o.stat("nontrivial", 1)
    return o


# ------------------------------------------------------------------------------------------------ shbig
def _alignments(small, big, limit=16):
    """ways of finding the request list `small` as a subsequence of the request list `big` (equal shapes)"""
    out = []

    def rec(i, j, acc):
        if len(out) >= limit:
            return
        if i == len(small):
            out.append(tuple(acc))
            return
        for k in range(j, len(big) - (len(small) - i) + 1):
            if big[k] == small[i]:
                rec(i + 1, k + 1, acc + [k])
    rec(0, 0, [])
    return out


def _count(shape):
    return int(numpy.prod(shape)) if shape else 1


def _shbig_case(o, ps, N, guard_only=False):
    """Sub-harmonic part on large grids, without a model of how the library arranges its draws.
    (1) Structure: the request log of ft_phase_screen is located inside the request log of ft_sh_phase_screen; with a
    dense vector on those positions and zeros elsewhere the variant must return the plain screen of the same draws
    (1e-12) - this both identifies the remaining ('low') draws and shows, on this grid size, that the variant contains
    the plain screen on every row.  If no alignment reproduces the plain screen nothing is claimed.
    (2) Every low draw is pushed through alone; D_lo(x, x') = sum_k (t_k(x) - t_k(x'))^2 is the structure function the
    variant ADDS (origin-, order- and rotation-free), for three reference pixels x' and every pixel x.  With the plain
    screen's D_hi from the statement's Fourier sum, the variant must be closer to the analytic von Karman curve than
    the plain screen on every pair at least N/4 pixels apart.  (Added after a seeded change accumulated the
    sub-harmonics in blocks of 128 rows and dropped the remainder rows for N > 128: those rows gain nothing.)
    The agreement of D_lo with the Lane/Schmidt weights is an observation."""
    delta, r0, L0, l0 = 0.05, 0.2, 40.0, 0.01
    c = N // 2
    gs = SeqGenerator(())
    zs = numpy.asarray(ps.ft_sh_phase_screen(r0, N, delta, L0, l0, seed=gs))
    gf = SeqGenerator(())
    numpy.asarray(ps.ft_phase_screen(r0, N, delta, L0, l0, seed=gf))
    o.stat("lib_calls", 2)
    nds, ndf = int(gs.consumed), int(gf.consumed)
    n_low = nds - ndf
    if ndf == 0 or n_low < 0 or n_low > 512 or zs.shape != (N, N):
        o.stat("shbig_structure_not_identified_not_claimed", 1)
        o.note("shbig_draw_requests", {"sh": str(gs.calls)[:300], "ft": str(gf.calls)[:300]})
        return o
    starts = numpy.concatenate([[0], numpy.cumsum([_count(s) for s in gs.calls])]).astype(int)
    zf = _dense_irregular(ndf, 0)
    plain = numpy.asarray(ps.ft_phase_screen(r0, N, delta, L0, l0, seed=SeqGenerator(zf)), dtype=float)
    o.stat("lib_calls", 1)
    hf_pos = None
    for al in _alignments(list(gf.calls), list(gs.calls)):
        pos = numpy.concatenate([numpy.arange(starts[k], starts[k + 1]) for k in al]) if al else numpy.zeros(0, dtype=int)
        if len(pos) != ndf:
            continue
        v = numpy.zeros(nds)
        v[pos] = zf
        got = numpy.asarray(ps.ft_sh_phase_screen(r0, N, delta, L0, l0, seed=SeqGenerator(v)), dtype=float)
        o.stat("lib_calls", 1)
        if got.shape == plain.shape and _maxabs(got - plain) <= 1e-12 * _maxabs(plain):
            hf_pos = pos
            break
    if hf_pos is None:
        o.stat("shbig_structure_not_identified_not_claimed", 1)
        o.note("shbig_draw_requests", {"sh": str(gs.calls)[:300], "ft": str(gf.calls)[:300]})
        return o
    o.check("sh_contains_the_plain_screen_of_the_same_draws", True, measure=_maxabs(got - plain) / _maxabs(plain), tol=1e-12)
    o.stat("nontrivial", 1)
    if guard_only:
        return o
    low = numpy.setdiff1d(numpy.arange(nds), hf_pos)
    refs = [(0, 0), (c, c), (N - 1, 3)]
    Dlo = [numpy.zeros((N, N)) for _ in refs]
    for k in low:
        v = numpy.zeros(nds)
        v[k] = 1.0
        t = numpy.asarray(ps.ft_sh_phase_screen(r0, N, delta, L0, l0, seed=SeqGenerator(v)), dtype=float)
        o.stat("lib_calls", 1)
        if t.shape != (N, N) or not numpy.all(numpy.isfinite(t)):
            o.check("sh_real_finite_NxN", False, sub="draw=%d" % k, detail="response to a unit low-frequency draw: shape %s" % (t.shape,))
            return o
        for D, (a, b) in zip(Dlo, refs):
            D += (t - t[a, b]) ** 2
    Cof = psd.covariance_by_offset(N, delta, r0, L0, l0)
    yy, xx = numpy.indices((N, N))
    ls = 0.0
    for D, (a, b) in zip(Dlo, refs):
        dy, dx = yy - a, xx - b
        Dh = 2.0 * (Cof[0, 0] - Cof[dy % N, dx % N])
        sep = numpy.sqrt(dy ** 2 + dx ** 2)
        Dvk = vk_cov.structure_function(sep * delta, r0, L0)
        far = sep >= N / 4.0
        gain = numpy.abs(Dh - Dvk) - numpy.abs(Dh + D - Dvk)          # must be > 0
        rel = numpy.where(far, gain / numpy.where(Dvk > 0, Dvk, 1.0), numpy.inf)
        worst = float(numpy.min(rel))
        i, j = numpy.unravel_index(int(numpy.argmin(rel)), rel.shape)
        # the unchanged library gains >= 0.05 D_vK on every far pair of these grids
        o.check("sh_closer_to_analytic_at_large_separation", worst > 0.0, sub="px=%d,%d" % (a, b), measure=-worst, tol=0.0,
                detail="pixels (%d, %d)-(%d, %d): D_hi %.6g added %.6g D_vK %.6g" % (a, b, i, j, Dh[i, j], D[i, j], Dvk[i, j]),
                n=int(far.sum()))
        ref = psd.subharmonic_structure_function(N, delta, r0, L0, l0, dy, dx)
        ls = max(ls, _maxabs(D - ref) / max(float(ref.max()), 1e-300))
    o.note("case_shbig_added_structure_vs_Lane_Schmidt_rel", ls)
    o.stat("low_frequency_draws_probed", len(low))
    return o


# ------------------------------------------------------------------------------------------------ intseed
class _SeedModel(object):
    """Model of numpy.random.default_rng for seeds that are not Generators.  Seed material is reduced to
    (entropy, spawn key): default_rng(n) and default_rng(SeedSequence(n)) are the same stream, the children of
    SeedSequence.spawn differ in their spawn key, every call with None draws fresh entropy.  Equal material replays
    the same stretch of the stream z, distinct material gets disjoint stretches.  A first (discovery) execution with
    all draws zero fixes how long the stretch of each material is."""

    def __init__(self):
        self.length = {}          # key -> normals consumed by one generator of that material (max)
        self.order = []
        self.offset = None
        self.unknown = 0
        self.unmodelled = 0

    def key(self, seed, none_count):
        SS = numpy.random.SeedSequence
        if seed is None:
            return ("none", none_count)
        if isinstance(seed, SS):
            ent = seed.entropy
            ent = tuple(int(e) for e in ent) if numpy.iterable(ent) else (None if ent is None else int(ent))
            return ("ss", ent, tuple(int(k) for k in seed.spawn_key))
        if isinstance(seed, (int, numpy.integer)) and not isinstance(seed, bool):
            return ("ss", int(seed), ())
        if numpy.iterable(seed):
            try:
                return ("ss", tuple(int(e) for e in seed), ())
            except Exception:
                return None
        return None

    def run(self, fn, args, seed, z):
        """one library call with `seed` under the model; z = None: discovery"""
        real = numpy.random.default_rng
        made = []
        state = {"none": 0}

        def fake(s=None, *a, **k):
            if isinstance(s, numpy.random.Generator):
                return s
            if s is None:
                state["none"] += 1
            key = self.key(s, state["none"])
            if key is None:
                self.unmodelled += 1           # a BitGenerator, ...: outside the model
                return real(s, *a, **k)
            if z is None:
                g = SeqGenerator(())
            elif key in self.offset:
                off = self.offset[key]
                g = SeqGenerator(z[off:off + self.length[key]])
            else:
                self.unknown += 1              # material that the discovery execution did not see
                g = SeqGenerator(())
            made.append((key, g))
            return g
        numpy.random.default_rng = fake
        try:
            y = numpy.asarray(fn(*args, seed=seed), dtype=float)
        finally:
            numpy.random.default_rng = real
        if z is None:
            for key, g in made:
                if key not in self.length:
                    self.order.append(key)
                self.length[key] = max(self.length.get(key, 0), int(g.consumed))
        return y

    def freeze(self):
        self.offset, n = {}, 0
        for key in self.order:
            self.offset[key] = n
            n += self.length[key]
        return n


def _intseed_case(o, ps, N):
    """The ensemble over seeds that are not Generators (an integer, None, a SeedSequence).  numpy.random.default_rng
    is replaced by a model (see _SeedModel) in which the screen is a linear function of a stream z of independent
    unit normals; its complete operator is extracted from the unit vectors of z, and the exact covariance of the
    seeded ensemble must equal that of the ensemble over injected Generator draws (which the other cases compare
    with the discretised von Karman sum): a seed only names a realisation, it must not change the statistics.
    Plain and sub-harmonic screens.  If the library does not go through numpy.random.default_rng at call time, or
    uses randomness outside the model, nothing is claimed."""
    delta, r0, L0, l0 = 0.1, 0.2, 5.0, 0.01
    n2 = N * N
    seeds = [("", 4242)]
    if N <= 8:
        seeds += [(":seed=None", None), (":seed=0", 0), (":seed=SeedSequence(5)", "ss5")]
    for name, fn in (("plain", ps.ft_phase_screen), ("subharmonic", ps.ft_sh_phase_screen)):
        args = (r0, N, delta, L0, l0)
        g = SeqGenerator(())
        fn(*args, seed=g)
        nd = int(g.consumed)
        o.stat("lib_calls", 1)
        if nd == 0 or nd > MAX_DRAW_FACTOR * 2 * n2 + 1024:
            o.stat("intseed_not_claimed", 1)
            continue
        eye = numpy.eye(nd)
        T_gen = numpy.array([numpy.asarray(fn(*args, seed=SeqGenerator(eye[k])), dtype=float).ravel() for k in range(nd)]).T
        o.stat("lib_calls", nd)
        C_gen = T_gen @ T_gen.T
        scale = float(numpy.max(numpy.abs(C_gen)))
        tg = _maxabs(T_gen)
        for tag, seed in seeds:
            mk = (lambda: numpy.random.SeedSequence(5)) if seed == "ss5" else (lambda s=seed: s)
            model = _SeedModel()
            try:
                y0 = model.run(fn, args, mk(), None)
                nz = model.freeze()
                o.stat("lib_calls", 1)
                # the seam must carry all the randomness: a replayed generator was consumed, and with every replayed
                # draw zero the screen is zero
                if (nz == 0 or model.unmodelled or y0.shape != (N, N) or not numpy.all(numpy.isfinite(y0))
                        or _maxabs(y0) > 1e-10 * tg or nz > MAX_DRAW_FACTOR * 2 * n2 + 1024):
                    o.stat("intseed_not_claimed", 1)
                    o.note("intseed_not_claimed_reason", "%s%s: %d normals through numpy.random.default_rng, %d generators "
                           "outside the model, zero-stream screen max %.3g" % (name, tag, nz, model.unmodelled, _maxabs(y0)))
                    continue
                eyez = numpy.eye(nz)
                T_int = numpy.array([model.run(fn, args, mk(), eyez[k]).ravel() for k in range(nz)]).T
                o.stat("lib_calls", nz)
            except RuntimeError as e:
                if not _seam_failure(e):
                    raise
                o.stat("intseed_not_claimed", 1)
                continue
            except (TypeError, ValueError) as e:
                # the documented seed types are int and None; a library that refuses a SeedSequence is within its rights
                if seed != "ss5":
                    raise
                o.stat("intseed_not_claimed", 1)
                o.note("intseed_not_claimed_reason", "%s%s: %s" % (name, tag, repr(e)[:120]))
                continue
            if model.unknown or model.unmodelled or T_int.shape[0] != n2:
                o.stat("intseed_not_claimed", 1)
                o.note("intseed_not_claimed_reason", "%s%s: seed material changes between executions" % (name, tag))
                continue
            C_int = T_int @ T_int.T
            o.close("integer_seeded_ensemble_has_the_same_covariance", _maxabs(C_int - C_gen) / scale, 1e-10, sub=name + tag,
                    detail="exact covariance over all draws of the seeded streams vs over injected Generator draws")
    o.stat("nontrivial", 1)
    return o


def _fftarg_case(o, ps, N):
    """FFT=<inverse transform callable>: the optional accelerated-FFT argument takes an object that is called on
    the shifted spectrum in place of numpy's inverse transform; with numpy.fft.ifft2 itself (and with a wrapper
    of it) the ensemble covariance (from all unit draws) must be that of the default path, for the plain and the
    sub-harmonic generator (even N)."""
    delta, r0, L0, l0 = 0.1, 0.2, 25.0, 0.01
    t = (delta, r0, L0, l0)
    n2 = N * N
    cap = MAX_DRAW_FACTOR * 2 * n2 + 1024

    class Wrapped(object):
        def __call__(self, a):
            return numpy.fft.ifft2(a)
    for name, fn in (("plain", ps.ft_phase_screen), ("subharmonic", ps.ft_sh_phase_screen)):
        base = _Screen(o, fn, N, t)
        base.probe()
        if base.nd == 0 or base.nd > cap:
            o.stat("fftarg_not_claimed", 1)
            continue
        Tb = _operator(base, base.nd)
        Cb = Tb @ Tb.T
        worst = 0.0
        for fft in (numpy.fft.ifft2, Wrapped()):
            s = _Screen(o, fn, N, t, extra=(fft,))
            s.probe()
            if s.nd == 0 or s.nd > cap:
                o.stat("fftarg_not_claimed", 1)
                continue
            Tf = _operator(s, s.nd)
            worst = max(worst, _maxabs(Tf @ Tf.T - Cb) / max(_maxabs(Cb), 1e-300) if Tf.shape[0] == Tb.shape[0] else float("inf"))
        o.close("caller_supplied_fft_gives_the_same_screen", worst, 1e-12, sub=name)
    o.stat("nontrivial", 1)
    return o
