"""C07 FFT phase screens have exactly the discretised von Karman statistics.

E2 x E1: for every even N in the bound and every (delta, r0, L0, l0) tuple of the lattice, every
one of the 2 N^2 unit draw vectors (2 N^2 + 54 for the sub-harmonic variant, in call order) is
injected through a SeqGenerator into ft_phase_screen / ft_sh_phase_screen.  The responses are the
columns of the operator T (screen <- draws); T T^T is the EXACT ensemble covariance of the screen,
which is compared with the inverse discrete Fourier sum of the modified von Karman spectrum coded
from the statement (mc/refmodels/psd.py).  A refinement ladder at fixed physical size decides the
"approaches the analytic structure function" clause as a bounded surrogate.
"""
import math

import numpy

from mc import Out, Case
from mc import linear
from mc.env import SeqGenerator
from mc.refmodels import psd, vk_cov

PROPERTY = "C07"
LEVEL = "exploration"
TECHNIQUE = ("bounded exhaustive enumeration (even N x atmosphere tuples x {plain, sub-harmonic}) with basis "
             "exhaustion over the Gaussian draws: every unit draw vector is injected through a Generator "
             "double, giving the full response operator T and the exact ensemble covariance T T^T; frequency-by-"
             "frequency and parameter-ladder cases beyond the full-operator sizes; exhaustive single-preemption "
             "interleaving of two screen generations at library-line granularity")
RULE = ("cases = {ft, sh} x even N in bound x (delta, r0, L0, l0) tuples, plus one refinement-ladder case per "
        "rung N at fixed N*delta = 4*L0; every case pushes all 2N^2 (+54) unit draws through the real code; "
        "all cases are non-trivial (N = 2 is the smallest even grid)")
ASSUMPTIONS = [
    "even N up to the bound and the five-tuple atmosphere lattice; the exact r0^(-5/6) law is verified as an "
    "exact relation between operators, so the lattice result extends along r0",
    "the ensemble is the one induced by an injected numpy Generator (draws i.i.d. unit normal); all statements "
    "about the ensemble follow from T T^T by linearity in the draws, which is tested on the basis",
    "'approaches the analytic structure function as the grid is refined' is decided on a finite ladder "
    "N = 8..64 (quick) / 8..128 (thorough) at fixed N*delta = 4*L0: the maximal relative error of D over the "
    "fixed physical offsets (multiples of L0/2 with |dy|,|dx| <= L0, excluding 0) is non-increasing and below "
    "the stated bound (0.05 at N=64, 0.02 at N=128) at the last rung",
    "'closer to the analytic curve at large separations' is decided for every pixel pair at least N/4 pixels "
    "apart, for configurations with N*delta < L0 (where sub-harmonics are meant to be used)",
    "tolerance 1e-10 relative (measured <= 1e-15) on the covariance identity; 1e-12 on exact scaling",
    "with an INTEGER seed ft_sh_phase_screen seeds two generators identically, so its low-frequency draws "
    "repeat the first 54 high-frequency draws; this is outside a draw-linear statement and recorded as an "
    "observation, not a verdict",
]
ASSUMPTIONS.append(
    "hfbig cases (N = 130...2048): the full covariance needs all 2 N^2 operator columns and is out of reach there; the "
    "clause decides the covariance frequency by frequency under the draw layout of the anchored mechanism (draw "
    "[i, j] of the two N x N normal arrays feeds the coefficient of grid frequency [i, j]); if the library requests "
    "another layout the clause is not claimed (stat hfbig_layout_changed_not_claimed). The full-operator cases "
    "(N <= 34) make no such assumption")
ENGINES = ["E1-product-enumeration", "E2-basis-exhaustion", "E5-environment-answers", "E4-schedule-exploration"]

TOL = 1e-10
TOL_SCALE = 1e-12
# (delta, r0, L0, l0)
TUPLES = [(0.1, 0.2, 25.0, 0.01), (0.5, 0.1, 10.0, 0.05), (0.05, 0.2, 100.0, 0.001),
          (0.25, 0.15, 5.0, 0.1), (1.0, 0.1, 2.0, 0.01)]
R0_FACTORS = [2.0, 0.37]
LADDER_L0, LADDER_R0, LADDER_l0 = 2.0, 0.1, 1e-4
LADDER_BOUND = {64: 0.05, 128: 0.02}


def _sizes(tier):
    return [2, 4, 6, 8] if tier == "quick" else [2, 4, 6, 8, 10, 12, 14, 16, 20, 24]


def _sh_sizes(tier):
    return [2, 4, 6, 8] if tier == "quick" else [2, 4, 6, 8, 10, 12, 14, 16]


def _ladder(tier):
    return [8, 16, 32, 64] if tier == "quick" else [8, 16, 32, 64, 128]


def BOUNDS(tier):
    return {"N_plain": _sizes(tier), "N_subharmonic": _sh_sizes(tier),
            "tuples(delta,r0,L0,l0)": TUPLES, "r0_factors": R0_FACTORS,
            "ladder_N": _ladder(tier), "ladder(L0,r0,l0)": [LADDER_L0, LADDER_R0, LADDER_l0],
            "ladder_bound_at_last_rung": LADDER_BOUND[_ladder(tier)[-1]],
            "tolerances": {"covariance_rel": TOL, "scaling_rel": TOL_SCALE}}


def cases(tier):
    for t in TUPLES:
        tag = "d=%g,r0=%g,L0=%g,l0=%g" % t
        for N in _sizes(tier):
            yield Case("ft:N=%d:%s" % (N, tag), {"kind": "ft", "N": N, "t": t})
        for N in _sh_sizes(tier):
            yield Case("sh:N=%d:%s" % (N, tag), {"kind": "sh", "N": N, "t": t})
    for N in _ladder(tier):
        yield Case("ladder:N=%d" % N, {"kind": "ladder", "N": N})
    for N in ((4, 8, 32) if tier == "quick" else (4, 8, 16, 32, 48, 64)):      # (band- or block-wise drawing starts at some size)
        yield Case("intseed:N=%d" % N, {"kind": "intseed", "N": N})
    # boundary values of the outer scale ("all L0"): infinite (pure Kolmogorov) and astronomically large
    for L0 in (float("inf"), 1e12, 1e100):
        t = (0.1, 0.2, L0, 0.01)
        yield Case("ft:N=6:%s" % ("d=%g,r0=%g,L0=%g,l0=%g" % t), {"kind": "ft", "N": 6, "t": t, "plain_only": True})
        yield Case("sh:N=6:%s" % ("d=%g,r0=%g,L0=%g,l0=%g" % t), {"kind": "sh", "N": 6, "t": t})
    # an accelerated transform passed in by the caller (FFT=...) must give the same screens as the default path
    for N in (4, 8):
        yield Case("fftarg:N=%d" % N, {"kind": "fftarg", "N": N})
    # the zero-frequency clause alone is cheap, so it is decided for EVERY even N up to a much larger bound
    top = 512 if tier == "quick" else 1536
    # the sub-harmonic part for grid sizes far beyond those whose full operator is extracted
    for N in ((130, 160, 256) if tier == "quick" else (130, 160, 192, 200, 256, 300, 384, 500)):
        yield Case("shbig:N=%d" % N, {"kind": "shbig", "N": N})
    # more plain-screen sizes (full operator): sizes with a large prime factor (26 = 2*13, 34 = 2*17)
    for N in ((26, 34) if tier == "quick" else (26, 34, 38, 46)):
        t = TUPLES[0]
        yield Case("ft:N=%d:%s" % (N, "d=%g,r0=%g,L0=%g,l0=%g" % t), {"kind": "ft", "N": N, "t": t, "plain_only": True})
    # the high-frequency part on grids far above the full-operator sizes, frequency by frequency
    for N in ((130, 1024) if tier == "quick" else (130, 300, 1024, 1030, 2048)):
        yield Case("hfbig:N=%d" % N, {"kind": "hfbig", "N": N})
    # amplitude ~ r0^(-5/6) over nine decades of r0, and the other parameters over wide ladders
    for fn in ("ft", "ftsh"):
        yield Case("r0ladder:%s" % fn, {"kind": "r0ladder", "fn": fn})
        yield Case("preempt:%s" % fn, {"kind": "preempt", "fn": fn})
    for lo in range(2, top + 1, 32):
        yield Case("dc:N=%d-%d" % (lo, min(lo + 30, top)), {"kind": "dc", "lo": lo, "hi": min(lo + 30, top)})


def setup(tier):
    vk_cov.selftest()


def _maxabs(a):
    a = numpy.asarray(a)
    return float(numpy.max(numpy.abs(a))) if a.size else 0.0


class _Screen(object):
    """screen as a function of the flat draw vector, through the seed seam"""

    def __init__(self, o, fn, N, t, r0=None):
        self.o, self.fn, self.N = o, fn, N
        self.d, self.r0, self.L0, self.l0 = t
        if r0 is not None:
            self.r0 = r0
        self.calls_seen = None
        self.bad = None

    def __call__(self, draws):
        g = SeqGenerator(draws)
        y = self.fn(self.r0, self.N, self.d, self.L0, self.l0, seed=g)
        self.o.stat("lib_calls", 1)
        y = numpy.asarray(y)
        if self.bad is None and (y.shape != (self.N, self.N) or numpy.iscomplexobj(y)
                                 or not numpy.all(numpy.isfinite(y))):
            self.bad = "shape %s dtype %s" % (y.shape, y.dtype)
        if self.calls_seen is None:
            self.calls_seen = list(g.calls)
        elif self.calls_seen != g.calls:
            self.bad = self.bad or "draw requests changed between calls: %s" % (g.calls,)
        return y


def _total(calls):
    return sum(int(numpy.prod(c)) if c else 1 for c in (calls or []))


def _operator(scr, ndraw):
    T, _ = linear.operator(scr, (ndraw,), dtype=float)
    return T


def _pair_structure(C):
    """D[x, x'] = C[x,x] + C[x',x'] - 2 C[x,x'] for every pixel pair"""
    d = numpy.diag(C)
    return d[:, None] + d[None, :] - 2.0 * C


def evaluate(p):
    from aotools.turbulence import phasescreen as ps
    o = Out()
    if p["kind"] == "ladder":
        return _ladder_case(o, ps, p["N"])
    if p["kind"] == "dc":
        return _dc_case(o, ps, p["lo"], p["hi"])
    if p["kind"] == "shbig":
        return _shbig_case(o, ps, p["N"])
    if p["kind"] == "intseed":
        return _intseed_case(o, ps, p["N"])
    if p["kind"] == "fftarg":
        return _fftarg_case(o, ps, p["N"])
    if p["kind"] == "hfbig":
        return _hfbig_case(o, ps, p["N"])
    if p["kind"] == "r0ladder":
        return _r0ladder_case(o, ps, p["fn"])
    if p["kind"] == "preempt":
        return _preempt_case(o, ps, p["fn"])
    N, t = p["N"], p["t"]
    delta, r0, L0, l0 = t
    n2 = N * N
    plain = _Screen(o, ps.ft_phase_screen, N, t)
    T = _operator(plain, 2 * n2)
    Cref = psd.covariance_matrix(N, delta, r0, L0, l0)
    cs = float(numpy.max(numpy.diag(Cref)))
    ts = max(_maxabs(T), 1e-300)
    C = T @ T.T
    if p["kind"] == "ft":
        # the basis is complete only if exactly 2 N^2 normals are consumed (request shapes are free)
        o.check("draws_consumed", _total(plain.calls_seen) == 2 * n2,
                detail="normal() requests %s, expected 2*N*N = %d values" % (plain.calls_seen, 2 * n2))
        o.check("real_finite_NxN", plain.bad is None, detail=plain.bad)
        z = plain(numpy.zeros(2 * n2))
        o.check("zero_draws_zero_screen", bool(numpy.all(z == 0.0)), measure=_maxabs(z), tol=0.0)
        e, k = linear.superposition_error(plain, (2 * n2,), T, dtype=float)
        o.close("linear_in_draws", e / (4.0 * ts), TOL)
        o.close("covariance_equals_discrete_vk_sum", _maxabs(C - Cref) / cs, TOL)
        dg = numpy.diag(C)
        o.close("variance_position_independent", float(dg.max() - dg.min()) / cs, TOL)
        o.close("zero_frequency_removed", _maxabs(T.sum(axis=0)) / (n2 * ts), TOL)
        for c in R0_FACTORS:
            Tc = _operator(_Screen(o, ps.ft_phase_screen, N, t, r0=c * r0), 2 * n2)
            o.close("r0_scaling_exact", _maxabs(Tc - c ** (-5.0 / 6.0) * T) / ts, TOL_SCALE, sub="c=%g" % c)
        o.outcome(numpy.round(C / cs, 9))
        return o

    # ---------------------------------------------------------------- sub-harmonic variant
    nd = 2 * n2 + 54
    sh = _Screen(o, ps.ft_sh_phase_screen, N, t)
    Ts = _operator(sh, nd)
    o.check("sh_draws_consumed", _total(sh.calls_seen) == nd,
            detail="normal() requests %s, expected 2*N*N + 3*18 = %d values" % (sh.calls_seen, nd))
    o.check("sh_real_finite_NxN", sh.bad is None, detail=sh.bad)
    z = sh(numpy.zeros(nd))
    o.check("sh_zero_draws_zero_screen", bool(numpy.all(z == 0.0)), measure=_maxabs(z), tol=0.0)
    e, k = linear.superposition_error(sh, (nd,), Ts, dtype=float)
    o.close("sh_linear_in_draws", e / (4.0 * max(_maxabs(Ts), 1e-300)), TOL)
    if Ts.shape[1] != nd:
        o.check("sh_high_frequency_part_identical", False, detail="operator shape %s" % (Ts.shape,))
        return o
    o.close("sh_high_frequency_part_identical", _maxabs(Ts[:, :2 * n2] - T) / ts, TOL_SCALE)
    Cs = Ts @ Ts.T
    Dh, Ds = _pair_structure(C), _pair_structure(Cs)
    dmax = float(Dh.max())
    o.close("sh_no_structure_value_decreases", float(numpy.max(Dh - Ds)) / dmax, 1e-12)
    # pixel pair geometry
    y, x = numpy.divmod(numpy.arange(n2), N)
    dy, dx = y[:, None] - y[None, :], x[:, None] - x[None, :]
    sep = numpy.sqrt(dy ** 2 + dx ** 2)
    if N * delta < L0:
        if L0 > 1e6 * N * delta:
            # outer scale astronomically larger than the screen: the analytic curve is its Kolmogorov limit
            # 6.88 (r/r0)^(5/3), from which the von Karman curve differs by less than (r/L0)^(1/3) < 1e-2 relative
            # (the reference's Bessel form loses all digits there)
            Dvk = 6.88 * (sep * delta / r0) ** (5.0 / 3.0)
        else:
            Dvk = vk_cov.structure_function(sep * delta, r0, L0)
        far = sep >= N / 4.0
        gain = numpy.abs(Dh - Dvk) - numpy.abs(Ds - Dvk)       # must be > 0
        worst = float(numpy.min(gain[far] / Dvk[far]))
        i = int(numpy.argmin(numpy.where(far, gain / numpy.where(Dvk > 0, Dvk, 1.0), numpy.inf)))
        a, b = divmod(i, n2)
        o.check("sh_closer_to_analytic_at_large_separation", worst > 0.0, measure=-worst, tol=0.0,
                detail="pixels %s-%s: D_hi %.6g D_sh %.6g D_vK %.6g" % (
                    (int(y[a]), int(x[a])), (int(y[b]), int(x[b])), Dh[a, b], Ds[a, b], Dvk[a, b]),
                n=int(far.sum()))
        o.note("case_sh_min_relative_gain_far_pairs", worst)
    else:
        o.stat("sh_closer_clause_not_applicable(N*delta>=L0)", 1)
    # observations (not verdicts) -------------------------------------------------------------
    Dlo_ref = psd.subharmonic_structure_function(N, delta, r0, L0, l0, dy, dx)
    o.note("case_sh_added_structure_vs_Lane_Schmidt_rel",
           _maxabs((Ds - Dh) - Dlo_ref) / max(float(Dlo_ref.max()), 1e-300))
    o.note("case_sh_low_part_spatial_mean_rel", _maxabs(Ts[:, 2 * n2:].mean(axis=0)) / max(_maxabs(Ts[:, 2 * n2:]), 1e-300))
    if N == 4:
        st = numpy.random.default_rng(12345).normal(size=2 * n2 + 54)
        got = numpy.asarray(ps.ft_sh_phase_screen(r0, N, delta, L0, l0, seed=12345))
        o.stat("lib_calls", 1)
        rep = numpy.concatenate([st[:2 * n2], st[:54]])
        ind = st
        o.note("case_integer_seed_low_draws_repeat_high_draws",
               bool(_maxabs(Ts @ rep - got.reshape(-1)) < 1e-9 * max(_maxabs(got), 1e-300)
                    and not _maxabs(Ts @ ind - got.reshape(-1)) < 1e-9 * max(_maxabs(got), 1e-300)))
    o.outcome(numpy.round(Cs / cs, 9))
    return o


def _ladder_case(o, ps, N):
    L0, r0, l0 = LADDER_L0, LADDER_R0, LADDER_l0
    delta = 4.0 * L0 / N
    c = N // 2
    n2 = N * N
    row = numpy.zeros((N, N))
    diag = numpy.zeros((N, N))
    draws = numpy.zeros(2 * n2)
    for k in range(2 * n2):
        draws[k] = 1.0
        s = numpy.asarray(ps.ft_phase_screen(r0, N, delta, L0, l0, seed=SeqGenerator(draws)))
        draws[k] = 0.0
        row += s[c, c] * s
        diag += s * s
    o.stat("lib_calls", 2 * n2)
    ref = psd.covariance_row(N, delta, r0, L0, l0, (c, c))
    o.close("ladder_covariance_row", _maxabs(row - ref) / float(ref[c, c]), TOL, sub=None)
    D = diag[c, c] + diag - 2.0 * row
    off = numpy.arange(N) - c
    dy, dx = off[:, None], off[None, :]
    sep = numpy.sqrt(dy ** 2 + dx ** 2)
    sel = (sep >= 1.0) & (numpy.abs(dy) <= N // 4) & (numpy.abs(dx) <= N // 4)
    Dvk = vk_cov.structure_function(sep * delta, r0, L0)
    err = float(numpy.max(numpy.abs(D[sel] - Dvk[sel]) / Dvk[sel]))
    o.note("case_ladder_err_all_offsets", err)
    # same physical offsets on every rung (multiples of the coarsest pixel, 4*L0/8)
    step = N // 8
    coarse = sel & (dy % step == 0) & (dx % step == 0)
    o.note("case_ladder_err_fixed_offsets", float(numpy.max(numpy.abs(D[coarse] - Dvk[coarse]) / Dvk[coarse])))
    return o


def finalize(tier, results):
    o = Out()
    # observations aggregated over all cases (per-case notes are "last one wins" in the runner)
    def agg(key, fn):
        v = [r.notes[key] for r in results.values() if key in r.notes]
        return fn(v) if v else None
    o.note("obs_sh_added_structure_vs_Lane_Schmidt_weights_max_rel",
           agg("case_sh_added_structure_vs_Lane_Schmidt_rel", max))
    o.note("obs_sh_low_part_spatial_mean_max_rel", agg("case_sh_low_part_spatial_mean_rel", max))
    o.note("obs_sh_min_relative_gain_far_pairs", agg("case_sh_min_relative_gain_far_pairs", min))
    o.note("obs_integer_seed_low_draws_repeat_first_54_high_draws",
           agg("case_integer_seed_low_draws_repeat_high_draws", all))
    rungs = _ladder(tier)
    errs, fixed = [], []
    for N in rungs:
        r = results.get("ladder:N=%d" % N)
        if r is None or "case_ladder_err_fixed_offsets" not in r.notes:
            return o          # filtered run (--only) or a rung that raised (reported as no_exception)
        errs.append(float(r.notes["case_ladder_err_all_offsets"]))
        fixed.append(float(r.notes["case_ladder_err_fixed_offsets"]))
    o.note("obs_ladder_max_rel_error_all_pixel_offsets_by_N", dict(zip(map(str, rungs), errs)))
    o.note("ladder_max_rel_error_fixed_offsets_by_N", dict(zip(map(str, rungs), fixed)))
    # verdict: error at FIXED physical offsets (multiples of the coarsest pixel 4*L0/8); the error over all
    # pixel offsets (dominated by the one-pixel separation, which shrinks with the pixel) is an observation
    for a, b, Na, Nb in zip(fixed[:-1], fixed[1:], rungs[:-1], rungs[1:]):
        o.check("ladder_error_non_increasing", b <= a, sub="N=%d->%d" % (Na, Nb),
                measure=b - a, tol=0.0, detail="max relative error of D at fixed offsets: %.4g -> %.4g" % (a, b))
    o.close("ladder_error_at_last_rung", fixed[-1], LADDER_BOUND[rungs[-1]], sub="N=%d" % rungs[-1])
    return o


LEVEL_TEXT = ("Every even N in the bound (2..8 quick; 2..24 plain / 2..16 sub-harmonic thorough) x five "
              "(delta, r0, L0, l0) tuples x both generators is enumerated; for each, all 2N^2 (+54) unit draw "
              "vectors are injected, so the covariance identity, zero mean, constant variance and the exact "
              "r0^(-5/6) law hold for the whole Gaussian ensemble and every pixel pair, not for sampled screens; "
              "the refinement clause is decided on a ladder N = 8..64 (128 thorough).")
LEVEL_NOTE = ("Trusted: numpy matrix arithmetic, the PSD/covariance reference (mc/refmodels/psd.py, from the "
              "statement) and the closed-form von Karman structure function (mc/refmodels/vk_cov.py, self-tested). "
              "Not covered: odd N (outside the property), the FFT= accelerator argument, N beyond the bound, "
              "integer-seed coupling of the two generators in the sub-harmonic variant (observation only), the "
              "exact sub-harmonic weights (the statement only requires added low-frequency power; their "
              "agreement with the Lane/Schmidt scheme is recorded as an observation).")


def _dc_case(o, ps, lo, hi):
    """'with the zero frequency removed', for every even N of the range: a unit draw on the zero-frequency
    coefficient (real part, imaginary part) contributes nothing, and the screen of a dense draw vector has zero
    spatial mean; a unit draw on the neighbouring coefficient does contribute (the probe is not vacuous).
    (Added after a seeded change left the DC term in for N = 98, 196, 206, ... only.)"""
    from mc.env import SeqGenerator
    r0, L0, l0 = 0.2, 25.0, 0.01
    for N in range(lo, hi + 1, 2):
        c = N // 2
        n2 = N * N
        for delta in (0.1, 0.3, 0.02, 1.0, 4.2 / 128):       # the frequency grid is a function of N and delta

            def screen(vec, delta=delta):
                return numpy.asarray(ps.ft_phase_screen(r0, N, delta, L0, l0, seed=SeqGenerator(vec)))
            for part, off in (("re", 0), ("im", n2)):
                v = numpy.zeros(2 * n2)
                v[off + c * N + c] = 1.0
                s = screen(v)
                o.stat("lib_calls", 1)
                o.check("zero_frequency_draw_contributes_nothing", s.shape == (N, N) and bool(numpy.all(s == 0.0)),
                        sub="N=%d:delta=%g:%s" % (N, delta, part), measure=_maxabs(s), tol=0.0)
        delta = 0.1

        def screen(vec):
            return numpy.asarray(ps.ft_phase_screen(r0, N, delta, L0, l0, seed=SeqGenerator(vec)))
        v = numpy.zeros(2 * n2)
        v[c * N + (c + 1) % N] = 1.0
        s1 = screen(v)
        dense = screen(((numpy.arange(2 * n2) * 7) % 11 - 5.0) / 5.0)
        o.stat("lib_calls", 2)
        if N > 2:
            o.check("neighbouring_draw_contributes", _maxabs(s1) > 0.0, sub="N=%d" % N)
        scale = max(_maxabs(dense), 1e-300)
        o.close("dense_screen_has_zero_mean", abs(float(dense.mean())) / scale, 1e-10, sub="N=%d" % N)
    o.stat("nontrivial", (hi - lo) // 2 + 1)
    return o


def _hfbig_case(o, ps, N):
    """Large grids, one frequency at a time.  The covariance of the statement is a sum of one term per grid
    frequency, Phi(f) df^2 cos(2 pi f.(x - x')).  With the draw layout of the anchored mechanism (two N x N
    normal arrays, real parts then imaginary parts, draw [i, j] feeding the coefficient of grid frequency [i, j])
    the two draws of one frequency contribute t_re(x) t_re(x') + t_im(x) t_im(x'), which must be exactly that
    frequency's term - on every pixel x, for three reference pixels x'.  Probed: the zero-frequency lines
    (fx = 0, fy = 0), the Nyquist lines, the diagonal, and scattered interior frequencies.  The clause is claimed
    only if the library still requests exactly that layout (otherwise: counted as not claimed)."""
    from mc.env import SeqGenerator
    delta, r0, L0, l0 = 0.1, 0.2, 25.0, 0.01
    n2 = N * N
    c = N // 2
    g = SeqGenerator(numpy.zeros(2 * n2))
    z = numpy.asarray(ps.ft_phase_screen(r0, N, delta, L0, l0, seed=g))
    o.stat("lib_calls", 1)
    if [tuple(x) if x else () for x in g.calls] != [(N, N), (N, N)]:
        o.stat("hfbig_layout_changed_not_claimed", 1)
        o.note("hfbig_draw_requests", str(g.calls))
        return o
    o.check("zero_draws_zero_screen", z.shape == (N, N) and bool(numpy.all(z == 0.0)))
    _, W = psd.grid_weights(N, delta, r0, L0, l0)
    idx = set()
    for k in (0, 1, 2, c - 3, c - 1, c + 1, c + 2, N - 2, N - 1):
        idx.update([(c, k), (k, c), (0, k), (k, 0), (k, k), (k, N - 1 - k)])
    idx.update([(7, 3), (N // 3, 2 * N // 3 + 1), (N - 5, c + 9), (c + 1, c + 1), (c - 1, c + 1)])
    idx.discard((c, c))
    refs = [(0, 0), (c, c), (N - 1, 3)]
    r, s_ = numpy.indices((N, N))
    worst = 0.0
    wmax = float(W.max())
    for (i, j) in sorted(idx):
        cols = []
        for off in (0, n2):
            v = numpy.zeros(2 * n2)
            v[off + i * N + j] = 1.0
            cols.append(numpy.asarray(ps.ft_phase_screen(r0, N, delta, L0, l0, seed=SeqGenerator(v)), dtype=float))
        o.stat("lib_calls", 2)
        if cols[0].shape != (N, N):
            o.check("frequency_term_exact_on_large_grid", False, sub="i=%d:j=%d" % (i, j), detail="shape %s" % (cols[0].shape,))
            continue
        err = 0.0
        for (a, b) in refs:
            got = cols[0] * cols[0][a, b] + cols[1] * cols[1][a, b]
            want = W[i, j] * numpy.cos(2.0 * numpy.pi * ((i - c) * (r - a) + (j - c) * (s_ - b)) / float(N))
            err = max(err, float(numpy.max(numpy.abs(got - want))) / wmax)
        worst = max(worst, err)
        if not err <= 1e-9:
            o.check("frequency_term_exact_on_large_grid", False, sub="i=%d:j=%d" % (i, j), measure=err, tol=1e-9,
                    detail="frequency index (%d, %d) of an N=%d grid (centre %d)" % (i, j, N, c))
    if worst <= 1e-9:
        o.check("frequency_term_exact_on_large_grid", True, measure=worst, tol=1e-9, n=len(idx))
    o.stat("nontrivial", 1)
    return o


def _preempt_case(o, ps, fn):
    """'a linear function of its own draws' while another screen of the same size is being generated: call B (other
    draws, other r0) is run to completion at EVERY library line of call A (all two-thread schedules with one
    preemption, mc/reentry.py); A's screen must be the screen of A's draws alone, B's that of B's"""
    from mc.env import SeqGenerator
    from mc import reentry
    N, delta, L0, l0 = 8, 0.1, 25.0, 0.01
    f = ps.ft_phase_screen if fn == "ft" else ps.ft_sh_phase_screen
    nd = 2 * N * N + (54 if fn == "ftsh" else 0)
    za = ((numpy.arange(nd) * 7) % 11 - 5.0) / 5.0
    zb = ((numpy.arange(nd) * 5) % 13 - 6.0) / 3.0
    A = lambda: numpy.asarray(f(0.2, N, delta, L0, l0, seed=SeqGenerator(za))).copy()
    n_bad = n = 0
    for other in (ps.ft_phase_screen, ps.ft_sh_phase_screen):
        B = lambda: numpy.asarray(other(0.1, N, delta, L0, l0, seed=SeqGenerator(zb[:2 * N * N + (54 if other is ps.ft_sh_phase_screen else 0)]))).copy()
        ra, rb = A(), B()
        where_bad = []
        for k, where, xa, xb in reentry.explore(A, B):
            n += 1
            if not (numpy.array_equal(xa, ra) and numpy.array_equal(xb, rb)):
                where_bad.append(where)
        o.check("own_draws_only_when_interleaved_with_another_call", not where_bad, sub="B=%s" % other.__name__,
                detail=None if not where_bad else "differs when B runs at %s" % ", ".join(sorted(set(where_bad))[:8]), n=max(n, 1))
    o.stat("schedules_explored", n)
    o.stat("lib_calls", 2 * n)
    o.stat("nontrivial", 1)
    return o


def _r0ladder_case(o, ps, fn):
    """amplitude ~ r0^(-5/6) exactly, over nine decades of r0 (sub-millimetre to 100 m), same draws"""
    from mc.env import SeqGenerator
    N, delta, L0, l0 = 8, 0.1, 25.0, 0.01
    f = ps.ft_phase_screen if fn == "ft" else ps.ft_sh_phase_screen
    nd = 2 * N * N + (54 if fn == "ftsh" else 0)
    vec = ((numpy.arange(nd) * 7) % 11 - 5.0) / 5.0
    base = numpy.asarray(f(0.2, N, delta, L0, l0, seed=SeqGenerator(vec)))
    for r0 in (2e-5, 1e-4, 5e-4, 1e-3, 0.01, 1.0, 12.0, 100.0, 1e4):
        got = numpy.asarray(f(r0, N, delta, L0, l0, seed=SeqGenerator(vec)))
        want = base * (r0 / 0.2) ** (-5.0 / 6.0)
        o.close("r0_scaling_exact", _maxabs(got - want) / max(_maxabs(want), 1e-300), 1e-11, sub="%s:r0=%g" % (fn, r0))
    for d in (1e-4, 0.004, 3.0, 250.0):
        # phi(x; delta, L0, l0) depends on lengths only through ratios and the r0^(-5/6) amplitude: scaling every
        # length by c scales nothing but r0's unit, so screen(c r0, c delta, c L0, c l0) = screen(r0, delta, L0, l0)
        c = d / delta
        got = numpy.asarray(f(0.2 * c, N, d, L0 * c, l0 * c, seed=SeqGenerator(vec)))
        o.close("unit_of_length_irrelevant", _maxabs(got - base) / max(_maxabs(base), 1e-300), 1e-10, sub="%s:delta=%g" % (fn, d))
    o.stat("lib_calls", 14)
    o.stat("nontrivial", 1)
    return o


def _shbig_case(o, ps, N):
    """Sub-harmonic part on large grids: with all high-frequency draws zero and ONE unit draw on a sub-harmonic
    coefficient, the screen is that coefficient's plane wave minus its mean, on EVERY row and column:
        Re[c exp(2 pi i (fx x + fy y))] - mean,  c = (1 or i) sqrt(PSD(f)) del_f,  del_f = 1/(3^p N delta),
        (fx, fy) = (j-1, i-1) del_f,  x, y = (k - N/2) delta.
    All 3 levels x 8 coefficients x (re, im) are probed.  (Added after a seeded change accumulated the
    sub-harmonics in blocks of 128 rows and dropped the remainder rows for N > 128.)"""
    from mc.env import SeqGenerator
    delta, r0, L0, l0 = 0.05, 0.2, 40.0, 0.01
    n2 = N * N
    coords = (numpy.arange(N) - N / 2.0) * delta
    x, y = numpy.meshgrid(coords, coords)
    fm = 5.92 / l0 / (2 * numpy.pi)
    worst = 0.0
    for p_ in (1, 2, 3):
        del_f = 1.0 / (3 ** p_ * N * delta)
        for i in range(3):
            for j in range(3):
                if i == 1 and j == 1:
                    continue
                fx, fy = (j - 1) * del_f, (i - 1) * del_f
                f = numpy.hypot(fx, fy)
                psd_ = 0.023 * r0 ** (-5.0 / 3) * numpy.exp(-(f / fm) ** 2) / (f ** 2 + (1.0 / L0) ** 2) ** (11.0 / 6)
                for part, c in (("re", 1.0), ("im", 1j)):
                    vec = numpy.zeros(2 * n2 + 54)
                    vec[2 * n2 + 18 * (p_ - 1) + (0 if part == "re" else 9) + 3 * i + j] = 1.0
                    got = numpy.asarray(ps.ft_sh_phase_screen(r0, N, delta, L0, l0, seed=SeqGenerator(vec)))
                    o.stat("lib_calls", 1)
                    want = numpy.real(c * numpy.sqrt(psd_) * del_f * numpy.exp(2j * numpy.pi * (fx * x + fy * y)))
                    want = want - want.mean()
                    scale = float(numpy.max(numpy.abs(want)))
                    err = float(numpy.max(numpy.abs(got - want))) / scale if got.shape == want.shape else float("inf")
                    worst = max(worst, err)
                    if not err <= 1e-9:
                        rows = numpy.where(numpy.max(numpy.abs(got - want), axis=1) > 1e-9 * scale)[0] if got.shape == want.shape else []
                        o.check("subharmonic_plane_wave_on_every_row", False, sub="p=%d:coef=%d%d:%s" % (p_, i, j, part),
                                measure=err, tol=1e-9, detail={"rows_off": [int(r) for r in rows[:6]], "n_rows_off": int(len(rows))})
    o.check("subharmonic_plane_wave_on_every_row", worst <= 1e-9, measure=worst, tol=1e-9, n=48) if worst <= 1e-9 else None
    o.stat("nontrivial", 1)
    return o


def _intseed_case(o, ps, N):
    """The ensemble over INTEGER seeds.  With an integer seed every numpy.random.default_rng(seed) call the
    library makes restarts the same stream z of independent unit normals; that is modelled exactly by making
    default_rng return, for a non-Generator argument, a generator that replays z from its beginning.  The screen
    is then a linear function of z, its complete operator is extracted from the unit vectors of z, and the
    exact covariance of the integer-seeded ensemble must equal that of the ensemble over injected Generator
    draws (which the other cases compare with the discretised von Karman sum): a seed only names a realisation,
    it must not change the statistics.  Plain and sub-harmonic screens."""
    from mc.env import SeqGenerator
    delta, r0, L0, l0 = 0.1, 0.2, 5.0, 0.01
    n2 = N * N

    def with_int_seed(fn, z):
        real = numpy.random.default_rng

        def fake(seed=None):
            if isinstance(seed, numpy.random.Generator):
                return seed
            return SeqGenerator(z)
        numpy.random.default_rng = fake
        try:
            return numpy.asarray(fn(r0, N, delta, L0, l0, seed=4242)).ravel()
        finally:
            numpy.random.default_rng = real

    for name, fn, nz in (("plain", ps.ft_phase_screen, 2 * n2), ("subharmonic", ps.ft_sh_phase_screen, 2 * n2 + 54)):
        eye = numpy.eye(nz)
        T_int = numpy.array([with_int_seed(fn, eye[k]) for k in range(nz)]).T
        T_gen = numpy.array([numpy.asarray(fn(r0, N, delta, L0, l0, seed=SeqGenerator(eye[k]))).ravel() for k in range(nz)]).T
        o.stat("lib_calls", 2 * nz)
        C_int, C_gen = T_int @ T_int.T, T_gen @ T_gen.T
        scale = float(numpy.max(numpy.abs(C_gen)))
        o.close("integer_seeded_ensemble_has_the_same_covariance", _maxabs(C_int - C_gen) / scale, 1e-10, sub=name,
                detail="exact covariance over all draws of an integer-seeded stream vs over injected Generator draws")
    o.stat("nontrivial", 1)
    return o


def _fftarg_case(o, ps, N):
    """FFT=<inverse transform callable>: the optional accelerated-FFT argument takes an object that is called on
    the shifted spectrum in place of numpy's inverse transform; with numpy.fft.ifft2 itself (and with a wrapper
    of it) every unit draw must give the same screen as the default path, for the plain and the sub-harmonic
    generator (even N)."""
    from mc.env import SeqGenerator
    delta, r0, L0, l0 = 0.1, 0.2, 25.0, 0.01
    n2 = N * N

    class Wrapped(object):
        def __call__(self, a):
            return numpy.fft.ifft2(a)
    for name, fn, nz in (("plain", ps.ft_phase_screen, 2 * n2), ("subharmonic", ps.ft_sh_phase_screen, 2 * n2 + 54)):
        worst = 0.0
        for k in range(nz):
            v = numpy.zeros(nz)
            v[k] = 1.0
            base = numpy.asarray(fn(r0, N, delta, L0, l0, seed=SeqGenerator(v)))
            for fft in (numpy.fft.ifft2, Wrapped()):
                got = numpy.asarray(fn(r0, N, delta, L0, l0, fft, seed=SeqGenerator(v)))
                worst = max(worst, _maxabs(got - base) / max(_maxabs(base), 1e-300) if got.shape == base.shape else float("inf"))
        o.stat("lib_calls", 3 * nz)
        o.close("caller_supplied_fft_gives_the_same_screen", worst, 1e-12, sub=name)
    o.stat("nontrivial", 1)
    return o
