"""C15 Centroiders locate, shift, scale and batch consistently.

E1: every single-bright-pixel image of every shape 2..7 x 2..7 and 1 x k / k x 1; EVERY image over a small grey
alphabet on 2x2 / 2x3 / 3x3 / 3x4 (scaled by every factor, embedded at every offset of a larger
frame, with every threshold); every ordered tuple (depth 1..3) of a 12-image alphabet as a stack;
every displacement of every small pattern for the correlation centroid (frames 3..8, rectangular,
paddings 1..4); all 2x2 images for the quad cell.  Oracle: exact rational centre of gravity
(mc/refmodels/cog.py) for the unthresholded value, and the relations of the statement (scale,
shift, stack == frames, displacement from the array centre, mirror antisymmetry) evaluated on the
library's own outputs.  Every array handed to aotools is a fresh copy (whether a centroider may modify
its argument is C20's business, not demanded here).  An image without flux has no centroid: such
images (and frames, and quad cells) are left out of every relation.
"""
import itertools
import warnings

import numpy

from mc import Out, Case
from mc.refmodels import cog

PROPERTY = "C15"
LEVEL = "exploration"
TECHNIQUE = ("bounded exhaustive enumeration of images (all images over a grey alphabet on small shapes, all "
             "positions, all offsets, all thresholds, all ordered stacks up to depth 3, all displacements and "
             "paddings) against an exact rational centre of gravity and the relations of the statement")
RULE = ("cases = single-pixel shapes (2..7)^2 and 1 x 1..7, 2..7 x 1; chunks of the complete image enumeration per (shape, alphabet); "
        "(centroider, threshold, depth) for stacks; (ny, nx, padding) for the correlation centroid; the 2x2 "
        "alphabet for the quad cell. Images, frames and quad cells without flux (centre of gravity undefined) are "
        "skipped. A case is "
        "non-trivial when it contains an image with at least two distinct non-zero pixels or a non-zero threshold")
ASSUMPTIONS = [
    "image values come from small alphabets ({0,1,3}, {0,1,2,3}, {0,1}) times the scales {1,2,1/2,3} (2x2 family "
    "also 1e-6, 1e-3, 1/3, 1e6; correlation images 3 and 1e-6; single pixels of value 1, 3, 0.7, 1e-7, 1e7); shapes up to 3x4 (7x7 and 1xk / kx1 for single pixels, 8x8 "
    "frames for the correlation centroid)",
    "with a non-zero threshold only the RELATIONS of the statement are demanded (the statement does not say "
    "whether the threshold is subtracted); the absolute value is compared with the exact centre of gravity for "
    "threshold 0 only",
    "scale invariance and shift equivariance are demanded of centre_of_gravity, brightest_pixel and "
    "correlation_centroid; quadCell (an un-normalised difference signal, treated separately by the statement) "
    "is only required to change sign under mirroring and to batch consistently",
    "'array centre' along an axis of n pixels, in pixel-index coordinates: odd n -> the central pixel (n-1)/2 "
    "(unambiguous); even n -> either n/2 (FFT centre sample) or (n-1)/2 (geometric middle) is accepted, but it "
    "must be the same reading for one n at every padding, threshold, pattern and on both axes",
    "an image 'displaced by a real-valued s' is the linear-interpolation shift along one axis: the mix "
    "(1-a) I(s0) + a I(s1) of two lattice displacements one pixel apart, s = (1-a) s0 + a s1 (threshold 0 only)",
    "a uniform floor under image and/or reference (the content sits on a constant background, at least one pixel "
    "of the frame at the floor) is part of 'all non-negative images' for the correlation centroid",
    "min_threshold (an absolute floor of the centre-of-gravity threshold) is part of 'with thresholds' for "
    "stack == frames and shift equivariance, not for scale invariance; it is only passed with a non-zero threshold",
    "same_function_all_paths compares the VALUES returned through the package-level names and through "
    "aotools.image_processing.centroiders (object identity is not demanded)",
    "brightest-pixel fractions are (k + 1/4) / n_pixels: k pixels under rounding to nearest and under truncation",
    "correlation displacements are restricted to those where neither the content nor the support of the "
    "correlation reaches the frame border (no circular wrap-around)",
    "stacks are 3-D (frames, y, x) (2 and 3 leading axes in the 'large' and quad-cell cases); tolerances 1e-12 "
    "(direct sums) and 1e-9 (FFT correlation) absolute, in pixels; float32 images: 8 * eps32 * frame size",
]
ENGINES = ["E1-product-enumeration"]
LEVEL_TEXT = ("All single-pixel images of all shapes 2..7 x 2..7 (and 1 x k, k x 1), all images over {0,1,2,3} on 2x2, {0,1,3} on "
              "2x3 (and 3x3 in the thorough tier), {0,1} on 3x3 (3x4) are enumerated with every scale, offset and "
              "threshold of the alphabet, through the 2-D and the N-D code path; every ordered stack of depth "
              "1..3 over a 12-image alphabet; every admissible displacement of every pattern on every frame "
              "shape and padding for the correlation centroid, on zero background and on uniform floors, and "
              "linear mixes (1/4, 1/2, 0.7) of neighbouring displacements; min_threshold below / between / above "
              "threshold * max of the stack alphabet; single rows and columns.")
LEVEL_NOTE = ("Trusted: Python Fractions. Not covered: grey values outside the alphabets, larger images (beyond the "
              "257 x 65 spot cases), min_threshold with threshold 0, correlation with wrap-around, real-valued "
              "displacements other than linear mixes of two neighbouring lattice displacements. Purity of the calls "
              "(arguments left unchanged, read-only inputs accepted) is not claimed here (C20).")

THR = [0.0, 0.1, 0.3, 0.5, 0.9]
SCALES = [2.0, 0.5, 3.0]
SCALES_WIDE = [1e-6, 1e-3, 1.0 / 3.0, 1e6]       # 2x2 family only: absolute intensity floors / ceilings
CORR_SCALES = [3.0, 1e-6]
MIN_THR = [0.5, 2.0, 7.0]
FLOORS = [(0.5, 0.5), (2.0, 0.5), (0.0, 2.0)]    # (floor under the image, floor under the reference)
EPS32 = float(numpy.finfo(numpy.float32).eps)
TOL = 1e-12
TOL_FFT = 1e-9
CHUNK = 256


def _families(tier):
    fam = [((2, 2), (0, 1, 2, 3)), ((2, 3), (0, 1, 3)), ((3, 3), (0, 1))]
    if tier != "quick":
        fam += [((3, 2), (0, 1, 3)), ((3, 3), (0, 1, 3)), ((3, 4), (0, 1))]
    return fam


def _corr_shapes(tier):
    r = range(3, 7) if tier == "quick" else range(3, 9)
    return [(a, b) for a in r for b in r]


def _pads(tier):
    return [1, 2, 3] if tier == "quick" else [1, 2, 3, 4]


def _corr_thin():
    return [(1, 5), (1, 6), (5, 1), (6, 1)]


def _thin_shapes():
    return [(1, k) for k in range(1, 8)] + [(k, 1) for k in range(2, 8)]


def BOUNDS(tier):
    return {"single_pixel_shapes": "2..7 x 2..7, 1 x 1..7, 2..7 x 1", "single_pixel_values": [1.0, 3.0, 0.7, 1e-7, 1e7],
            "scales_2x2_family": SCALES + SCALES_WIDE, "corr_image_scales": CORR_SCALES,
            "min_threshold": MIN_THR, "corr_floors_image_reference": [list(f) for f in FLOORS],
            "corr_thin_frames": _corr_thin(), "corr_subpixel_mix": [0.25, 0.5, 0.7],
            "largest_frame": "257 x 65 (single pixels, dense spot shifted by (9, 17)); stacks of 257 frames",
            "image_families": [[list(s), list(a)] for s, a in _families(tier)],
            "thresholds": THR, "scales": SCALES, "shift_frame": "(h+2, w+2), all 9 offsets",
            "stack_alphabet": 12, "stack_depths": [1, 2, 3],
            "stack_alphabet_2x2": "all 80 non-zero images over {0,1,3}, depth <= 2 (thorough)",
            "corr_frames": _corr_shapes(tier), "paddings": _pads(tier), "corr_thresholds": [0.0, 0.3, 0.9],
            "corr_patterns": "all patterns over {0,1,3} with bounding box 1x1, 1x2, 2x1, 2x2",
            "quadcell_alphabet": [0, 1, 2, 3, 5]}


def cases(tier):
    for ny in range(2, 8):
        for nx in range(2, 8):
            yield Case("loc:%dx%d" % (ny, nx), {"kind": "loc", "shape": (ny, nx)}, True)
    # line sensors / single rows and columns (an implementation that squeezes singleton axes breaks exactly these)
    for (ny, nx) in _thin_shapes():
        yield Case("loc:%dx%d" % (ny, nx), {"kind": "loc", "shape": (ny, nx)}, True)
    for shape, alpha in _families(tier):
        total = len(alpha) ** (shape[0] * shape[1])
        for lo in range(0, total, CHUNK):
            yield Case("img:%dx%d:a=%s:codes=%d-%d" % (shape[0], shape[1], "".join(map(str, alpha)), lo,
                                                        min(total, lo + CHUNK) - 1),
                       {"kind": "img", "shape": shape, "alpha": alpha, "lo": lo, "hi": min(total, lo + CHUNK)})
    for depth in (1, 2, 3):
        for t in THR:
            yield Case("stack:cog:thr=%g:depth=%d" % (t, depth),
                       {"kind": "stack", "fn": "cog", "par": t, "depth": depth, "alpha": "A12"}, t != 0)
        for npx in (2, 4, 9):
            yield Case("stack:bp:npx=%d:depth=%d" % (npx, depth),
                       {"kind": "stack", "fn": "bp", "par": npx, "depth": depth, "alpha": "A12"})
        # fractions given as such, including exact ties of fraction * n_pixels (2.5, 4.5, 6.5 pixels of 9): whatever
        # the rounding rule, the stack and the single frame must use the same one
        for fr in ("0.5", "2.5/9", "6.5/9", "0.3", "0.7", "3.5/9"):
            yield Case("stack:bp:frac=%s:depth=%d" % (fr, depth),
                       {"kind": "stack", "fn": "bp", "par": 0, "frac": fr, "depth": depth, "alpha": "A12"})
    # min_threshold: an absolute floor of the threshold (below / between / above threshold * max of the frames)
    for depth in (1, 2):
        for t in (0.1, 0.3):
            for m in MIN_THR:
                yield Case("stack:cog:thr=%g:minthr=%g:depth=%d" % (t, m, depth),
                           {"kind": "stack", "fn": "cog", "par": t, "minthr": m, "depth": depth, "alpha": "A12"}, True)
    yield Case("minthr:shift", {"kind": "minthr"}, True)
    # non-square frames (2 x 5 and 4 x 3), single rows and columns (1 x 5, 4 x 1)
    for alpha in ("R25", "R43", "R15", "R41"):
        for depth in (1, 2):
            for t in (0, 0.3):
                yield Case("stack:cog:thr=%g:depth=%d:frames=%s" % (t, depth, alpha),
                           {"kind": "stack", "fn": "cog", "par": t, "depth": depth, "alpha": alpha}, True)
            yield Case("stack:bp:frac=0.4:depth=%d:frames=%s" % (depth, alpha),
                       {"kind": "stack", "fn": "bp", "par": 0, "frac": "0.4", "depth": depth, "alpha": alpha})
    # the same stacks stored in other dtypes (camera counts are integers): stack == frames must not depend on it
    for dt in ("int64", "uint8", "int32", "float32"):
        for depth in ((1, 2) if tier == "quick" else (1, 2, 3)):
            for t in THR:
                yield Case("stack:cog:thr=%g:depth=%d:dtype=%s" % (t, depth, dt),
                           {"kind": "stack", "fn": "cog", "par": t, "depth": depth, "alpha": "A12", "dtype": dt}, t != 0)
            for npx in (2, 4):
                yield Case("stack:bp:npx=%d:depth=%d:dtype=%s" % (npx, depth, dt),
                           {"kind": "stack", "fn": "bp", "par": npx, "depth": depth, "alpha": "A12", "dtype": dt})
    if tier != "quick":
        for depth in (1, 2):
            for t in THR:
                yield Case("stack2x2:cog:thr=%g:depth=%d" % (t, depth),
                           {"kind": "stack", "fn": "cog", "par": t, "depth": depth, "alpha": "B80"}, t != 0)
            for npx in (2, 4):
                yield Case("stack2x2:bp:npx=%d:depth=%d" % (npx, depth),
                           {"kind": "stack", "fn": "bp", "par": npx, "depth": depth, "alpha": "B80"})
    for pad in (1, 2):
        for t in (0.0, 0.5):
            yield Case("stack:corr:pad=%d:thr=%g" % (pad, t), {"kind": "corrstack", "pad": pad, "thr": t})
    # frame sizes with large prime factors (13, 17, 19, 23, 29, 31, 41, 43; 26 = 2 x 13, 34 = 2 x 17): FFT lengths that
    # an implementation may pad or treat specially
    for (ny, nx) in ((13, 13), (17, 13), (19, 19), (23, 29), (26, 34), (31, 31), (41, 43)):
        for pad in (1, 2, 3):
            yield Case("corrsize:ny=%d:nx=%d:pad=%d" % (ny, nx, pad), {"kind": "corrsize", "ny": ny, "nx": nx, "pad": pad})
    for (ny, nx) in _corr_shapes(tier) + _corr_thin():
        for pad in _pads(tier):
            yield Case("corr:ny=%d:nx=%d:pad=%d" % (ny, nx, pad), {"kind": "corr", "ny": ny, "nx": nx, "pad": pad})
    yield Case("quadcell", {"kind": "quad"})
    yield Case("storage", {"kind": "storage"})
    yield Case("large", {"kind": "large"})


def evaluate(p):
    if p["kind"] == "storage":
        return _storage(p)
    if p["kind"] == "large":
        return _large(p)
    with warnings.catch_warnings():
        warnings.simplefilter("ignore")
        k = p["kind"]
        if k == "loc":
            return _loc(p["shape"])
        if k == "img":
            return _img(p)
        if k == "stack":
            return _stack(p)
        if k == "corrstack":
            return _corrstack(p)
        if k == "corr":
            return _corr(p)
        if k == "corrsize":
            return _corrsize(p)
        if k == "minthr":
            return _minthr(p)
        return _quad()


def _lib():
    from aotools.image_processing import centroiders
    return centroiders


def _xy(a):
    """library answer (2,) or (2, n) -> float array"""
    return numpy.asarray(a, dtype=float)


def _err(a, b):
    a, b = numpy.asarray(a, dtype=float), numpy.asarray(b, dtype=float)
    if a.shape != b.shape:
        return float("inf")
    d = numpy.abs(a - b)
    if d.size == 0:
        return 0.0
    m = float(numpy.max(d))
    return float("inf") if m != m else m


def _frac_for(npx, n):
    """a fraction f <= 1 that selects npx of n pixels whether f * n is rounded to nearest or truncated
    (npx / n itself can fall just below npx: (2 / 49.) * 49 = 1.9999999999999998)"""
    if npx >= n:
        return 1.0
    f = (npx + 0.25) / float(n)
    assert int(round(f * n)) == npx and int(f * n) == npx
    return f


def _undefined(a):
    return not numpy.any(numpy.isfinite(a))


class _Filtered(object):
    """Out proxy for the helpers of mc/variants: sub-clauses that demand more than C15 states (the call leaves its
    argument unchanged, a read-only array is accepted) are counted as `<..>_not_claimed`, never as violations"""

    def __init__(self, out):
        self._o = out

    def check(self, clause, ok, sub=None, measure=None, tol=None, detail=None, n=1):
        if clause.endswith("_argument_unchanged"):
            if not ok:
                self._o.stat("argument_unchanged_not_claimed", 1)
            return True
        if not ok and str(sub).endswith(":read_only") and isinstance(detail, str) and not detail.startswith("result shape"):
            self._o.stat("read_only_input_not_claimed", 1)       # the call raised on a read-only array
            return True
        return self._o.check(clause, ok, sub=sub, measure=measure, tol=tol, detail=detail, n=n)

    def close(self, clause, measure, tol, sub=None, detail=None):
        return self._o.close(clause, measure, tol, sub=sub, detail=detail)

    def stat(self, key, n=1):
        return self._o.stat(key, n)

    def note(self, key, value):
        return self._o.note(key, value)


class _Worst(object):
    """collects the worst residual per (clause, sub) and the first offending input"""

    def __init__(self, out):
        self.o = out
        self.d = {}

    def add(self, clause, sub, err, tol, detail=None):
        k = (clause, sub)
        w = self.d.get(k)
        if w is None:
            self.d[k] = [err, tol, detail if err > tol or err != err else None, 1]
        else:
            w[3] += 1
            if err > w[0] or err != err:
                w[0] = err
            if w[2] is None and (err > tol or err != err):
                w[2] = detail

    def flush(self):
        for (clause, sub), (err, tol, detail, n) in sorted(self.d.items(), key=lambda kv: (kv[0][0], str(kv[0][1]))):
            ok = err <= tol
            self.o.check(clause, ok, sub=None if ok else sub, measure=err, tol=tol,
                         detail=None if ok else detail, n=n)


# ----------------------------------------------------------------------------- single bright pixel

def _same_paths(o, C, shape):
    """the centroiders reached through the package-level names return the same values as those of the centroiders
    module (a wrapper / lazy re-export is as good as the same object)"""
    import aotools
    ny, nx = shape
    i, j = numpy.indices(shape)
    probes = [((3 * i + 5 * j + i * j) % 7 + 1.0), ((i + 2 * j) % 3 == 0) * 2.0 + (i == ny - 1) * (j == nx - 1) * 5.0]
    probes.append(numpy.array(probes))
    ways = []
    try:
        ways.append(("aotools.centre_of_gravity", aotools.centre_of_gravity, C.centre_of_gravity, (0.3,)))
        ways.append(("aotools.image_processing.centre_of_gravity", aotools.image_processing.centre_of_gravity,
                     C.centre_of_gravity, (0.3,)))
        if ny * nx >= 2:
            ways.append(("aotools.image_processing.brightest_pixel", aotools.image_processing.brightest_pixel,
                         C.brightest_pixel, (_frac_for(2, ny * nx),)))
    except AttributeError:
        o.stat("same_function_all_paths_not_claimed", 1)       # which names the package re-exports is not C15's business
    worst = 0.0
    for name, f, g, args in ways:
        for pr in probes:
            a, b = _xy(f(pr.copy(), *args)), _xy(g(pr.copy(), *args))
            o.stat("lib_calls", 2)
            both = numpy.isnan(a) & numpy.isnan(b) if a.shape == b.shape else False
            e = _err(numpy.where(both, 0.0, a), numpy.where(both, 0.0, b)) if a.shape == b.shape else float("inf")
            worst = max(worst, e)
    o.check("same_function_all_paths", worst <= TOL, measure=worst, tol=TOL)


def _loc(shape):
    C = _lib()
    o = Out()
    _same_paths(o, C, shape)
    w = _Worst(o)
    ny, nx = shape
    n = ny * nx
    npxs = sorted(set([2, max(2, n // 2), n])) if n >= 2 else []      # one pixel: no fraction selects two
    # 1e-7 and 1e7: an absolute intensity floor or ceiling in the implementation shows on faint / bright pixels only
    for v in (1.0, 3.0, 0.7, 1e-7, 1e7):
        frames, want = [], []
        for y in range(ny):
            for x in range(nx):
                img = numpy.zeros(shape)
                img[y, x] = v
                frames.append(img)
                want.append((x, y))
                for t in THR:
                    got = _xy(C.centre_of_gravity(img.copy(), threshold=t))
                    w.add("single_pixel_location", "cog2d:thr=%g" % t, _err(got, (x, y)), TOL,
                          {"shape": shape, "pixel_xy": (x, y), "value": v, "got": got})
                for npx in npxs:
                    got = _xy(C.brightest_pixel(img.copy(), _frac_for(npx, n)))
                    w.add("single_pixel_location", "bp2d:npx=%d" % npx, _err(got, (x, y)), TOL,
                          {"shape": shape, "pixel_xy": (x, y), "value": v, "got": got})
                o.stat("lib_calls", len(THR) + len(npxs))
        st = numpy.array(frames)
        want = numpy.array(want, dtype=float).T
        for t in THR:
            got = _xy(C.centre_of_gravity(st.copy(), threshold=t))
            w.add("single_pixel_location", "cogNd:thr=%g" % t, _err(got, want), TOL,
                  {"shape": shape, "value": v, "got": got})
        for npx in npxs:
            got = _xy(C.brightest_pixel(st.copy(), _frac_for(npx, n)))
            w.add("single_pixel_location", "bpNd:npx=%d" % npx, _err(got, want), TOL,
                  {"shape": shape, "value": v, "got": got})
        o.stat("lib_calls", len(THR) + len(npxs))
    w.flush()
    return o


# ----------------------------------------------------------------------------- all small images

def _img(p):
    C = _lib()
    o = Out()
    w = _Worst(o)
    shape, alpha = tuple(p["shape"]), p["alpha"]
    h, wd = shape
    n = h * wd
    fshape = (h + 2, wd + 2)
    fn = fshape[0] * fshape[1]
    offs = [(dy, dx) for dy in range(3) for dx in range(3)]
    offxy = numpy.array([(dx, dy) for dy, dx in offs], dtype=float).T
    nontrivial = 0
    scales = SCALES + (SCALES_WIDE if shape == (2, 2) else [])
    ns = len(scales)
    for code, img in cog.all_images(shape, alpha, p["lo"], p["hi"]):
        if not img.any():
            continue
        if len(set(img[img > 0].tolist())) >= 2:
            nontrivial += 1
        ref = cog.cog_float(img)
        scaled = [img * s for s in scales]
        frames = [cog.embed(img, fshape, dy, dx) for dy, dx in offs]
        sstack = numpy.array([img] + scaled)
        fstack = numpy.array(frames)
        for t in THR:
            tag = "thr=%g" % t
            det = {"image": img, "threshold": t}
            base = _xy(C.centre_of_gravity(img.copy(), threshold=t))
            if t == 0:
                w.add("cog_matches_exact", "cog2d", _err(base, ref), TOL, det)
            for s, si in zip(scales, scaled):
                got = _xy(C.centre_of_gravity(si.copy(), threshold=t))
                w.add("scale_invariance", "cog2d:" + tag, _err(got, base), TOL, dict(det, scale=s, got=got, base=base))
            f0 = None
            for (dy, dx), fr in zip(offs, frames):
                got = _xy(C.centre_of_gravity(fr.copy(), threshold=t))
                if f0 is None:
                    f0 = got
                    if t == 0:
                        w.add("cog_matches_exact", "cog2d", _err(got, ref), TOL, det)
                w.add("shift_equivariance", "cog2d:" + tag, _err(got - f0, (dx, dy)), TOL,
                      dict(det, shift_xy=(dx, dy), got=got, unshifted=f0))
            # N-D path: the same relations inside one stacked call
            gs = _xy(C.centre_of_gravity(sstack.copy(), threshold=t))
            gf = _xy(C.centre_of_gravity(fstack.copy(), threshold=t))
            if gs.shape != (2, 1 + ns) or gf.shape != (2, 9):
                w.add("stack_output_shape", "cogNd", float("inf"), 0, {"shape": gs.shape})
                continue
            if t == 0:
                w.add("cog_matches_exact", "cogNd", _err(gs[:, 0], ref), TOL, det)
            w.add("scale_invariance", "cogNd:" + tag, _err(gs[:, 1:], gs[:, :1] * numpy.ones((1, ns))), TOL,
                  dict(det, got=gs))
            w.add("shift_equivariance", "cogNd:" + tag, _err(gf - gf[:, :1], offxy), TOL, dict(det, got=gf))
            o.stat("lib_calls", 1 + ns + 9 + 2)
        # brightest pixel: rank thresholds selecting >= 2 pixels (same frame size => same rank)
        for npx in sorted(set([2, n])):
            f = _frac_for(npx, n)
            det = {"image": img, "npx": npx}
            base = _xy(C.brightest_pixel(img.copy(), f))
            if numpy.all(numpy.isfinite(base)):      # ties at the rank value leave no flux: undefined
                for s, si in zip(scales, scaled):
                    got = _xy(C.brightest_pixel(si.copy(), f))
                    w.add("scale_invariance", "bp2d:npx=%d" % npx, _err(got, base), TOL, dict(det, scale=s, got=got))
                gs = _xy(C.brightest_pixel(sstack.copy(), f))
                w.add("scale_invariance", "bpNd:npx=%d" % npx, _err(gs[:, 1:], gs[:, :1] * numpy.ones((1, ns))), TOL,
                      dict(det, got=gs))
                o.stat("lib_calls", 2 + ns)
            else:
                # Which images are left without flux depends on the tie / rank convention, which the statement does
                # not fix: the only demand is that "undefined" is itself unchanged by a positive factor (equal pixel
                # values stay equal after scaling, so an image without flux left has none at any scale) ...
                for s, si in zip(scales, scaled):
                    got = _xy(C.brightest_pixel(si.copy(), f))
                    w.add("scale_invariance", "bp2d:npx=%d:undefined" % npx, 0.0 if _undefined(got) else float("inf"),
                          0.0, dict(det, scale=s, got=got, unscaled=base))
                gs = _xy(C.brightest_pixel(sstack.copy(), f))
                w.add("scale_invariance", "bpNd:npx=%d:undefined" % npx, 0.0 if _undefined(gs[:, 1:]) else float("inf"),
                      0.0, dict(det, got=gs))
                o.stat("lib_calls", 1 + ns)
                # ... the rank model of mc/refmodels/cog.py (subtract the npx-th brightest value) only classifies
                if cog.cog_exact(cog.rank_subtract(img, npx)) is not None:
                    o.stat("bp_undefined_unlike_rank_subtract_model", 1)
        for npx in (2, 3):
            f = _frac_for(npx, fn)
            det = {"image": img, "npx": npx, "frame": fshape}
            f0 = _xy(C.brightest_pixel(frames[0].copy(), f))
            if not numpy.all(numpy.isfinite(f0)):
                continue
            for (dy, dx), fr in zip(offs, frames):
                got = _xy(C.brightest_pixel(fr.copy(), f))
                w.add("shift_equivariance", "bp2d:npx=%d" % npx, _err(got - f0, (dx, dy)), TOL,
                      dict(det, shift_xy=(dx, dy), got=got, unshifted=f0))
            gf = _xy(C.brightest_pixel(fstack.copy(), f))
            w.add("shift_equivariance", "bpNd:npx=%d" % npx, _err(gf - gf[:, :1], offxy), TOL, dict(det, got=gf))
            o.stat("lib_calls", 11)
    w.flush()
    o.stat("nontrivial", nontrivial)
    return o


# ----------------------------------------------------------------------------- stack == frames

def _a12():
    rows = [
        [[1, 0, 0], [0, 0, 0], [0, 0, 0]],
        [[0, 0, 0], [0, 0, 3], [0, 0, 0]],
        [[0, 1, 3], [1, 0, 0], [0, 3, 1]],
        [[1, 1, 1], [1, 1, 1], [1, 1, 1]],
        [[5, 0, 0], [0, 0, 0], [0, 0, 5]],
        [[0, 2, 0], [3, 5, 1], [0, 1, 0]],
        [[1, 2, 3], [2, 3, 5], [3, 5, 8]],
        [[0, 0, 0], [0, 0, 0], [20, 19, 0]],
        [[3, 0, 1], [0, 0, 0], [1, 0, 2]],
        [[0, 0, 5], [0, 1, 0], [1, 0, 0]],
        [[2, 2, 0], [2, 1, 0], [0, 0, 0]],
        [[0.5, 0, 0.25], [0, 4, 0], [0.75, 0, 0]],
    ]
    return [numpy.array(r, dtype=float) for r in rows]


def _rect(shape):
    """non-square frames cut from / padded around the A12 images (a wrong axis length in a flattened-index
    computation is invisible on square frames)"""
    out = []
    for a in _a12():
        big = numpy.zeros((4, 5))
        big[:3, :3] = a
        big[3, 4] = a[0, 0] + 0.5
        out.append(big[:shape[0], :shape[1]].copy())
    return out


def _thin(shape):
    """single rows (1 x 5) / single columns (4 x 1): the anti-diagonal of the A12 images laid out along the long
    axis, followed by a fainter pixel"""
    out = []
    for a in _a12():
        line = numpy.zeros(max(shape))
        line[:3] = [a[2, 0], a[1, 1], a[0, 2]]
        line[-1] = a[0, 0] + 0.5
        out.append(line.reshape(shape).copy())
    return out


_ALPHABETS = {"A12": _a12, "R25": lambda: _rect((2, 5)), "R43": lambda: _rect((4, 3)), "R15": lambda: _thin((1, 5)),
              "R41": lambda: _thin((4, 1)), "B80": lambda: _b80()}


def _b80():
    return [img for _, img in cog.all_images((2, 2), (0, 1, 3)) if img.any()]


def _classify(frame_img, t, stack_xy, frame_xy):
    """which threshold reading reproduces the two disagreeing answers (diagnosis only)"""
    thres = t * float(frame_img.max())
    sub = cog.cog_float(cog.threshold_subtract(frame_img, thres))
    zer = cog.cog_float(cog.threshold_zero(frame_img, thres))

    def near(a, b):
        return b is not None and _err(a, b) <= 1e-9
    if near(stack_xy, zer) and near(frame_xy, sub):
        return "nd=zeroed_only,2d=threshold_subtracted"
    if near(stack_xy, sub) and near(frame_xy, zer):
        return "nd=threshold_subtracted,2d=zeroed_only"
    return "other"


def _stack(p):
    C = _lib()
    o = Out()
    fn, par, depth = p["fn"], p["par"], p["depth"]
    alpha = _ALPHABETS[p["alpha"]]()
    if p.get("dtype"):
        alpha = [numpy.round(a * 4).astype(p["dtype"]) for a in alpha]
    npix = alpha[0].size
    minthr = p.get("minthr")
    # single-precision data: sums may legitimately be accumulated in single precision (8 eps32 x coordinate range)
    tol_here = 8 * EPS32 * max(alpha[0].shape) if p.get("dtype") == "float32" else TOL

    def call(a):
        if fn == "cog" and minthr is not None:
            return _xy(C.centre_of_gravity(a.copy(), threshold=par, min_threshold=minthr))
        if fn == "cog":
            return _xy(C.centre_of_gravity(a.copy(), threshold=par))
        if p.get("frac"):
            num, _, den = p["frac"].partition("/")
            return _xy(C.brightest_pixel(a.copy(), float(num) / float(den) if den else float(num)))
        return _xy(C.brightest_pixel(a.copy(), _frac_for(par, npix)))

    single = [call(im) for im in alpha]
    o.stat("lib_calls", len(alpha))
    classes = {}
    worst = 0.0
    worst_raw = 0.0
    nchk = 0
    for idx in itertools.product(range(len(alpha)), repeat=depth):
        st = numpy.array([alpha[i] for i in idx])
        got = call(st)
        o.stat("lib_calls", 1)
        if got.shape != (2, depth):
            classes.setdefault("shape", {"stack": idx, "shape": got.shape})
            continue
        for k, i in enumerate(idx):
            nchk += 1
            a, b = got[:, k], single[i]
            if not (numpy.all(numpy.isfinite(a)) or numpy.all(numpy.isfinite(b))):
                continue             # no flux left in this frame for both paths: undefined
            e = _err(a, b)
            worst_raw = max(worst_raw, e)
            if e <= tol_here:
                e = min(e, TOL)          # (the clause line carries TOL; the float32 residual is shown separately below)
            worst = max(worst, e)
            if not e <= tol_here:
                cl = _classify(alpha[i], par, a, b) if fn == "cog" and par != 0 and minthr is None else "other"
                classes.setdefault(cl, {"stack_of_images": [alpha[j] for j in idx], "frame": k,
                                        "stack_answer_xy": a, "frame_alone_xy": b})
        o.outcome(got.round(9))
    if not classes:
        o.check("stack_equals_frames", True, measure=worst, tol=TOL, n=nchk)
    for cl, det in sorted(classes.items()):
        o.check("stack_equals_frames", False, sub=cl, measure=worst, tol=TOL, detail=det, n=nchk)
    if tol_here != TOL:
        # display only (always passes; a residual above the tolerance is reported under stack_equals_frames)
        o.check("stack_equals_frames_float32_residual", True, measure=min(worst_raw, tol_here), tol=tol_here, n=0)
    return o


def _minthr(p):
    """centre of gravity with a threshold AND an absolute threshold floor (min_threshold): content shifted by k moves
    the centroid by k, through the 2-D and the N-D path (min_threshold is absolute: no scale clause)"""
    C = _lib()
    o = Out()
    w = _Worst(o)
    offs = [(dy, dx) for dy in range(3) for dx in range(3)]
    offxy = numpy.array([(dx, dy) for dy, dx in offs], dtype=float).T
    for img in _a12() + _rect((2, 5)):
        fshape = (img.shape[0] + 2, img.shape[1] + 2)
        frames = [cog.embed(img, fshape, dy, dx) for dy, dx in offs]
        fstack = numpy.array(frames)
        for t in (0.1, 0.3):
            for m in MIN_THR:
                tag = "thr=%g:minthr=%g" % (t, m)
                det = {"image": img, "threshold": t, "min_threshold": m}
                got = [_xy(C.centre_of_gravity(fr.copy(), threshold=t, min_threshold=m)).reshape(-1) for fr in frames]
                gf = _xy(C.centre_of_gravity(fstack.copy(), threshold=t, min_threshold=m))
                o.stat("lib_calls", 10)
                if gf.shape != (2, 9):
                    w.add("stack_output_shape", "cogNd", float("inf"), 0, {"shape": gf.shape})
                    continue
                if _undefined(got[0]) and _undefined(gf):
                    continue            # nothing above the floor: undefined for both paths
                w.add("shift_equivariance", "cog2d:" + tag, _err(numpy.array(got).T - got[0][:, None], offxy), TOL,
                      dict(det, got=numpy.array(got).T))
                w.add("shift_equivariance", "cogNd:" + tag, _err(gf - gf[:, :1], offxy), TOL, dict(det, got=gf))
                w.add("stack_equals_frames", tag, _err(gf, numpy.array(got).T), TOL, dict(det, stack=gf, frames=numpy.array(got).T))
    w.flush()
    return o


def _patterns():
    out = []
    for shape in ((1, 1), (1, 2), (2, 1), (2, 2)):
        for _, pm in cog.all_images(shape, (0, 1, 3)):
            if pm[0].any() and pm[-1].any() and pm[:, 0].any() and pm[:, -1].any():
                out.append(pm)
    return out


def _corrstack(p):
    """correlation centroid: a stack of displaced images == each image alone"""
    C = _lib()
    o = Out()
    pad, t = p["pad"], p["thr"]
    worst, n = 0.0, 0
    for (ny, nx) in ((5, 5), (4, 6), (6, 5)):
        for pm in _patterns()[::3]:
            h, wd = pm.shape
            y0, x0 = (ny - h) // 2, (nx - wd) // 2
            ref = cog.embed(pm, (ny, nx), y0, x0)
            ims = [cog.embed(pm, (ny, nx), y0 + sy, x0 + sx) for sy in (-1, 0, 1) for sx in (-1, 0, 1)]
            st = numpy.array(ims)
            got = _xy(C.correlation_centroid(st.copy(), ref.copy(), threshold=t, padding=pad))
            o.stat("lib_calls", 1 + len(ims))
            if got.shape != (2, len(ims)):
                o.check("stack_equals_frames", False, sub="shape", detail={"shape": got.shape})
                return o
            for k, im in enumerate(ims):
                one = _xy(C.correlation_centroid(im.copy(), ref.copy(), threshold=t, padding=pad))
                worst = max(worst, _err(got[:, k], one.reshape(-1)))
                n += 1
            # the same frames on different floors (a drifting sky / bias level: every frame has its own minimum)
            st2 = st + (numpy.arange(len(ims)) % 4)[:, None, None] * 0.75 + 0.5
            got2 = _xy(C.correlation_centroid(st2.copy(), ref.copy(), threshold=t, padding=pad))
            o.stat("lib_calls", 1 + len(ims))
            for k in range(len(ims)):
                one = _xy(C.correlation_centroid(st2[k].copy(), ref.copy(), threshold=t, padding=pad))
                worst = max(worst, _err(got2[:, k], one.reshape(-1)) if got2.shape == (2, len(ims)) else float("inf"))
                n += 1
    o.close("stack_equals_frames", worst, TOL_FFT)
    o.clauses["stack_equals_frames"][0] = n
    # the merged evidence line of stack_equals_frames shows one tolerance for all cases: the one applied HERE
    o.note("corr_stack_equals_frames_worst_and_tol", [worst, TOL_FFT])
    return o


# ----------------------------------------------------------------------------- correlation centroid

def _centre_reading(val, n):
    """which admissible reading of 'array centre' an even axis of n pixels shows (None: odd n, or neither)"""
    if n % 2:
        return None
    hit = [nm for nm, c in (("n/2", n / 2.0), ("(n-1)/2", (n - 1) / 2.0)) if abs(val - c) <= TOL_FFT]
    return hit[0] if len(hit) == 1 else None


def _note_readings(o, readings):
    o.note("even_centre_readings", dict((str(n), sorted(v)) for n, v in sorted(readings.items()) if v))


def finalize(tier, results):
    """'the array centre ... for any padding' is ONE centre: for an even axis length n, the reading (n/2 or
    (n-1)/2) is the same at every padding, threshold, pattern and on both axes"""
    o = Out()
    seen = {}
    for cid in sorted(results):
        notes = getattr(results[cid], "notes", None) or {}
        for n, names in sorted((notes.get("even_centre_readings") or {}).items()):
            for nm in names:
                seen.setdefault(int(n), {}).setdefault(nm, cid)
    for n in sorted(seen):
        o.check("corr_array_centre_one_reading", len(seen[n]) <= 1, sub="n=%d" % n,
                detail=None if len(seen[n]) <= 1 else {"reading -> first case showing it": seen[n]})
    o.note("even_centre_reading_per_n", dict((str(n), sorted(v)) for n, v in seen.items()))
    return o


def _corrsize(p):
    """array centre and displacement clauses on frames whose sizes have large prime factors"""
    C = _lib()
    o = Out()
    ny, nx, pad = p["ny"], p["nx"], p["pad"]
    cy, cx = cog.array_centres(ny), cog.array_centres(nx)
    spot = numpy.array([[1., 2., 1.], [2., 6., 3.], [1., 3., 2.]])
    y0, x0 = (ny - 3) // 2, (nx - 3) // 2
    ref = cog.embed(spot, (ny, nx), y0, x0)
    readings = {}
    for t in (0.0, 0.3):
        c0 = _xy(C.correlation_centroid(ref.copy(), ref.copy(), threshold=t, padding=pad)).reshape(-1)
        o.close("corr_array_centre", min(abs(c0[0] - float(c)) for c in cx), TOL_FFT, sub="axis=x:thr=%g" % t, detail={"got": c0[0]})
        o.close("corr_array_centre", min(abs(c0[1] - float(c)) for c in cy), TOL_FFT, sub="axis=y:thr=%g" % t, detail={"got": c0[1]})
        for val, n in ((c0[0], nx), (c0[1], ny)):
            readings.setdefault(n, set()).add(_centre_reading(val, n))
            readings[n].discard(None)
        for sy, sx in ((0, 1), (1, 0), (-2, 3), (3, -1), (-4, -4), (y0 - ny + 3 + 1 if False else 2, 2)):
            im = cog.embed(spot, (ny, nx), y0 + sy, x0 + sx)
            c = _xy(C.correlation_centroid(im.copy(), ref.copy(), threshold=t, padding=pad)).reshape(-1)
            o.close("corr_displacement", _err(c - c0, (sx, sy)), TOL_FFT, sub="thr=%g:shift=(%d,%d)" % (t, sx, sy))
        o.stat("lib_calls", 7)
    _note_readings(o, readings)
    return o


def _corr(p):
    C = _lib()
    o = Out()
    w = _Worst(o)
    ny, nx, pad = p["ny"], p["nx"], p["pad"]
    cy, cx = cog.array_centres(ny), cog.array_centres(nx)
    My, Mx = ny * pad, nx * pad
    ndisp = 0
    readings = {}

    def cc(im, ref, t):
        o.stat("lib_calls", 1)
        return _xy(C.correlation_centroid(im.copy(), ref.copy(), threshold=t, padding=pad)).reshape(-1)

    for pm in _patterns():
        h, wd = pm.shape
        if h > ny or wd > nx:
            continue                      # single-row / single-column frames: the pattern does not fit
        y0, x0 = (ny - h) // 2, (nx - wd) // 2
        ref = cog.embed(pm, (ny, nx), y0, x0)
        disp = [(sy, sx) for sy in range(-y0, ny - h - y0 + 1) for sx in range(-x0, nx - wd - x0 + 1)
                if abs(sy) + (h - 1) <= (My - 1) // 2 and abs(sx) + (wd - 1) <= (Mx - 1) // 2]
        if (0, 0) not in disp:
            continue
        has_floor_pixel = bool(ref.min() == 0)      # a uniform floor is then the minimum of the frame
        for t in (0.0, 0.3, 0.9):
            det = {"pattern": pm, "frame": (ny, nx), "padding": pad, "threshold": t}
            c0 = cc(ref, ref, t)
            ex = min(abs(c0[0] - float(c)) for c in cx)
            ey = min(abs(c0[1] - float(c)) for c in cy)
            w.add("corr_array_centre", "axis=x", ex, TOL_FFT,
                  dict(det, got_x=c0[0], array_centre_x=[float(c) for c in cx]))
            w.add("corr_array_centre", "axis=y", ey, TOL_FFT,
                  dict(det, got_y=c0[1], array_centre_y=[float(c) for c in cy]))
            for val, n in ((c0[0], nx), (c0[1], ny)):
                r = _centre_reading(val, n)
                if r is not None:
                    readings.setdefault(n, set()).add(r)
            # the same content on uniform floors under the image and / or the reference (sky, bias level): the
            # displacement is still counted from the same array centre
            floors = FLOORS if (has_floor_pixel and t != 0.9) else []
            c0f = {}
            for bi, br in floors:
                c0f[(bi, br)] = cc(ref + bi, ref + br, t)
                w.add("corr_array_centre", "floors=(%g,%g)" % (bi, br), _err(c0f[(bi, br)], c0), TOL_FFT,
                      dict(det, floor_image=bi, floor_reference=br, got=c0f[(bi, br)], without_floor=c0))
            for k, (sy, sx) in enumerate(disp):
                im = cog.embed(pm, (ny, nx), y0 + sy, x0 + sx)
                c = cc(im, ref, t)
                ndisp += 1
                w.add("corr_displacement", None, _err(c - c0, (sx, sy)), TOL_FFT,
                      dict(det, displacement_xy=(sx, sy), got=c, zero_displacement=c0))
                if floors:
                    bi, br = floors[k % len(floors)]
                    cf = cc(im + bi, ref + br, t)
                    w.add("corr_displacement", "floors=(%g,%g)" % (bi, br), _err(cf - c0f[(bi, br)], (sx, sy)), TOL_FFT,
                          dict(det, displacement_xy=(sx, sy), floor_image=bi, floor_reference=br, got=cf,
                               zero_displacement=c0f[(bi, br)]))
                if t == 0.3:
                    for sc in CORR_SCALES:
                        c3 = cc(im * sc, ref, t)
                        w.add("scale_invariance", "corr", _err(c3, c), TOL_FFT, dict(det, scale=sc, got=c3, unscaled=c))
                if t == 0.0:
                    # a displacement between two lattice points, realised by linear interpolation along one axis:
                    # the correlation is linear in the image, its centre of gravity (threshold 0) is the flux-weighted
                    # mean of the two displacements (a peak finder, or a rounded centroid, stays on the lattice)
                    step = ((0, 1), (1, 0))[k % 2]
                    a = (0.25, 0.5, 0.7)[k % 3]
                    s1 = (sy + step[0], sx + step[1])
                    if s1 in disp:
                        im1 = cog.embed(pm, (ny, nx), y0 + s1[0], x0 + s1[1])
                        cm = cc((1 - a) * im + a * im1, ref, t)
                        want = (sx + a * step[1], sy + a * step[0])
                        w.add("corr_displacement_subpixel", None, _err(cm - c0, want), TOL_FFT,
                              dict(det, mix=a, displacements_yx=[(sy, sx), s1], got=cm, zero_displacement=c0))
    w.flush()
    o.note("corr_displacements", ndisp)
    _note_readings(o, readings)
    return o


# ----------------------------------------------------------------------------- quad cell

def _quad():
    C = _lib()
    o = Out()
    w = _Worst(o)
    alpha = (0, 1, 2, 3, 5)
    # a cell without light has no signal to speak of (a flux-normalised quad cell gives 0/0 there): left out
    imgs = [im for _, im in cog.all_images((2, 2), alpha) if im.any()]
    for im in imgs:
        q = _xy(C.quadCell(im.copy()))
        qx = _xy(C.quadCell(im[:, ::-1].copy()))
        qy = _xy(C.quadCell(im[::-1, :].copy()))
        qxy = _xy(C.quadCell(im[::-1, ::-1].copy()))
        o.stat("lib_calls", 4)
        det = {"image": im, "signal": q}
        w.add("quadcell_mirror_antisymmetry", "mirror_x", abs(qx[0] + q[0]), 0.0, dict(det, mirrored=qx))
        w.add("quadcell_mirror_antisymmetry", "mirror_y", abs(qy[1] + q[1]), 0.0, dict(det, mirrored=qy))
        w.add("quadcell_mirror_antisymmetry", "mirror_both", _err(qxy, -q), 0.0, dict(det, mirrored=qxy))
        o.outcome(q)
    # batching: every ordered pair of the {0,1,3} sub-alphabet as a stack
    sub = [im for _, im in cog.all_images((2, 2), (0, 1, 3))]
    single = [_xy(C.quadCell(im.copy())) for im in sub]
    for i, j in itertools.product(range(len(sub)), repeat=2):
        got = _xy(C.quadCell(numpy.array([sub[i], sub[j]])))
        o.stat("lib_calls", 1)
        e = float("inf") if got.shape != (2, 2) else max([0.0] + [_err(got[:, k], single[m]) for k, m in ((0, i), (1, j))
                                                                     if sub[m].any()])
        w.add("stack_equals_frames", None, e, 0.0, {"stack": [sub[i], sub[j]], "got": got})
    # grids of cells (two and three leading axes), float and raw unsigned counts: stack == cells, and the mirror
    # clause inside the stacked call
    lit = [im for im in sub if im.any()]
    for lead in ((3, 3), (2, 2, 3)):
        nfr = int(numpy.prod(lead))
        for dt in ("float64", "uint8", "int32"):
            st = numpy.array([lit[(7 * k + 3) % len(lit)] for k in range(nfr)]).astype(dt).reshape(lead + (2, 2))
            tag = "lead=%s:%s" % (lead, dt)
            try:
                got = _xy(C.quadCell(st.copy()))
                gx = _xy(C.quadCell(st[..., ::-1].copy()))
                gy = _xy(C.quadCell(st[..., ::-1, :].copy()))
            except Exception as e:
                o.check("stack_equals_frames", False, sub="quad:" + tag, detail="%s: %s" % (type(e).__name__, str(e)[:200]))
                continue
            o.stat("lib_calls", 3 + nfr)
            if got.shape != (2,) + lead or gx.shape != got.shape or gy.shape != got.shape:
                o.check("stack_equals_frames", False, sub="quad:" + tag, detail="shape %s" % (got.shape,))
                continue
            cells = numpy.array([_xy(C.quadCell(st[idx].copy())).reshape(2) for idx in numpy.ndindex(*lead)]).T.reshape((2,) + lead)
            w.add("stack_equals_frames", "quad:" + tag, _err(got, cells), 0.0, {"stack": st, "got": got, "cells": cells})
            w.add("quadcell_mirror_antisymmetry", "mirror_x:" + tag, _err(gx[0], -got[0]), 0.0, {"stack": st, "signal": got, "mirrored": gx})
            w.add("quadcell_mirror_antisymmetry", "mirror_y:" + tag, _err(gy[1], -got[1]), 0.0, {"stack": st, "signal": got, "mirrored": gy})
    # observation (not a clause): the signal is homogeneous of degree 1, i.e. NOT scale invariant
    q1 = _xy(C.quadCell(numpy.array([[0., 1.], [0., 3.]])))
    q2 = _xy(C.quadCell(2 * numpy.array([[0., 1.], [0., 3.]])))
    o.note("quadcell_doubles_when_image_doubles", bool(numpy.array_equal(q2, 2 * q1)))
    w.flush()
    return o


def _storage(p):
    """centroids are functions of the pixel VALUES: the same image / stack in another memory layout or dtype
    (Fortran order, strided and transposed views, read-only, float32, signed and unsigned integer counts) gives
    the same answers (the library gets a fresh array every time)"""
    from mc import variants
    C = _lib()
    o = Out()
    fo = _Filtered(o)        # a call that raises on a read-only array: not C15's business
    i, j = numpy.indices((5, 6))
    img = ((3 * i * i + 5 * j + 2 * i * j) % 13 + (i == 2) * (j == 3) * 20).astype(float)
    st = numpy.array([img, numpy.roll(img, 1, 0), numpy.roll(img, 2, 1) * 2])
    ref = numpy.roll(img, 1, 1)
    fns = {
        "cog": lambda a: C.centre_of_gravity(a),
        "cog_thr0.3": lambda a: C.centre_of_gravity(a, threshold=0.3),
        "bp0.4": lambda a: C.brightest_pixel(a, 0.4),
        "corr": lambda a: C.correlation_centroid(a, ref.copy()),
        "corr_pad2_thr": lambda a: C.correlation_centroid(a, ref.copy(), threshold=0.2, padding=2),
        "quad": lambda a: C.quadCell(a[..., :2, :2]),
    }
    for name, f in fns.items():
        for dname, data in (("2d", img), ("3d", st)):
            n = variants.check_storage(fo, "centroid_independent_of_storage", f, data, 1e-12, sub="%s:%s" % (name, dname))
            o.stat("lib_calls", n)
    # the reference image of the correlation centroider, too
    n = variants.check_storage(fo, "centroid_independent_of_storage",
                               lambda r: C.correlation_centroid(st.copy(), r), ref, 1e-12, sub="corr:reference")
    o.stat("lib_calls", n)
    return o


def _large(p):
    """Sizes beyond the exhaustive alphabets (implementations that work in blocks of 64/128/256 frames or pixels
    change behaviour there): a stack of 130 and of 257 different frames against the frames processed alone, large
    non-square frames (70 x 130 pixels), single bright pixels and shifts on them."""
    C = _lib()
    o = Out()
    i, j = numpy.indices((9, 7))
    base = ((3 * i * i + 5 * j + 2 * i * j) % 13 + (i == 4) * (j == 2) * 25).astype(float)
    for nfr in (130, 257):
        st = numpy.array([numpy.roll(numpy.roll(base, k % 9, 0), (k // 3) % 7, 1) * (1 + 0.01 * k) for k in range(nfr)])
        ref = base.copy()
        fns = {"cog": lambda a: C.centre_of_gravity(a.copy()), "cog_thr0.3": lambda a: C.centre_of_gravity(a.copy(), threshold=0.3),
               "bp0.3": lambda a: C.brightest_pixel(a.copy(), 0.3),
               "corr": lambda a: C.correlation_centroid(a.copy(), ref.copy(), padding=2)}
        for name, f in fns.items():
            full = _xy(f(st))
            o.stat("lib_calls", 1 + nfr)
            if full.shape != (2, nfr):
                o.check("stack_equals_frames_large", False, sub="%s:frames=%d" % (name, nfr), detail="shape %s" % (full.shape,))
                continue
            singles = numpy.array([_xy(f(st[k])).reshape(2) for k in range(nfr)]).T
            o.close("stack_equals_frames_large", _err(full, singles), 1e-9, sub="%s:frames=%d" % (name, nfr))
    # large non-square frames
    for shape in ((70, 130), (130, 70), (257, 65)):
        for (py, px) in ((0, 0), (shape[0] - 1, shape[1] - 1), (shape[0] // 2, 3), (65, shape[1] - 2), (5, 64)):
            img = numpy.zeros(shape)
            img[py % shape[0], px % shape[1]] = 2.5
            want = numpy.array([px % shape[1], py % shape[0]], dtype=float)
            got = _xy(C.centre_of_gravity(img.copy())).reshape(2)
            o.close("single_pixel_location_large", _err(got, want), 1e-9, sub="cog:%dx%d:(%d,%d)" % (shape + (py, px)))
            got = _xy(C.centre_of_gravity(img.copy()[None])).reshape(2)
            o.close("single_pixel_location_large", _err(got, want), 1e-9, sub="cogNd:%dx%d:(%d,%d)" % (shape + (py, px)))
            o.stat("lib_calls", 2)
        # bright counts near the top of every integer dtype, far from the origin (index x value exceeds the dtype)
        for dt in ("int16", "uint16", "int32", "uint32", "int64", "float32"):
            info = numpy.iinfo(dt) if numpy.dtype(dt).kind in "iu" else None
            val = min(int(info.max) // 2, 2 ** 40) if info else 3.0e7
            img = numpy.zeros(shape, dtype=dt)
            py, px = shape[0] - 3, shape[1] - 2
            img[py, px] = val
            want = numpy.array([px, py], dtype=float)
            for nm_, f in (("cog", lambda a: C.centre_of_gravity(a)), ("cogNd", lambda a: C.centre_of_gravity(a[None])),
                           ("bp", lambda a: C.brightest_pixel(a, 0.5)), ("bpNd", lambda a: C.brightest_pixel(a[None], 0.5))):
                got = _xy(f(img.copy())).reshape(2)
                # float32 image: first moments may be accumulated in single precision (eps32 x coordinate, up to
                # 3e-5 at x = 254; the unchanged library promotes to double and measures 0): 8 eps32 x frame size
                o.close("single_pixel_location_large", _err(got, want), 8 * EPS32 * max(shape) if dt == "float32" else 1e-9,
                        sub="%s:%dx%d:%s:bright" % ((nm_,) + shape + (dt,)))
                o.stat("lib_calls", 1)
        dense = numpy.fromfunction(lambda a, b: ((a * 7 + b * 3) % 11 + 1.0) * ((a - 30) ** 2 + (b - 30) ** 2 < 100), shape)
        c0 = _xy(C.centre_of_gravity(dense.copy())).reshape(2)
        c1 = _xy(C.centre_of_gravity(numpy.roll(numpy.roll(dense, 9, 0), 17, 1))).reshape(2)
        o.close("shift_equivariance_large", _err(c1 - c0, numpy.array([17.0, 9.0])), 1e-9, sub="%dx%d" % shape)
        o.stat("lib_calls", 2)
        # the same spot through the threshold / rank selection (rank well inside the spot: 314 lit pixels, values
        # 1..11), single frame and stack of one
        moved = numpy.roll(numpy.roll(dense, 9, 0), 17, 1)
        npix = shape[0] * shape[1]
        for nm_, f in (("cog_thr0.3", lambda a: C.centre_of_gravity(a, threshold=0.3)),
                       ("bp:npx=150", lambda a: C.brightest_pixel(a, _frac_for(150, npix))),
                       ("bp:npx=40", lambda a: C.brightest_pixel(a, _frac_for(40, npix)))):
            for path, lift in (("2d", lambda a: a.copy()), ("Nd", lambda a: a.copy()[None])):
                c0 = _xy(f(lift(dense))).reshape(2)
                c1 = _xy(f(lift(moved))).reshape(2)
                o.close("shift_equivariance_large", _err(c1 - c0, numpy.array([17.0, 9.0])), 1e-9,
                        sub="%s:%s:%dx%d" % ((nm_, path) + shape))
                o.stat("lib_calls", 2)
    # stacks with two and three leading axes (a grid of sub-apertures per exposure), every frame different
    for lead in ((3, 3), (2, 3), (4, 4), (2, 2, 3)):
        nfr = int(numpy.prod(lead))
        st = numpy.array([numpy.roll(numpy.roll(base, (2 * k) % 9, 0), (k // 2) % 7, 1) * (1 + 0.13 * k) + (k % 3) for k in range(nfr)])
        st = st.reshape(lead + base.shape)
        ref = base.copy()
        fns = {"cog": lambda a: C.centre_of_gravity(a.copy()), "cog_thr0.3": lambda a: C.centre_of_gravity(a.copy(), threshold=0.3),
               "cog_thr0.1": lambda a: C.centre_of_gravity(a.copy(), threshold=0.1),
               "bp0.3": lambda a: C.brightest_pixel(a.copy(), 0.3),
               "corr": lambda a: C.correlation_centroid(a.copy(), ref.copy(), padding=2)}
        for name, f in fns.items():
            if name == "corr" and len(lead) > 1:
                continue           # the correlation centroider is documented for one leading axis
            try:
                full = _xy(f(st))
            except Exception as e:
                o.check("stack_equals_frames_grid", False, sub="%s:lead=%s" % (name, lead), detail="%s: %s" % (type(e).__name__, str(e)[:200]))
                continue
            o.stat("lib_calls", 1 + nfr)
            if full.shape != (2,) + lead:
                o.check("stack_equals_frames_grid", False, sub="%s:lead=%s" % (name, lead), detail="shape %s" % (full.shape,))
                continue
            singles = numpy.array([_xy(f(st[idx])).reshape(2) for idx in numpy.ndindex(*lead)]).T.reshape((2,) + lead)
            o.close("stack_equals_frames_grid", _err(full, singles), 1e-9, sub="%s:lead=%s" % (name, lead))
    # call histories on caller-owned arrays: the image and the reference handed over again after an in-place edit
    from mc import variants
    o_all, o = o, _Filtered(o)       # "<..>_argument_unchanged" of check_reuse is C20's statement: counted, not demanded
    im = numpy.roll(base, 2, 0) * 1.5 + 1.0
    roll_ = lambda a: a.__setitem__(Ellipsis, numpy.roll(numpy.roll(a, 2, -2), 1, -1) * 1.25)
    k = 0
    for pad in (1, 2):
        k += variants.check_reuse(o, "reference", lambda r: _xy(C.correlation_centroid(im.copy(), r, padding=pad)), base, 1e-12,
                                  sub="corr:pad=%d" % pad, mutate=roll_)
        k += variants.check_reuse(o, "image", lambda a: _xy(C.correlation_centroid(a, base.copy(), padding=pad)), im, 1e-12,
                                  sub="corr:pad=%d" % pad, mutate=roll_)
        k += variants.check_reuse(o, "reference", lambda r: numpy.asarray(C.cross_correlate(im.copy(), r, padding=pad)), base, 1e-12,
                                  sub="xcorr:pad=%d" % pad, mutate=roll_)
    for name, f in (("cog", lambda a: _xy(C.centre_of_gravity(a))), ("cog_thr", lambda a: _xy(C.centre_of_gravity(a, threshold=0.3))),
                    ("bp", lambda a: _xy(C.brightest_pixel(a, 0.3)))):
        k += variants.check_reuse(o, "image", f, im, 1e-12, sub=name, mutate=roll_)
        k += variants.check_reuse(o, "image", f, numpy.array([im, base, im * 2]), 1e-12, sub=name + ":stack", mutate=roll_)
    o.stat("lib_calls", k)
    return o_all
