"""E2 - basis exhaustion of a linear map.

`operator(fn, shape)` pushes every unit array e_k (and, for maps that are only real-linear
or whose complex-linearity is to be tested, i*e_k) of the given input shape through the
real function and returns the full operator matrix.  Identities verified on that matrix
hold for every input of that shape by linearity; linearity itself is tested on the basis
(`superposition`)."""
import numpy


def unit(shape, k, value=1.0, dtype=complex):
    e = numpy.zeros(shape, dtype=dtype)
    e.reshape(-1)[k] = value
    return e


def operator(fn, shape, dtype=complex, out_shape=None):
    """Columns fn(e_k), k = 0..prod(shape)-1, flattened. Returns (T, lib_calls)."""
    n = int(numpy.prod(shape))
    cols = []
    for k in range(n):
        y = numpy.asarray(fn(unit(shape, k, 1.0, dtype)))
        if out_shape is not None and tuple(y.shape) != tuple(out_shape):
            raise ValueError("output shape %s, expected %s" % (y.shape, out_shape))
        cols.append(y.reshape(-1))
    return numpy.array(cols).T, n


def operator_imag(fn, shape):
    """Columns fn(i*e_k) (for complex-linearity: must equal i*T)."""
    n = int(numpy.prod(shape))
    cols = [numpy.asarray(fn(unit(shape, k, 1j, complex))).reshape(-1) for k in range(n)]
    return numpy.array(cols).T, n


def superposition_error(fn, shape, T, dtype=complex):
    """max |fn(x) - T x| over a fixed family of superpositions of basis vectors:
    e_a + 2 e_b for every adjacent pair class and one dense complex combination."""
    n = int(numpy.prod(shape))
    worst = 0.0
    calls = 0
    combos = []
    for a in range(n):
        b = (a * 7 + 3) % n
        x = numpy.zeros(n, dtype=dtype)
        x[a] += 1.0
        x[b] += 2.0
        if numpy.issubdtype(numpy.dtype(dtype), numpy.complexfloating):
            x[(a + 1) % n] += -0.5j
        combos.append(x)
    dense = (numpy.arange(1, n + 1) % 5 - 2).astype(dtype)
    if numpy.issubdtype(numpy.dtype(dtype), numpy.complexfloating):
        dense = dense + 1j * ((numpy.arange(n) * 3) % 7 - 3)
    combos.append(dense)
    for x in combos:
        y = numpy.asarray(fn(x.reshape(shape).copy())).reshape(-1)
        calls += 1
        worst = max(worst, float(numpy.max(numpy.abs(y - T @ x))) if y.size else 0.0)
    return worst, calls
