"""E4b - preemption-bounded interleaving of two library calls inside one interpreter.

Two Python threads that call the library concurrently interleave at bytecode boundaries (the interpreter lock is
handed over between lines).  With no lock taken by the library, every schedule with ONE preemption of call A -
A runs to some line, the other thread runs call B to completion, A resumes - is reproduced exactly, and
deterministically, by running B *nested* at that line: a `sys.settrace` hook counts the line events of A that fall
in files of the library under test and calls B at the k-th one.  `explore(A, B)` does this for every k (the whole
space of context-bound-2 schedules A | B | A at line granularity) and returns, for each k, A's and B's results.

The deciding step is exhaustive over k; nothing is sampled and no real thread is started (so there is no OS
scheduler to own).  Code that keeps per-call scratch in module-level or otherwise shared objects shows here as
"A's result depends on where B ran"; code without shared mutable state gives the solo results at every k.
"""
import os
import sys


def _lib_root():
    from . import repo
    return os.path.join(os.path.abspath(repo.REPO), "aotools") + os.sep


class _Hook(object):
    def __init__(self, root, fire_at, inner):
        self.root, self.fire_at, self.inner = root, fire_at, inner
        self.count = 0
        self.fired = False
        self.inner_result = None
        self.where = None
        self._busy = False

    def _local(self, frame, event, arg):
        if event == "line" and not self._busy:
            if self.count == self.fire_at and self.inner is not None and not self.fired:
                self.fired = True
                self._busy = True
                self.where = "%s:%d" % (os.path.basename(frame.f_code.co_filename), frame.f_lineno)
                sys.settrace(None)
                try:
                    self.inner_result = self.inner()
                finally:
                    sys.settrace(self._global)
                    self._busy = False
            self.count += 1
        return self._local

    def _global(self, frame, event, arg):
        if self._busy:
            return None
        fn = frame.f_code.co_filename
        if event == "call" and fn.startswith(self.root):
            return self._local
        return None


def count_points(A):
    """number of line events of A inside the library (the preemption points)"""
    h = _Hook(_lib_root(), -1, None)
    old = sys.gettrace()
    sys.settrace(h._global)
    try:
        r = A()
    finally:
        sys.settrace(old)
    return h.count, r


def run_with_preemption(A, B, k):
    """A with B run to completion at A's k-th library line -> (result of A, result of B, 'file:line' or None)"""
    h = _Hook(_lib_root(), k, B)
    old = sys.gettrace()
    sys.settrace(h._global)
    try:
        ra = A()
    finally:
        sys.settrace(old)
    return ra, h.inner_result, h.where


def explore(A, B, max_points=None, stride=1):
    """every single-preemption schedule A | B | A.  A and B are thunks that build their own arguments (so that every
    run starts from equal inputs).  Yields (k, where, result_A, result_B).  `stride` > 1 visits every stride-th
    point (state the stride in the evidence: the exploration is then exhaustive over that sub-lattice only)."""
    n, _ = count_points(A)
    top = n if max_points is None else min(n, max_points)
    for k in range(0, top, stride):
        ra, rb, where = run_with_preemption(A, B, k)
        yield k, where, ra, rb
