"""Bounded exhaustive exploration machinery for the aotools properties C01-C20."""
from .core import Out, Case  # noqa: F401
