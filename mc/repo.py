"""Binds the checks to the working tree of the library under verification.

The sources are imported directly from $AOTOOLS_REPO (default /repo): aotools is pure
Python and is not installed in /venv, so there is no stale copy and nothing to build.
"""
import os
import sys

REPO = os.environ.get("AOTOOLS_REPO", "/repo")
sys.dont_write_bytecode = True
os.environ.setdefault("PYTHONDONTWRITEBYTECODE", "1")
# one numba thread per worker process: the explorer parallelises over cases itself
os.environ.setdefault("NUMBA_NUM_THREADS", "1")
# The default OpenMP threading layer aborts a forked child that uses numba after its parent did; the workqueue
# layer does not.  The process-snapshot search (mc/statespace.fork_search) forks from processes that have
# already run the library's numba kernels.
os.environ.setdefault("NUMBA_THREADING_LAYER", "workqueue")
os.environ.setdefault("OMP_NUM_THREADS", "1")
os.environ.setdefault("OPENBLAS_NUM_THREADS", "1")
os.environ.setdefault("MKL_NUM_THREADS", "1")
# guard for source hooks (none exist; recorded in MANIFEST.hooks)
os.environ.setdefault("AOTOOLS_VERIF", "1")

if REPO not in sys.path:
    sys.path.insert(0, REPO)


def load():
    import aotools  # noqa: F401
    path = os.path.dirname(os.path.abspath(aotools.__file__))
    want = os.path.join(os.path.abspath(REPO), "aotools")
    if path != want:
        raise RuntimeError("aotools imported from %s, expected %s" % (path, want))
    return aotools
