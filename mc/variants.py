"""Storage variants of one array value: the same numbers in other memory layouts and dtypes.
A function of the VALUES of an array must not depend on how they are stored; checks use these to
turn every input of their alphabet into a family (Fortran order, strided / transposed views,
read-only, and - when the values are representable - other dtypes)."""
import numpy


def layouts(x):
    """(name, array) pairs holding exactly the values of x (same dtype)"""
    x = numpy.asarray(x)
    out = []
    if x.ndim >= 2:
        out.append(("fortran", numpy.asfortranarray(x)))
        out.append(("transposed_view", numpy.ascontiguousarray(numpy.swapaxes(x, -1, -2)).swapaxes(-1, -2)))
    if x.ndim >= 3:
        # leading (batch) axes stored in another order: a view whose first two axes are swapped in memory
        out.append(("leading_axes_swapped_view", numpy.ascontiguousarray(numpy.swapaxes(x, 0, 1)).swapaxes(0, 1)))
        out.append(("first_axis_last_in_memory_view", numpy.ascontiguousarray(numpy.moveaxis(x, 0, -1)).transpose(
            (x.ndim - 1,) + tuple(range(x.ndim - 1)))))
    big = numpy.zeros(tuple(2 * s for s in x.shape), dtype=x.dtype)
    sl = tuple(slice(None, None, 2) for _ in x.shape)
    big[sl] = x
    out.append(("strided_view", big[sl]))
    ro = x.copy()
    ro.flags.writeable = False
    out.append(("read_only", ro))
    return out


def dtypes(x, kinds=("float32", "int64", "int32", "uint8", "uint16", "longdouble")):
    """(name, array, tolerance scale) for the dtypes that hold the values of x exactly (or, for float32,
    to single precision)"""
    x = numpy.asarray(x)
    out = []
    for k in kinds:
        dt = numpy.dtype(k)
        if dt.kind in "iu":
            if numpy.iscomplexobj(x) or not numpy.all(x == numpy.round(x)):
                continue
            info = numpy.iinfo(dt)
            if x.min() < info.min or x.max() > info.max:
                continue
            out.append((k, x.astype(dt), 1.0))
        elif k == "float32":
            if numpy.iscomplexobj(x):
                out.append(("complex64", x.astype(numpy.complex64), 1e-5))
            else:
                out.append((k, x.astype(dt), 1e-5))
        else:
            if not numpy.iscomplexobj(x):
                out.append((k, x.astype(dt), 1.0))
    return out


def _flat(r):
    if isinstance(r, (tuple, list)):
        return numpy.concatenate([numpy.asarray(a, dtype=complex).ravel() for a in r]) if len(r) else numpy.zeros(0)
    return numpy.asarray(r, dtype=complex).ravel()


def check_storage(o, clause, f, x, tol, sub="", kinds=("float32", "int64", "int32", "uint8", "uint16"),
                  with_layouts=True):
    """o.check(clause, ...) that f gives the same values for every storage variant of x.
    f receives a fresh array each time. Returns the number of library calls made."""
    base = _flat(f(numpy.array(x)))
    scale = max(1.0, float(numpy.max(numpy.abs(base))) if base.size else 1.0)
    calls = 1
    fams = []
    if with_layouts:
        fams += [(n, a, 1.0) for n, a in layouts(x)]
    fams += dtypes(x, kinds)
    for name, arr, ts in fams:
        try:
            got = _flat(f(arr))
        except Exception as e:
            o.check(clause, False, sub="%s:%s" % (sub, name), detail="%s: %s" % (type(e).__name__, str(e)[:200]))
            calls += 1
            continue
        calls += 1
        if got.shape != base.shape:
            o.check(clause, False, sub="%s:%s" % (sub, name), detail="result shape %s vs %s" % (got.shape, base.shape))
            continue
        both_nan = numpy.isnan(got) & numpy.isnan(base)
        err = float(numpy.max(numpy.abs(numpy.where(both_nan, 0, got - base)))) / scale if base.size else 0.0
        if not err == err:
            err = float("inf")
        t = tol if ts == 1.0 else max(tol, ts)
        o.check(clause, err <= t, sub="%s:%s" % (sub, name), measure=min(err, 1e300) if ts == 1.0 else None, tol=t,
                detail=None if err <= t else {"error": err, "variant": name})
    return calls


def flip_all(a):
    """default caller-side edit: the array reversed along every axis, written back in place"""
    a[...] = a[tuple(slice(None, None, -1) for _ in a.shape)].copy()


def _result_arrays(r, depth=0):
    if isinstance(r, numpy.ndarray):
        return [r]
    if isinstance(r, (tuple, list)) and depth < 4:
        out = []
        for x in r:
            out.extend(_result_arrays(x, depth + 1))
        return out
    if isinstance(r, dict) and depth < 4:
        out = []
        for x in r.values():
            out.extend(_result_arrays(x, depth + 1))
        return out
    return []


def check_reuse(o, clause, f, x, tol, sub="", mutate=flip_all):
    """Call history on ONE array object owned by the caller:  f(a);  f(a) again;  the caller edits a in place;
    f(a) once more.  Clauses (each compared with what a pristine copy of the current values gives):
      <clause>_argument_unchanged     the library call leaves a as it was
      <clause>_repeat_on_same_array   the second call on the same object gives the result for its current values
      <clause>_after_caller_edit      after the caller's in-place edit the result is that of the edited values
      <clause>_held_result_not_overwritten            the first result is untouched by the second call
      <clause>_result_not_shared_with_library_state   the caller overwrites the first result; the next call is unaffected
    (a result remembered by object identity, or an argument normalised in place, shows here and nowhere else).
    Returns the number of library calls."""
    a = numpy.array(x)
    keep = a.copy()

    def rel(p, q):
        if p.shape != q.shape:
            return float("inf")
        if not p.size:
            return 0.0
        both_nan = numpy.isnan(p) & numpy.isnan(q)
        d = numpy.where(both_nan, 0, p - q)
        e = float(numpy.max(numpy.abs(d))) / max(1.0, float(numpy.nanmax(numpy.abs(q))) if numpy.isfinite(q).any() else 1.0)
        return e if e == e else float("inf")

    calls = 0
    try:
        # the history first, uninterrupted (a reference call in between would itself be part of the history) ...
        raw1 = f(a)
        first = _flat(raw1).copy()
        same = bool(numpy.array_equal(a, keep, equal_nan=True)) if a.dtype.kind in "fc" else bool(numpy.array_equal(a, keep))
        change = None if same else float(numpy.max(numpy.abs(a.astype(complex) - keep.astype(complex))))
        before = a.copy()
        raw2 = f(a)
        r2 = _flat(raw2).copy()
        # the first result, still held by the caller, is what it was; the caller then overwrites it (it owns it) and
        # the next call on the same values is unaffected (no result array is shared with state kept by the library)
        held_ok = rel(_flat(raw1), first)
        scribbled = 0
        if same:
            for arr in _result_arrays(raw1):
                if arr.flags.writeable and arr.size and not numpy.may_share_memory(arr, a):
                    arr[...] = 77 if arr.dtype.kind in "iub" else numpy.nan
                    scribbled += 1
            r2b = _flat(f(a)) if scribbled else r2
            calls += 1 if scribbled else 0
        mutate(a)
        after = a.copy()
        r3 = _flat(f(a))
        # ... and a result obtained BEFORE the edit is not touched by the call made after it (different values now)
        held_ok = max(held_ok, rel(_flat(raw2), r2))
        # ... then what pristine copies of the values held at each point give
        want2 = _flat(f(before))
        want3 = _flat(f(after))
        calls += 5
        o.check(clause + "_argument_unchanged", same, sub=sub, detail=None if same else "max change %g" % change)
        o.close(clause + "_repeat_on_same_array", rel(r2, want2), tol, sub=sub)
        o.close(clause + "_held_result_not_overwritten", held_ok, 0.0, sub=sub)
        if same and scribbled:
            o.close(clause + "_result_not_shared_with_library_state", rel(r2b, want2), tol, sub=sub)
        o.close(clause + "_after_caller_edit", rel(r3, want3), tol, sub=sub)
    except Exception as e:          # the unchanged library does not raise on these inputs (they are inputs of the check)
        o.check(clause + "_repeat_on_same_array", False, sub=sub, detail="%s: %s" % (type(e).__name__, str(e)[:200]))
    return calls
