"""Run a function in a forked child of the current process (a pristine copy of its state) and
return its picklable result.  Children terminate any multiprocessing workers the library left
behind and never run atexit handlers.  `isolated_map` runs up to `jobs` children at once."""
import os
import pickle
import traceback


def _child(fn, args, w, silence):
    code = 0
    try:
        if silence:
            try:
                dn = os.open(os.devnull, os.O_WRONLY)
                os.dup2(dn, 1)
            except OSError:
                pass
        try:
            payload = ("ok", fn(*args))
        except BaseException:
            payload = ("err", traceback.format_exc()[-1500:])
        with os.fdopen(w, "wb") as f:
            pickle.dump(payload, f)
    except BaseException:
        code = 3
    finally:
        try:
            # pools first, in an orderly way: killing only the worker processes races with a pool's maintenance
            # thread, which refills the pool; the orphans then keep the result pipe open and the parent waits forever
            import gc
            import multiprocessing
            import multiprocessing.pool
            for obj in gc.get_objects():
                try:
                    if isinstance(obj, multiprocessing.pool.Pool):
                        obj.terminate()
                except BaseException:
                    pass
            for c in multiprocessing.active_children():
                c.terminate()
        except BaseException:
            pass
        os._exit(code)


def _spawn(fn, args, silence=True):
    r, w = os.pipe()
    pid = os.fork()
    if pid == 0:
        os.close(r)
        _child(fn, args, w, silence)
    os.close(w)
    return pid, r


def _collect(pid, r):
    with os.fdopen(r, "rb") as f:
        data = f.read()
    os.waitpid(pid, 0)
    if not data:
        raise RuntimeError("isolated child died without a result")
    kind, val = pickle.loads(data)
    if kind == "err":
        raise RuntimeError("isolated child raised:\n" + val)
    return val


def isolated(fn, *args):
    return _collect(*_spawn(fn, args))


def isolated_map(fn, arg_tuples, jobs=16):
    arg_tuples = list(arg_tuples)
    out = [None] * len(arg_tuples)
    i = 0
    while i < len(arg_tuples):
        batch = [(j, _spawn(fn, arg_tuples[j])) for j in range(i, min(i + jobs, len(arg_tuples)))]
        for j, (pid, r) in batch:
            out[j] = _collect(pid, r)
        i += jobs
    return out
