"""E4 - schedule exploration for code that farms work out to a multiprocessing.Pool.

Model of Pool(k): the submitted tasks are cut into chunks as the real pool does
(map/starmap/map_async: ceil(n/(4k)); imap/imap_unordered/apply_async: 1), the chunks sit
in a FIFO queue, k workers each take the next chunk when idle; the only nondeterminism is
WHICH RUNNING CHUNK FINISHES NEXT.  A schedule is the sequence of those decisions
(index into the running set, ordered by dispatch; 0 = FIFO = default).

ControlledPool implements the pool API on top of that model: at each synchronisation point
it asks the Chooser which running chunk finishes next, executes the chunk's tasks in-process
at that moment (so tasks run in completion order) and delivers results with the semantics of
the API that was used (ordered for map/imap/starmap/map_async, completion order for
imap_unordered and for apply_async callbacks).

Explorer: stateless exploration by choice-sequence replay (deviation bounded): run with a
prefix of choices, default 0 afterwards, record the arity of every choice point, branch.

RealPoolReplayer: replays one schedule on the real multiprocessing.Pool by injecting
per-task delays computed from the model, and reports the observed completion order.
"""
import math
import os
import time


# ----------------------------------------------------------------------------- the model

def chunks_for(n, k, api):
    """list of chunks (lists of task indices) as the real Pool would cut them"""
    if n == 0:
        return []
    if api in ("map", "starmap", "map_async", "starmap_async"):
        size, extra = divmod(n, k * 4)
        if extra:
            size += 1
    else:
        size = 1
    return [list(range(i, min(i + size, n))) for i in range(0, n, size)]


def all_completion_orders(nchunks, k):
    """Every completion order (tuple of chunk indices) a k-worker FIFO pool can produce,
    together with the choice sequence producing it. Returns (orders, states, transitions)."""
    orders = []
    seen_states = set()
    transitions = 0

    def rec(next_c, running, done, choices):
        nonlocal transitions
        seen_states.add((next_c, tuple(running), tuple(done)))
        if not running:
            orders.append((tuple(done), tuple(choices)))
            return
        for i, c in enumerate(running):
            r2 = running[:i] + running[i + 1:]
            n2 = next_c
            if n2 < nchunks:
                r2 = r2 + [n2]
                n2 += 1
            transitions += 1
            rec(n2, r2, done + [c], choices + [i])
    first = list(range(min(k, nchunks)))
    rec(len(first), first, [], [])
    return orders, len(seen_states), transitions


class Chooser(object):
    """Supplies the decisions of one execution: replays `prefix`, then takes choice 0.
    Records (arity, choice) of every decision point (arity-1 points are not recorded)."""

    def __init__(self, prefix=()):
        self.prefix = list(prefix)
        self.points = []       # arities
        self.choices = []
        self.orders = []       # per pool: k, chunks, apis, completion order of chunks
        self.timeouts = []     # chunk ids whose get()/wait() timed out, in order

    def choose(self, arity):
        if arity <= 1:
            return 0
        i = len(self.choices)
        c = self.prefix[i] if i < len(self.prefix) else 0
        if c >= arity:
            raise RuntimeError("replay divergence: choice %d at point %d but arity %d" % (c, i, arity))
        self.points.append(arity)
        self.choices.append(c)
        return c


class _AsyncResult(object):
    """result handle of apply_async / map_async; `get(timeout)` is a scheduling point: with a finite
    timeout and an unfinished task the explorer decides whether the timeout fires first"""

    def __init__(self, pool, chunk_ids, getter):
        self._pool, self._ids, self._getter = pool, list(chunk_ids), getter

    def _finished(self):
        return all(q in self._pool._done for q in self._ids)

    def get(self, timeout=None):
        self.wait(timeout, _raise=True)
        return self._getter()

    def wait(self, timeout=None, _raise=False):
        p = self._pool
        if self._finished():
            return
        if timeout is not None and p._timeouts_left > 0:
            # does the timeout fire before the task completes?  0 = no (default), 1 = yes
            if p._chooser.choose(2) == 1:
                p._timeouts_left -= 1
                # while waiting, some OTHER tasks may complete (never all of this handle's, or it would be ready)
                others = p._completions_possible_without(self._ids)
                j = p._chooser.choose(min(others, 2) + 1) if others else 0
                for _ in range(j):
                    p._complete_one(exclude=self._ids)
                p._chooser.timeouts.append(tuple(self._ids))
                if _raise:
                    import multiprocessing
                    raise multiprocessing.TimeoutError()
                return
        p._advance_until(self._ids)

    def ready(self):
        # polling makes time pass: one more completion happens before the answer (so a polling loop terminates)
        if not self._finished() and (self._pool._running or self._pool._next < len(self._pool._queue)):
            self._pool._complete_one()
        return self._finished()

    def successful(self):
        if not self._finished():
            raise ValueError("result is not ready")
        return True


def _boundary(obj):
    import pickle
    try:
        return pickle.loads(pickle.dumps(obj, protocol=pickle.HIGHEST_PROTOCOL))
    except Exception:
        return obj          # (unpicklable objects would fail in the real pool; here they pass through unchanged)


_CURRENT_CHOOSER = [None]      # the chooser of the execution in progress (set by patched_pools / set_current_chooser)


def set_current_chooser(ch):
    """bind every controlled pool - also pools that the library created during an EARLIER execution and kept (a
    module-level pool cache is legitimate) - to the chooser of the execution that starts now"""
    _CURRENT_CHOOSER[0] = ch


class ControlledPool(object):
    """In-process double of multiprocessing.pool.Pool driven by a Chooser.

    The pool is stepped incrementally: tasks are queued FIFO (chunked as the real pool does), at most k chunks
    run, and every blocking call advances the pool - asking the Chooser which running chunk finishes next -
    only as far as it needs.  A chunk's tasks are executed in-process at the moment it completes."""

    MAX_TIMEOUTS = 3        # bound on the number of get()/wait() timeouts that fire per pool (fairness)

    def __init__(self, chooser, processes=None, initializer=None, initargs=(), *a, **kw):
        self._own_chooser = chooser
        self._k = int(processes) if processes else (os.cpu_count() or 1)
        if self._k < 1:
            raise ValueError("Number of processes must be at least 1")
        self._queue = []       # (batch, chunk index in batch, task indices)
        self._next = 0         # next queue entry to dispatch
        self._running = []     # queue indices, in dispatch order
        self._done = set()
        self._order = []       # completion order (queue indices)
        self._closed = False
        self._timeouts_left = self.MAX_TIMEOUTS
        self._record = {"k": self._k, "chunks": [], "apis": [], "completion": self._order}
        chooser.orders.append(self._record)
        self._record_owner = chooser
        if initializer is not None:
            initializer(*initargs)

    @property
    def _chooser(self):
        cur = _CURRENT_CHOOSER[0]
        ch = cur if cur is not None else self._own_chooser
        if ch is not self._record_owner:
            # a pool that outlived the execution that created it: it gets a fresh record in the new execution
            self._order = []
            if not self._running and self._next >= len(self._queue):
                # nothing of the earlier execution is pending: chunk numbers start at 0 again, as the new record's do
                self._queue, self._next, self._done = [], 0, set()
            self._record = {"k": self._k, "chunks": [], "apis": [], "completion": self._order, "reused_pool": True}
            ch.orders.append(self._record)
            self._record_owner = ch
            self._timeouts_left = self.MAX_TIMEOUTS
        return ch

    # ---- engine
    def _submit(self, api, func, items, star, chunksize=None, on_chunk=None):
        if self._closed:
            raise ValueError("Pool not running")
        self._chooser       # a pool that outlived its execution gets its record in the current one BEFORE chunks are logged
        items = list(items)
        n = len(items)
        if chunksize:
            chs = [list(range(i, min(i + chunksize, n))) for i in range(0, n, chunksize)]
        else:
            chs = chunks_for(n, self._k, api)
        batch = {"api": api, "func": func, "items": items, "star": star, "chunks": chs,
                 "results": [None] * n, "done_order": [], "on_chunk": on_chunk, "ids": []}
        for ci, ch in enumerate(chs):
            batch["ids"].append(len(self._queue))
            self._queue.append((batch, ci, ch))
            self._record["chunks"].append(ch)
        if api not in self._record["apis"]:
            self._record["apis"].append(api)
        self._dispatch()
        return batch

    def _dispatch(self):
        while len(self._running) < self._k and self._next < len(self._queue):
            self._running.append(self._next)
            self._next += 1

    def _completions_possible_without(self, ids):
        """how many completions can still happen while the chunks `ids` stay unfinished"""
        ids = set(ids)
        blocked = sum(1 for q in self._running if q in ids)
        free_workers = self._k - blocked
        if free_workers <= 0:
            return 0
        waiting_others = sum(1 for q in range(self._next, len(self._queue)) if q not in ids)
        # chunks of `ids` still in the FIFO queue block everything behind them once they reach a worker;
        # a conservative count: running others + queued others ahead of the first queued member of ids
        first_blocked = min([q for q in range(self._next, len(self._queue)) if q in ids] or [len(self._queue)])
        ahead = sum(1 for q in range(self._next, first_blocked))
        return sum(1 for q in self._running if q not in ids) + ahead

    def _complete_one(self, exclude=()):
        self._dispatch()
        cands = [q for q in self._running if q not in set(exclude)]
        if not cands:
            raise RuntimeError("controlled pool: nothing can complete (deadlock in the model)")
        q = cands[self._chooser.choose(len(cands))]
        self._running.remove(q)
        b, ci, ch = self._queue[q]
        # arguments and results cross a process boundary in the real pool, one message per CHUNK in each direction:
        # the worker unpickles the chunk's arguments, runs its tasks one after the other and pickles the list of
        # their results only when the last one is done (a result that aliases per-process scratch memory is
        # overwritten by the next task of the same chunk)
        its = _boundary([b["items"][t] for t in ch])
        raw = [(b["func"](*it) if b["star"] else b["func"](it)) for it in its]
        for t, r in zip(ch, _boundary(raw)):
            b["results"][t] = r
        b["done_order"].append(ci)
        self._done.add(q)
        self._order.append(q)
        self._dispatch()
        if b["on_chunk"] is not None:
            b["on_chunk"](b, ch)
        return q

    def _advance_until(self, ids):
        while not all(q in self._done for q in ids):
            self._complete_one()

    def _drain(self):
        while self._running or self._next < len(self._queue):
            self._complete_one()

    # ---- API
    def map(self, func, iterable, chunksize=None):
        b = self._submit("map", func, iterable, False, chunksize)
        self._advance_until(b["ids"])
        return list(b["results"])

    def starmap(self, func, iterable, chunksize=None):
        b = self._submit("starmap", func, iterable, True, chunksize)
        self._advance_until(b["ids"])
        return list(b["results"])

    def map_async(self, func, iterable, chunksize=None, callback=None, error_callback=None):
        b = self._submit("map_async", func, iterable, False, chunksize)
        if callback is not None:
            state = {"left": len(b["chunks"])}

            def on_chunk(bb, ch):
                state["left"] -= 1
                if state["left"] == 0:
                    callback(list(bb["results"]))
            b["on_chunk"] = on_chunk
        return _AsyncResult(self, b["ids"], lambda: list(b["results"]))

    def starmap_async(self, func, iterable, chunksize=None, callback=None, error_callback=None):
        b = self._submit("starmap_async", func, iterable, True, chunksize)
        return _AsyncResult(self, b["ids"], lambda: list(b["results"]))

    def imap(self, func, iterable, chunksize=1):
        b = self._submit("imap", func, iterable, False, chunksize)
        pool = self

        def gen():
            for ci, ch in enumerate(b["chunks"]):
                pool._advance_until([b["ids"][ci]])
                for t in ch:
                    yield b["results"][t]
        return gen()

    def imap_unordered(self, func, iterable, chunksize=1):
        b = self._submit("imap_unordered", func, iterable, False, chunksize)
        pool = self

        def gen():
            given = 0
            while given < len(b["chunks"]):
                while len(b["done_order"]) <= given:
                    pool._complete_one()
                ci = b["done_order"][given]
                given += 1
                for t in b["chunks"][ci]:
                    yield b["results"][t]
        return gen()

    def apply_async(self, func, args=(), kwds=None, callback=None, error_callback=None):
        kwds = kwds or {}
        b = self._submit("apply_async", lambda a: func(*a, **kwds), [tuple(args)], False)
        if callback is not None:
            b["on_chunk"] = lambda bb, ch: callback(bb["results"][0])
        return _AsyncResult(self, b["ids"], lambda: b["results"][0])

    def apply(self, func, args=(), kwds=None):
        return self.apply_async(func, args, kwds).get()

    def close(self):
        self._closed = True

    def join(self):
        self._drain()

    def terminate(self):
        self._closed = True
        self._running = []
        self._next = len(self._queue)

    def __enter__(self):
        return self

    def __exit__(self, *exc):
        self.terminate()
        return False


class FakeMultiprocessing(object):
    """stands in for the `multiprocessing` module inside the module under test"""

    def __init__(self, chooser):
        self._chooser = chooser
        self.pools_created = 0
        import multiprocessing as _mp
        self._real = _mp

    def Pool(self, processes=None, *a, **kw):
        self.pools_created += 1
        return ControlledPool(self._chooser, processes, *a, **kw)

    def cpu_count(self):
        return 4

    @property
    def TimeoutError(self):
        return self._real.TimeoutError

    @property
    def pool(self):
        return self

    def get_context(self, method=None):
        return self

    def __getattr__(self, name):
        # anything else (Process, Queue, ...) is not modelled: make its use loud
        raise AttributeError("multiprocessing.%s is not modelled by the controlled pool" % name)


# ----------------------------------------------------------------------------- explorer

def explore(run, bound=None, max_runs=None, is_bad=None, max_bad=None):
    """Deviation-bounded stateless exploration.

    run(prefix) -> (chooser, observation); chooser.points/choices describe the decision
    points met. Enumerates every choice sequence with at most `bound` non-default choices
    (bound None = all). Returns list of (choices, observation) and a flag whether
    max_runs cut the exploration short."""
    out = []
    capped = False
    nbad = 0
    stack = [()]
    while stack:
        prefix = stack.pop()
        if max_runs is not None and len(out) >= max_runs:
            capped = True
            break
        ch, obs = run(prefix)
        if list(ch.choices[:len(prefix)]) != list(prefix):
            raise RuntimeError("replay divergence: prefix %s executed as %s" % (prefix, ch.choices))
        out.append((tuple(ch.choices), obs))
        if is_bad is not None and max_bad is not None and is_bad(obs):
            nbad += 1
            if nbad >= max_bad:      # the violation is established; the remaining schedules are not needed
                capped = True
                break
        dev_prefix = sum(1 for c in prefix if c)
        for i in range(len(ch.choices) - 1, len(prefix) - 1, -1):
            # deviations before point i on this run (all defaults after the prefix)
            if bound is not None and dev_prefix + 1 > bound:
                continue
            for alt in range(1, ch.points[i]):
                stack.append(tuple(ch.choices[:i]) + (alt,))
    return out, capped


# ----------------------------------------------------------------------------- real pool

def delays_for(order, nchunks, k, unit):
    """Per-chunk sleep (seconds) that makes a real k-worker FIFO pool complete the chunks in
    `order`: completion number r happens at (r+1)*unit; the j-th dispatched chunk starts at 0
    for j < k and else when completion number j-k has happened."""
    rank = {c: r for r, c in enumerate(order)}
    d = {}
    for j in range(nchunks):
        start = 0.0 if j < k else (j - k + 1) * unit
        d[j] = (rank[j] + 1) * unit - start
        if d[j] <= 0:
            raise ValueError("order %s is not feasible for k=%d" % (order, k))
    return d


def feasible(order, nchunks, k):
    """is the completion order producible by the FIFO model?"""
    running = list(range(min(k, nchunks)))
    nxt = len(running)
    for c in order:
        if c not in running:
            return False
        running.remove(c)
        if nxt < nchunks:
            running.append(nxt)
            nxt += 1
    return not running


# ----------------------------------------------------------------------------- concurrent.futures under control

class _CFuture(object):
    """Future of a ControlledExecutor: completes when the explorer says so"""

    def __init__(self, ex, q):
        self._ex, self._q = ex, q
        self._callbacks = []

    def done(self):
        return self._q in self._ex._pool._done

    def running(self):
        return self._q in self._ex._pool._running

    def cancelled(self):
        return False

    def cancel(self):
        return False

    def result(self, timeout=None):
        _AsyncResult(self._ex._pool, [self._q], lambda: None).wait(timeout, _raise=False)
        if not self.done():
            import concurrent.futures
            raise concurrent.futures.TimeoutError()
        kind, val = self._ex._results[self._q]
        if kind == "err":
            raise val
        return val

    def exception(self, timeout=None):
        self._ex._pool._advance_until([self._q])
        kind, val = self._ex._results[self._q]
        return val if kind == "err" else None

    def add_done_callback(self, fn):
        if self.done():
            fn(self)
        else:
            self._callbacks.append(fn)


class ControlledExecutor(object):
    """stands in for concurrent.futures.ThreadPoolExecutor / ProcessPoolExecutor: tasks run in-process, in the
    completion order the Chooser picks; as_completed()/wait() observe that order"""

    def __init__(self, chooser, max_workers=None, *a, **kw):
        self._pool = ControlledPool(chooser, max_workers or 4)
        self._results = {}
        self._futures = {}

    def submit(self, fn, *args, **kwargs):
        ex = self

        def task(_):
            try:
                return ("ok", fn(*args, **kwargs))
            except BaseException as e:      # delivered through the future, as the real executor does
                return ("err", e)
        holder = {}

        def on_chunk(batch, ch):
            q = holder["q"]
            ex._results[q] = batch["results"][0]
            for cb in ex._futures[q]._callbacks:
                cb(ex._futures[q])
        b = self._pool._submit("apply_async", task, [0], False, on_chunk=on_chunk)
        q = b["ids"][0]
        holder["q"] = q
        f = _CFuture(self, q)
        self._futures[q] = f
        return f

    def map(self, fn, *iterables, timeout=None, chunksize=1):
        fs = [self.submit(fn, *args) for args in zip(*iterables)]

        def gen():
            for f in fs:
                yield f.result()
        return gen()

    def shutdown(self, wait=True, cancel_futures=False):
        if wait:
            self._pool._drain()

    def __enter__(self):
        return self

    def __exit__(self, *exc):
        self.shutdown(wait=True)
        return False


def controlled_as_completed(fs, timeout=None):
    fs = list(fs)
    pending = [f for f in fs if isinstance(f, _CFuture) and not f.done()]
    for f in fs:
        if not isinstance(f, _CFuture) or f.done():
            yield f
    while pending:
        pool = pending[0]._ex._pool
        before = set(pool._done)
        pool._complete_one()
        for f in list(pending):
            if f.done():
                pending.remove(f)
                yield f
        if set(pool._done) == before:
            raise RuntimeError("controlled executor made no progress")


def controlled_wait(fs, timeout=None, return_when="ALL_COMPLETED"):
    import collections
    fs = list(fs)
    done = set(f for f in fs if not isinstance(f, _CFuture) or f.done())
    for f in controlled_as_completed([f for f in fs if f not in done]):
        done.add(f)
        if return_when == "FIRST_COMPLETED":
            break
    R = collections.namedtuple("DoneAndNotDoneFutures", "done not_done")
    return R(done, set(fs) - done)


class patched_executors(object):
    """context manager: concurrent.futures executors (and the names modules imported from it) are replaced by
    controlled ones driven by `chooser` for the duration of the block"""

    def __init__(self, chooser, module_prefix="aotools"):
        self.chooser, self.prefix = chooser, module_prefix
        self.saved = []

    def __enter__(self):
        import concurrent.futures as cf
        import sys
        chooser = self.chooser

        def factory(*a, **kw):
            mw = kw.get("max_workers", a[0] if a else None)
            return ControlledExecutor(chooser, mw)
        repl = {cf.ThreadPoolExecutor: factory, cf.ProcessPoolExecutor: factory,
                cf.as_completed: controlled_as_completed, cf.wait: controlled_wait}
        targets = [cf] + [m for n, m in list(sys.modules.items())
                          if m is not None and (n == self.prefix or n.startswith(self.prefix + "."))]
        for m in targets:
            for k, v in list(vars(m).items()):
                try:
                    if v in repl:
                        self.saved.append((m, k, v))
                        setattr(m, k, repl[v])
                except TypeError:
                    pass
        return self

    def __exit__(self, *exc):
        for m, k, v in self.saved:
            setattr(m, k, v)
        return False



class patched_pools(object):
    """context manager: every way a module of the library can reach a process pool is redirected to controlled pools
    driven by `chooser` (chooser=None: a chooser that always takes the default, i.e. an in-line FIFO pool):
    `multiprocessing.Pool`, `multiprocessing.pool.Pool`, `multiprocessing.get_context(...).Pool`, and inside every
    loaded module whose name starts with `module_prefix` any attribute bound to the `multiprocessing` module, to
    `multiprocessing.Pool` or to the `multiprocessing.pool.Pool` class (`import multiprocessing`, `import
    multiprocessing as mp`, `from multiprocessing import Pool`, `from multiprocessing.pool import Pool`).
    Pools support the whole Pool API (context manager, chunksize, map/starmap/imap/imap_unordered/apply_async/...).
    `.pools_created` counts the pools made inside the block."""

    def __init__(self, chooser=None, module_prefix="aotools"):
        self.chooser = chooser if chooser is not None else Chooser(())
        self.prefix = module_prefix
        self.saved = []
        self.pools_created = 0

    def __enter__(self):
        import multiprocessing as mp
        import multiprocessing.pool as mpp
        import sys
        outer = self
        set_current_chooser(self.chooser)
        fake = FakeMultiprocessing(self.chooser)

        def factory(processes=None, *a, **kw):
            outer.pools_created += 1
            return ControlledPool(outer.chooser, processes, *a, **kw)

        class _Ctx(object):
            Pool = staticmethod(factory)

            def __getattr__(self, name):
                return getattr(mp, name)

        class _FakeModule(object):
            """the multiprocessing module with its pools replaced (everything else is the real thing)"""
            Pool = staticmethod(factory)
            pool = None

            def get_context(self, method=None):
                return _Ctx()

            def __getattr__(self, name):
                return getattr(mp, name)
        fm = _FakeModule()

        class _FakePoolModule(object):
            Pool = staticmethod(factory)
            ThreadPool = staticmethod(factory)

            def __getattr__(self, name):
                return getattr(mpp, name)
        _FakeModule.pool = _FakePoolModule()
        self.fake_module = fm
        real_pool_fn, real_pool_cls, real_ctx = mp.Pool, mpp.Pool, mp.get_context
        for obj, name, new in ((mp, "Pool", factory), (mpp, "Pool", factory), (mp, "get_context", lambda method=None: _Ctx())):
            self.saved.append((obj, name, getattr(obj, name)))
            setattr(obj, name, new)
        mods = [m for n, m in list(sys.modules.items())
                if m is not None and (n == self.prefix or n.startswith(self.prefix + "."))]
        for m in mods:
            for k, v in list(vars(m).items()):
                new = None
                if v is mp:
                    new = fm
                elif v is mpp:
                    new = _FakeModule.pool
                elif v is real_pool_cls or getattr(v, "__func__", None) is getattr(real_pool_fn, "__func__", object()) or v is real_pool_fn:
                    new = factory
                elif v is real_ctx:
                    new = lambda method=None: _Ctx()
                if new is not None:
                    self.saved.append((m, k, v))
                    setattr(m, k, new)
        return self

    def __exit__(self, *exc):
        for m, k, v in reversed(self.saved):
            setattr(m, k, v)
        self.saved = []
        set_current_chooser(None)
        return False
