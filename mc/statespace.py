"""E3 - explicit-state search over operation histories on live objects.

A World is the complete mutable state an operation can read or write: a dict of live
objects, NumPy's global RandomState and the non-callable globals of the listed modules.
`key()` is its canonical hash; `snapshot()/restore()` copy it (copy.deepcopy of the
objects + numpy.random.get_state) so that a prefix never has to be replayed.

bfs(): breadth-first search from the initial world over an operation alphabet (which may
depend on the state), de-duplicating on key(); the caller's `on_transition` evaluates the
invariants on every transition (pre-state snapshot, op, post-state world, result).
If every transition out of a state is a self-loop the frontier empties and every longer
history is covered by induction (closure).
"""
import copy
import types

import numpy

from .core import digest


def obj_digest(o, _depth=0):
    """canonical digest of a python object graph made of arrays, scalars, containers,
    Generators and objects with __dict__"""
    if _depth > 6:
        return "deep"
    if isinstance(o, numpy.ndarray):
        return digest([str(o.dtype), o.shape, o.strides if not o.flags.c_contiguous else "C", o])
    if isinstance(o, numpy.random.Generator):
        return digest(repr(_gen_state(o)))
    if isinstance(o, (int, float, complex, str, bytes, bool, type(None), numpy.generic)):
        return repr(o)
    if isinstance(o, (list, tuple)):
        return digest([type(o).__name__] + [obj_digest(x, _depth + 1) for x in o])
    if isinstance(o, dict):
        return digest([[str(k), obj_digest(v, _depth + 1)] for k, v in sorted(o.items(), key=lambda kv: str(kv[0]))])
    if isinstance(o, (types.FunctionType, types.BuiltinFunctionType, types.ModuleType, type, types.MethodType)):
        return "callable:" + getattr(o, "__name__", "?")
    if hasattr(o, "__dict__"):
        return digest([type(o).__name__, obj_digest(vars(o), _depth + 1)])
    return repr(o)


def _gen_state(g):
    st = g.bit_generator.state
    return st


def module_globals_digest(mods):
    out = []
    for m in mods:
        for k, v in sorted(vars(m).items()):
            if k.startswith("__"):
                continue
            if isinstance(v, (types.FunctionType, types.BuiltinFunctionType, types.ModuleType, type)):
                continue
            if callable(v) and not isinstance(v, numpy.ndarray):
                continue
            out.append([m.__name__ + "." + k, obj_digest(v)])
    return digest(out)


class World(object):
    def __init__(self, objects=None, modules=()):
        self.objects = dict(objects or {})
        self.modules = tuple(modules)

    def components(self):
        """digest per component (to say WHAT changed)"""
        c = {"obj:" + k: obj_digest(v) for k, v in self.objects.items()}
        st = numpy.random.get_state()
        c["numpy.global_rng"] = digest([st[0], st[1], st[2], st[3], st[4]])
        if self.modules:
            c["module_globals"] = module_globals_digest(self.modules)
        return c

    def key(self):
        return digest(sorted(self.components().items()))

    def snapshot(self):
        return (copy.deepcopy(self.objects), numpy.random.get_state())

    def restore(self, snap):
        self.objects = copy.deepcopy(snap[0])
        numpy.random.set_state(snap[1])


def changed(before, after):
    return sorted(k for k in set(before) | set(after) if before.get(k) != after.get(k))


def bfs(world, alphabet, apply_op, on_transition, depth, max_states=None):
    """alphabet(world) -> list of ops (hashable, printable); apply_op(world, op) -> result.
    on_transition(hist, op, pre_components, world_after, result, is_self_loop).
    Returns dict(states, transitions, self_loops, max_depth, frontier_empty, capped)."""
    root = world.snapshot()
    world.restore(root)      # canonical form (deepcopy may change memory layout, e.g. views become arrays)
    seen = {world.key(): ()}
    frontier = [((), root)]
    transitions = self_loops = 0
    max_depth = 0
    capped = False
    for d in range(depth):
        nxt = []
        for hist, snap in frontier:
            world.restore(snap)
            ops = list(alphabet(world))
            for op in ops:
                world.restore(snap)
                pre = world.components()
                pre_key = digest(sorted(pre.items()))
                result = apply_op(world, op)
                transitions += 1
                k = world.key()
                loop = (k == pre_key)
                if loop:
                    self_loops += 1
                on_transition(hist, op, pre, world, result, loop)
                if k not in seen:
                    if max_states is not None and len(seen) >= max_states:
                        capped = True
                        continue
                    seen[k] = hist + (op,)
                    nxt.append((hist + (op,), world.snapshot()))
                    max_depth = max(max_depth, d + 1)
        frontier = nxt
        if not frontier:
            break
    return {"states": len(seen), "transitions": transitions, "self_loops": self_loops,
            "max_depth": max_depth, "frontier_empty": not frontier, "capped": capped}
