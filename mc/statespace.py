"""E3 - explicit-state search over operation histories on live objects.

A World is the complete mutable state an operation can read or write: a dict of live
objects, NumPy's global RandomState and the non-callable globals of the listed modules.
`key()` is its canonical hash; `snapshot()/restore()` copy it (copy.deepcopy of the
objects + numpy.random.get_state) so that a prefix never has to be replayed.

bfs(): breadth-first search from the initial world over an operation alphabet (which may
depend on the state), de-duplicating on key(); the caller's `on_transition` evaluates the
invariants on every transition (pre-state snapshot, op, post-state world, result).
If every transition out of a state is a self-loop the frontier empties and every longer
history is covered by induction (closure).
"""
import copy
import hashlib
import types

import numpy

from .core import digest


def _h(b):
    return hashlib.sha1(b).hexdigest()[:16]


def obj_digest(o, _depth=0):
    """canonical digest of a python object graph made of arrays, scalars, containers,
    Generators and objects with __dict__"""
    if _depth > 6:
        return "deep"
    if isinstance(o, numpy.ndarray):
        head = "%s%s%s" % (o.dtype.str, o.shape, "C" if o.flags.c_contiguous else o.strides)
        if o.dtype.hasobject:
            return _h((head + repr(o.tolist())).encode())
        h = hashlib.sha1(head.encode())
        h.update(o.tobytes() if not o.flags.c_contiguous else memoryview(o).cast("B") if o.size else b"")
        return h.hexdigest()[:16]
    if isinstance(o, numpy.random.Generator):
        return _h(repr(_gen_state(o)).encode())
    if isinstance(o, (int, float, complex, str, bytes, bool, type(None), numpy.generic)):
        return repr(o)
    if isinstance(o, (list, tuple)):
        return _h((type(o).__name__ + "[" + ",".join(obj_digest(x, _depth + 1) for x in o) + "]").encode())
    if isinstance(o, dict):
        items = sorted((str(k), obj_digest(v, _depth + 1)) for k, v in o.items())
        return _h(("{" + ",".join(k + ":" + v for k, v in items) + "}").encode())
    if isinstance(o, (types.FunctionType, types.BuiltinFunctionType, types.ModuleType, type, types.MethodType)):
        return "callable:" + getattr(o, "__name__", "?")
    if hasattr(o, "__dict__"):
        return _h((type(o).__name__ + obj_digest(vars(o), _depth + 1)).encode())
    return repr(o)


def _gen_state(g):
    st = g.bit_generator.state
    return st


_SKIP_TYPES = (types.FunctionType, types.BuiltinFunctionType, types.ModuleType, type)


def module_globals_digest(mods):
    out = []
    for m in mods:
        for k, v in vars(m).items():
            if k[:2] == "__" or isinstance(v, _SKIP_TYPES):
                continue
            if callable(v) and not isinstance(v, numpy.ndarray):
                continue
            out.append(m.__name__ + "." + k + "=" + obj_digest(v))
    out.sort()
    return digest("|".join(out))


class World(object):
    def __init__(self, objects=None, modules=()):
        self.objects = dict(objects or {})
        self.modules = tuple(modules)

    def components(self):
        """digest per component (to say WHAT changed)"""
        c = {"obj:" + k: obj_digest(v) for k, v in self.objects.items()}
        st = numpy.random.get_state()
        c["numpy.global_rng"] = digest([st[0], st[1], st[2], st[3], st[4]])
        if self.modules:
            c["module_globals"] = module_globals_digest(self.modules)
        c["process_settings"] = process_settings()
        return c

    def key(self):
        return digest(sorted(self.components().items()))

    def snapshot(self):
        return (copy.deepcopy(self.objects), numpy.random.get_state())

    def restore(self, snap):
        self.objects = copy.deepcopy(snap[0])
        numpy.random.set_state(snap[1])


def process_settings():
    """process-wide settings a library call could leave changed for everybody else (numpy error state and print
    options, number of warning filters, recursion limit, working directory)"""
    import os
    import sys
    import warnings
    po = numpy.get_printoptions()
    return repr((sorted(numpy.geterr().items()), sorted((k, repr(v)) for k, v in po.items()),
                 len(warnings.filters), sys.getrecursionlimit(), os.getcwd()))


def changed(before, after):
    return sorted(k for k in set(before) | set(after) if before.get(k) != after.get(k))


def bfs(world, alphabet, apply_op, on_transition, depth, max_states=None):
    """alphabet(world) -> list of ops (hashable, printable); apply_op(world, op) -> result.
    on_transition(hist, op, pre_components, world_after, result, is_self_loop).
    Returns dict(states, transitions, self_loops, max_depth, frontier_empty, capped)."""
    root = world.snapshot()
    world.restore(root)      # canonical form (deepcopy may change memory layout, e.g. views become arrays)
    seen = {world.key(): ()}
    frontier = [((), root)]
    transitions = self_loops = 0
    max_depth = 0
    capped = False
    for d in range(depth):
        nxt = []
        for hist, snap in frontier:
            world.restore(snap)
            ops = list(alphabet(world))
            # the components of the restored snapshot are the same for every operation tried from it
            pre = world.components()
            pre_key = digest(sorted(pre.items()))
            for op in ops:
                world.restore(snap)
                result = apply_op(world, op)
                transitions += 1
                k = world.key()
                loop = (k == pre_key)
                if loop:
                    self_loops += 1
                on_transition(hist, op, pre, world, result, loop)
                if k not in seen:
                    if max_states is not None and len(seen) >= max_states:
                        capped = True
                        continue
                    seen[k] = hist + (op,)
                    nxt.append((hist + (op,), world.snapshot()))
                    max_depth = max(max_depth, d + 1)
        frontier = nxt
        if not frontier:
            break
    return {"states": len(seen), "transitions": transitions, "self_loops": self_loops,
            "max_depth": max_depth, "frontier_empty": not frontier, "capped": capped}


# ----------------------------------------------------------------------------- process snapshots

def _claim(seen_dir, key, depth):
    """-> (expand, is_new): atomically record that state `key` was reached at `depth`"""
    import os
    path = os.path.join(seen_dir, key)
    try:
        fd = os.open(path, os.O_CREAT | os.O_EXCL | os.O_WRONLY, 0o600)
        os.write(fd, str(depth).encode())
        os.close(fd)
        return True, True
    except FileExistsError:
        try:
            old = int(open(path).read() or "0")
        except (OSError, ValueError):
            old = 0
        if depth < old:
            with open(path, "w") as f:
                f.write(str(depth))
            return True, False
        return False, False


def fork_search(world, alphabet, apply_op, check, depth, seen_dir, hist=()):
    """Explicit-state search in which a snapshot is an OS process: the state reached by a history is the
    process that executed it, and trying an operation means fork() + apply in the child.  Nothing is copied
    or re-created, so aliasing between live objects and any state hidden in modules (caches, 'current'
    generators) is preserved exactly - which copy.deepcopy snapshots cannot do.

    check(hist, op, pre_components, world, result, is_self_loop, out) records the invariants into `out`.
    De-duplication: the canonical key of every reached state is claimed in `seen_dir` together with the depth
    at which it was reached; a state is expanded when it is new or reached at a smaller depth than before.
    Returns (Out, stats) aggregated over the whole subtree."""
    import os
    import pickle
    import traceback
    from .core import Out
    out = Out()
    stats = {"states": 0, "transitions": 0, "self_loops": 0, "max_depth": len(hist)}
    if len(hist) >= depth:
        return out, stats
    for op in list(alphabet(world)):
        r, w = os.pipe()
        pid = os.fork()
        if pid == 0:
            code = 0
            try:
                os.close(r)
                cout = Out()
                cst = {"states": 0, "transitions": 1, "self_loops": 0, "max_depth": len(hist) + 1}
                try:
                    pre = world.components()
                    pre_key = digest(sorted(pre.items()))
                    result = apply_op(world, op)
                    key = world.key()
                    loop = key == pre_key
                    cst["self_loops"] = int(loop)
                    check(hist, op, pre, world, result, loop, cout)
                    expand, new = (False, False) if loop else _claim(seen_dir, key, len(hist) + 1)
                    cst["states"] += int(new)
                    if expand:
                        sub_out, sub_st = fork_search(world, alphabet, apply_op, check, depth, seen_dir, hist + (op,))
                        cout.merge(sub_out)
                        for k_, v_ in sub_st.items():
                            cst[k_] = max(cst[k_], v_) if k_ == "max_depth" else cst[k_] + v_
                except BaseException:
                    cout.check("no_exception", False, sub="h=%s" % ",".join(hist + (op,)),
                               detail=traceback.format_exc()[-1200:])
                with os.fdopen(w, "wb") as f:
                    pickle.dump((cout, cst), f)
            except BaseException:
                code = 3
            finally:
                try:
                    import multiprocessing
                    for c in multiprocessing.active_children():
                        c.terminate()
                except BaseException:
                    pass
                os._exit(code)
        os.close(w)
        with os.fdopen(r, "rb") as f:
            data = f.read()
        os.waitpid(pid, 0)
        if not data:
            out.check("no_exception", False, sub="h=%s" % ",".join(hist + (op,)), detail="child process died")
            continue
        cout, cst = pickle.loads(data)
        out.merge(cout)
        for k_, v_ in cst.items():
            stats[k_] = max(stats[k_], v_) if k_ == "max_depth" else stats[k_] + v_
    return out, stats
