"""Reference model of the covariance of Shack-Hartmann slopes through layered von Karman
turbulence, written from the statement of property C01 (not from the aotools code).

A *sensor* is a dict
    mask     2-D 0/1 array (active sub-apertures; ordering of slopes = row-major over the mask)
    d        sub-aperture diameter in the pupil [m]
    h_gs     guide-star altitude [m]; 0 means a natural guide star at infinity
    theta    guide-star direction (theta_0, theta_1) [arcsec]
    lam      wavelength of the sensor [m]
A *layer* is (h [m], r0 [m], L0 [m]).

Geometry (as stated for the builder): mask pixel (i0, i1) has its pupil-plane reference
point at  i*d - D/2 - d/2  (both coordinates; D = telescope diameter). At a layer at
altitude h the footprint is shrunk about the pupil origin by the cone factor
c = 1 - h/h_gs (LGS; c = 1 for an NGS) and translated by theta*h (theta in radians), and
the sub-aperture diameter becomes c*d.

Slope model: a slope along axis e (e_0 for "x", e_1 for "y") of a sub-aperture with
projected centre p and projected diameter w is the finite difference of the layer phase
across the sub-aperture, converted to an angle at the sensor wavelength:

    s = lam/(2 pi) * [phi(p + w/2 e) - phi(p - w/2 e)] / w .

Layers are independent, so

    Cov(s, t) = Sum_layers  lam_s lam_t / (4 pi^2 w_s w_t) *
                [B(a_s - a_t) - B(a_s - b_t) - B(b_s - a_t) + B(b_s - b_t)],

a = p + w/2 e ("plus" point), b = p - w/2 e ("minus" point), B the von Karman phase
covariance (refmodels/vonkarman.py). Ordering of the slope vector: sensor by sensor, within
a sensor all x-slopes then all y-slopes. The model works on the list of end points only: it
has no notion of blocks, separations, flips or mirroring."""
import math

import numpy

from . import vonkarman

ARCSEC = math.pi / 180.0 / 3600.0


def pupil_points(mask, d, D):
    """reference points of the active sub-apertures, row-major, shape (n, 2)"""
    idx = numpy.argwhere(numpy.asarray(mask) == 1).astype(float)
    return idx * d - D / 2.0 - d / 2.0


def cone_factor(h, h_gs):
    return 1.0 if h_gs == 0 else 1.0 - h / float(h_gs)


def slope_endpoints(sensor, D, h):
    """-> (plus, minus, weight): end points of every slope of the sensor at altitude h
    (x-slopes first, then y-slopes), each (2n, 2), and the factor lam/(2 pi w)."""
    c = cone_factor(h, sensor["h_gs"])
    p = pupil_points(sensor["mask"], sensor["d"], D) * c
    p = p + numpy.asarray(sensor["theta"], dtype=float) * ARCSEC * h
    w = sensor["d"] * c
    plus, minus = [], []
    for axis in (0, 1):
        e = numpy.zeros(2)
        e[axis] = 0.5 * w
        plus.append(p + e)
        minus.append(p - e)
    return numpy.concatenate(plus), numpy.concatenate(minus), sensor["lam"] / (2.0 * math.pi * w)


def _dist(a, b):
    diff = a[:, None, :] - b[None, :, :]
    return numpy.sqrt(diff[..., 0] ** 2 + diff[..., 1] ** 2)


def layer_covariance(sensors, D, layer):
    """float64 covariance matrix of all slopes of all sensors through one layer"""
    h, r0, L0 = layer
    A, Bm, W = [], [], []
    for s in sensors:
        a, b, w = slope_endpoints(s, D, h)
        A.append(a)
        Bm.append(b)
        W.append(numpy.full(len(a), w))
    A = numpy.concatenate(A)
    Bm = numpy.concatenate(Bm)
    W = numpy.concatenate(W)
    cov = lambda r: vonkarman.covariance(r, r0, L0)
    core = cov(_dist(A, A)) - cov(_dist(A, Bm)) - cov(_dist(Bm, A)) + cov(_dist(Bm, Bm))
    return W[:, None] * W[None, :] * core


def slope_covariance(sensors, D, layers):
    return sum(layer_covariance(sensors, D, l) for l in layers)


def slope_index(sensors):
    """list of (sensor, axis, subap) labels in matrix order"""
    out = []
    for k, s in enumerate(sensors):
        n = int(numpy.asarray(s["mask"]).sum())
        for axis in "xy":
            out.extend((k, axis, j) for j in range(n))
    return out


def block_slices(sensors):
    """{(i, 'x'|'y'): slice} of the rows of sensor i / axis in the matrix"""
    out, pos = {}, 0
    for k, s in enumerate(sensors):
        n = int(numpy.asarray(s["mask"]).sum())
        out[(k, "x")] = slice(pos, pos + n)
        out[(k, "y")] = slice(pos + n, pos + 2 * n)
        pos += 2 * n
    return out


# ---------------------------------------------------------------- minimum-variance estimator

def retained_projector(C, rcond):
    """orthogonal projector on the eigen-directions of the symmetric PSD matrix C whose
    eigenvalue exceeds rcond * largest eigenvalue (the singular subspace a truncated
    pseudo-inverse keeps); also returns the eigenvalues and the relative gap at the cut."""
    C = numpy.asarray(C, dtype=float)
    w, V = numpy.linalg.eigh(0.5 * (C + C.T))
    wmax = float(numpy.max(numpy.abs(w))) if w.size else 0.0
    keep = numpy.abs(w) > rcond * wmax
    if wmax == 0.0:
        keep[:] = False
    Vk = V[:, keep]
    return Vk @ Vk.T, w, keep


def residual_variance(R, Coo, Cof, Cff):
    """J(R) = E|s_on - R s_off|^2 = tr(Coo - R Cfo - Cof R^T + R Cff R^T)"""
    return float(numpy.trace(Coo - R @ Cof.T - Cof @ R.T + R @ Cff @ R.T))
