"""Reference models for C16: block sums, zoom grids / polynomials, encircled-energy crossing.

Written from the statement: binning by n returns the n x n block sums; a zoom of an
(n x n) array to `new` samples evaluates the interpolant on the grid
u_p = p (n-1)/(new-1), p = 0..new-1, of pixel coordinates (the first and last samples
coincide with the first and last input samples), axis 0 of the output following axis 0 of
the input.
"""
from fractions import Fraction

import numpy


# ----------------------------------------------------------------------------- binning

def block_sum(data, n):
    """out[..., I, J] = sum_{i,j<n} data[..., I n + i, J n + j]  (explicit loops, exact for ints)"""
    d = numpy.asarray(data)
    H, W = d.shape[-2], d.shape[-1]
    if H % n or W % n:
        raise ValueError("shape not divisible")
    out = numpy.zeros(d.shape[:-2] + (H // n, W // n), dtype=d.dtype)
    for I in range(H // n):
        for J in range(W // n):
            acc = numpy.zeros(d.shape[:-2], dtype=d.dtype)
            for i in range(n):
                for j in range(n):
                    acc = acc + d[..., I * n + i, J * n + j]
            out[..., I, J] = acc
    return out


def block_sum_operator(shape, n):
    """0/1 matrix B with vec(block_sum(x)) = B vec(x) for arrays of `shape` (row-major)"""
    size = int(numpy.prod(shape))
    cols = []
    for k in range(size):
        e = numpy.zeros(size, dtype=numpy.int64)
        e[k] = 1
        cols.append(block_sum(e.reshape(shape), n).reshape(-1))
    return numpy.array(cols).T


# ----------------------------------------------------------------------------- zoom

def zoom_grid(n, new):
    """pixel coordinates (Fractions) of the `new` output samples along an axis of n input samples"""
    if new == 1:
        return [Fraction(0)]
    return [Fraction(p * (n - 1), new - 1) for p in range(new)]


def node_stride(n, new):
    """k such that output sample k*i is input sample i for every i (new grid contains the old
    nodes), or None"""
    if new == n:
        return 1
    if n > 1 and (new - 1) % (n - 1) == 0:
        return (new - 1) // (n - 1)
    return None


def monomial(n0, n1, a, b):
    """input samples of x^a y^b, x = index along axis 0, y = index along axis 1 (exact integers as float)"""
    i = numpy.arange(n0, dtype=float)[:, None]
    j = numpy.arange(n1, dtype=float)[None, :]
    return (i ** a) * (j ** b)


def monomial_on_grid(gu, gv, a, b):
    """x^a y^b on the product grid gu x gv of Fractions -> float array (each entry correctly rounded)"""
    return numpy.array([[float(u ** a * v ** b) for v in gv] for u in gu])


# ----------------------------------------------------------------------------- encircled energy

def crossing_grid_points(xi, yi, f):
    """indices of the grid points that are end points of a segment of the piecewise-linear curve
    (xi, yi) on which the curve takes the value f (empty when the curve never reaches f)"""
    ok = set()
    for j in range(len(xi) - 1):
        lo, hi = (yi[j], yi[j + 1]) if yi[j] <= yi[j + 1] else (yi[j + 1], yi[j])
        if lo <= f <= hi:
            ok.add(j)
            ok.add(j + 1)
    return ok


def nearest_values(yi, f):
    """the largest curve value <= f and the smallest >= f (None when absent)"""
    below = [v for v in yi if v <= f]
    above = [v for v in yi if v >= f]
    return (max(below) if below else None), (min(above) if above else None)
