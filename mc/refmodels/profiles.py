"""Reference model for turbulence-profile compression (brute force, boring).

Groupings are contiguous partitions of the N input layers into L groups, written as the
sorted tuple of split indices s_1 < ... < s_{L-1} (group boundaries after layer s_i).
Cost (Saxenhuber et al. 2017, eq. 7): sum over groups of min_k sum_i p_i |h_i - h_k|.
"""
import itertools

import numpy


def groups_of(splits, N):
    edges = [-1] + list(splits) + [N - 1]
    return [list(range(edges[i] + 1, edges[i + 1] + 1)) for i in range(len(edges) - 1)]


def group_cost(h, p, group):
    return min(sum(p[i] * abs(h[i] - h[k]) for i in group) for k in group)


def cost_of_splits(h, p, splits):
    return float(sum(group_cost(h, p, g) for g in groups_of(splits, len(p))))


def all_splits(N, L):
    return itertools.combinations(range(N - 1), L - 1)


def brute_force_optimum(h, p, L):
    return min(cost_of_splits(h, p, s) for s in all_splits(len(p), L))


def equal_split(N, L):
    """the documented '(approximately) equal split' starting grouping"""
    return tuple(int(x) for x in numpy.linspace(0, N, L + 1, dtype=int)[1:-1])


def cost_of_output(h, p, h_out, cn2_out):
    """cost of a compressed profile, if it is explained by a contiguous partition whose group
    sums are cn2_out and whose heights h_out lie inside the respective groups; else None"""
    N, L = len(p), len(cn2_out)
    best = None
    tot = float(numpy.sum(p))
    for s in all_splits(N, L):
        gs = groups_of(s, N)
        ok = True
        c = 0.0
        for g, ho, co in zip(gs, h_out, cn2_out):
            if abs(sum(p[i] for i in g) - co) > 1e-9 * tot:
                ok = False
                break
            if not any(h[i] == ho for i in g):
                ok = False
                break
            c += sum(p[i] * abs(h[i] - ho) for i in g)
        if ok and (best is None or c < best):
            best = float(c)
    return best


def slab_index(h, L):
    """index of the equal-thickness slab [hmin + i*step, hmin + (i+1)*step) holding each layer;
    the top layer belongs to the last slab"""
    h = numpy.asarray(h, float)
    hmin, hmax = h.min(), h.max()
    step = (hmax - hmin) / L
    idx = numpy.floor((h - hmin) / step).astype(int)
    return numpy.minimum(idx, L - 1)


def slabs_all_nonempty(h, L):
    if numpy.max(h) == numpy.min(h):
        return L == 1
    idx = slab_index(h, L)
    return all(numpy.any(idx == i) for i in range(L))


def equivalent_layers(h, p, L):
    idx = slab_index(h, L)
    hL, cL = numpy.zeros(L), numpy.zeros(L)
    for i in range(L):
        m = idx == i
        cL[i] = p[m].sum()
        if cL[i] > 0:
            hL[i] = ((p[m] * h[m] ** (5. / 3)).sum() / cL[i]) ** (3. / 5)
    return hL, cL


def moments(h, p, L):
    return numpy.array([(p * h ** i).sum() for i in range(2 * L - 1)])
