"""Reference von Karman turbulence statistics, written from the textbook formulas
(Conan 2000; Assemat, Wilson & Gendron 2006; Hardy 1998), independently of aotools.

Model (phase in radians at the wavelength where r0 is given):

    power spectrum   Phi(f)  = c_phi r0^(-5/3) (f^2 + 1/L0^2)^(-11/6)           [f in 1/m]
                     c_phi   = (24/5 Gamma(6/5))^(5/6) Gamma(11/6)^2 / (2 pi^(11/3)) = 0.022895...
    covariance       B(r)    = c_B (L0/r0)^(5/3) x^(5/6) K_{5/6}(x),  x = 2 pi r / L0
                     c_B     = Gamma(11/6) 2^(-5/6) pi^(-8/3) (24/5 Gamma(6/5))^(5/6)
    variance         B(0)    = c_B 2^(-1/6) Gamma(5/6) (L0/r0)^(5/3) = 0.08631... (L0/r0)^(5/3)
    structure fn     D(r)    = 2 (B(0) - B(r))
    Kolmogorov       D_K(r)  = c_K (r/r0)^(5/3),  c_K = 2 (24/5 Gamma(6/5))^(5/6) = 6.8839...

The Hankel route evaluates  D(r) = 4 pi Int_0^inf Phi(f) (1 - J0(2 pi f r)) f df  by plain
Gauss-Legendre quadrature (no Bessel-K anywhere), so it is an independent path from the
power spectrum to the structure function.
"""
import math
import numpy
from scipy.special import gamma, kv, j0

C_PHI = (24.0 / 5.0 * gamma(6.0 / 5.0)) ** (5.0 / 6.0) * gamma(11.0 / 6.0) ** 2 / (2.0 * math.pi ** (11.0 / 3.0))
C_B = gamma(11.0 / 6.0) * 2.0 ** (-5.0 / 6.0) * math.pi ** (-8.0 / 3.0) * (24.0 / 5.0 * gamma(6.0 / 5.0)) ** (5.0 / 6.0)
C_VAR = C_B * 2.0 ** (-1.0 / 6.0) * gamma(5.0 / 6.0)          # B(0) / (L0/r0)^(5/3)
C_KOLMO = 2.0 * (24.0 / 5.0 * gamma(6.0 / 5.0)) ** (5.0 / 6.0)

# published (rounded) constants quoted by the property statement
PUB_KOLMO = 6.88
PUB_VAR = 0.0863


def psd(f, r0, L0, c=C_PHI):
    f = numpy.asarray(f, dtype=float)
    return c * r0 ** (-5.0 / 3.0) * (f * f + 1.0 / (L0 * L0)) ** (-11.0 / 6.0)


def variance(r0, L0):
    return C_VAR * (L0 / r0) ** (5.0 / 3.0)


def covariance(r, r0, L0):
    """B(r); the removable singularity at r = 0 is filled with the variance."""
    r = numpy.asarray(r, dtype=float)
    x = 2.0 * math.pi * r / L0
    out = numpy.full(r.shape, variance(r0, L0))
    nz = x > 0
    xs = x[nz]
    with numpy.errstate(over="ignore", invalid="ignore", under="ignore"):
        v = C_B * (L0 / r0) ** (5.0 / 3.0) * xs ** (5.0 / 6.0) * kv(5.0 / 6.0, xs)
    # x -> 0: x^(5/6) K_{5/6}(x) -> 2^(-1/6) Gamma(5/6); kv overflows only for x < 1e-300
    v = numpy.where(numpy.isfinite(v), v, variance(r0, L0))
    out[nz] = v
    return out


def _small_x_series(x):
    """x^(5/6) K_{5/6}(x) - 2^(-1/6) Gamma(5/6) for small x without cancellation:
    K_nu(x) = pi/2 (I_{-nu} - I_nu)/sin(nu pi); leading terms of both series."""
    nu = 5.0 / 6.0
    s = math.pi / (2.0 * math.sin(nu * math.pi))
    h = x / 2.0
    # x^nu I_{-nu}(x) = 2^nu sum_k h^(2k) / (k! Gamma(k - nu + 1)); drop k = 0 (the constant)
    a = 2.0 ** nu * (h ** 2 / gamma(2.0 - nu) + h ** 4 / (2.0 * gamma(3.0 - nu)))
    # x^nu I_nu(x) = 2^nu h^(2 nu) sum_k h^(2k) / (k! Gamma(k + nu + 1))
    b = 2.0 ** nu * h ** (2 * nu) * (1.0 / gamma(1.0 + nu) + h ** 2 / gamma(2.0 + nu)
                                     + h ** 4 / (2.0 * gamma(3.0 + nu)))
    return s * (a - b)


def structure_function(r, r0, L0):
    """D(r) = 2 (B(0) - B(r)); uses the small-argument series where the difference would
    cancel in floating point (x < 1e-2), exact 0 at r = 0."""
    r = numpy.asarray(r, dtype=float)
    x = 2.0 * math.pi * r / L0
    out = numpy.zeros(r.shape)
    big = x >= 1e-2
    out[big] = 2.0 * (variance(r0, L0) - covariance(r[big], r0, L0))
    sm = (x > 0) & ~big
    out[sm] = -2.0 * C_B * (L0 / r0) ** (5.0 / 3.0) * _small_x_series(x[sm])
    return out


def kolmogorov(r, r0, c=C_KOLMO):
    return c * (numpy.asarray(r, dtype=float) / r0) ** (5.0 / 3.0)


# ------------------------------------------------------------------ Hankel quadrature

_GL_X, _GL_W = numpy.polynomial.legendre.leggauss(16)


def _one_minus_j0(x):
    x = numpy.asarray(x, dtype=float)
    small = x < 1e-2
    xs = numpy.where(small, x, 0.0)
    ser = xs ** 2 / 4.0 - xs ** 4 / 64.0 + xs ** 6 / 2304.0
    return numpy.where(small, ser, 1.0 - j0(x))


def _gl(fun, a, b):
    """sum of 16-point Gauss-Legendre over the panels [a_i, b_i] (arrays)."""
    a = numpy.asarray(a, dtype=float)[:, None]
    b = numpy.asarray(b, dtype=float)[:, None]
    t = 0.5 * (b + a) + 0.5 * (b - a) * _GL_X[None, :]
    return float(numpy.sum(0.5 * (b - a) * _GL_W[None, :] * fun(t)))


def hankel_structure_function(r, r0, L0, c=C_PHI, info=None):
    """4 pi Int_0^inf Phi(f)(1 - J0(2 pi f r)) f df for one scalar r > 0.

    Split at x = 2 pi f r = X1 (before the first zero of J0):
      [0, X1]     smooth, integrated in ln f on panels of 0.5 (from 70 e-folds below)
      [X1, XB]    Int Phi f df has an elementary antiderivative; Int Phi J0 f df is summed
                  over panels of width pi/2 in x
      [XB, inf)   the oscillatory remainder is dropped; an envelope bound of its size is
                  returned through `info` (always < 1e-6 of the result for the ranges used).
    """
    r = float(r)
    if r == 0.0:
        return 0.0
    f0 = 1.0 / L0
    amp = c * r0 ** (-5.0 / 3.0)
    g = lambda f: (f * f + f0 * f0) ** (-11.0 / 6.0)
    k = 2.0 * math.pi * r
    X1 = 2.0
    F1 = X1 / k
    # smooth part in u = ln f
    edges = numpy.arange(math.log(F1) - 70.0, math.log(F1) + 1e-12, 0.5)
    edges[-1] = math.log(F1)

    def smooth(u):
        f = numpy.exp(u)
        return g(f) * _one_minus_j0(k * f) * f * f
    I1 = _gl(smooth, edges[:-1], edges[1:])
    # below the first panel the integrand is ~ g(0) (k f)^2/4 f: negligible (e^-280)
    XB = max(k * 40.0 * f0, 4000.0 * math.pi)
    n = int(math.ceil((XB - X1) / (0.5 * math.pi)))
    xe = X1 + (XB - X1) * numpy.arange(n + 1) / n
    fe = xe / k
    FB = fe[-1]
    Iosc = 0.0
    chunk = 200000
    lo, hi = fe[:-1], fe[1:]
    for s in range(0, n, chunk):
        Iosc += _gl(lambda f: g(f) * j0(k * f) * f, lo[s:s + chunk], hi[s:s + chunk])
    Itail = 0.6 * (F1 * F1 + f0 * f0) ** (-5.0 / 6.0)      # Int_F1^inf f (f^2+f0^2)^(-11/6) df
    total = 4.0 * math.pi * amp * (I1 + Itail - Iosc)
    if info is not None:
        info["trunc_bound"] = 4.0 * math.pi * amp * g(FB) * FB / k * math.sqrt(2.0 / (math.pi * XB))
        info["panels"] = n + len(edges) - 1
    return total


# ------------------------------------------------------------------ discrete screens

def screen_psd(f, r0, L0, l0, c):
    """modified von Karman spectrum as sampled by an FFT screen generator (Schmidt 2010):
    c r0^(-5/3) exp(-(f/fm)^2) (f^2 + f0^2)^(-11/6), fm = 5.92/(2 pi l0)."""
    f = numpy.asarray(f, dtype=float)
    fm = 5.92 / l0 / (2.0 * math.pi)
    return c * r0 ** (-5.0 / 3.0) * numpy.exp(-(f / fm) ** 2) * (f * f + 1.0 / (L0 * L0)) ** (-11.0 / 6.0)
