"""Reference implementations of the empirical estimators of property C19, written from the
definitions in the property statement (explicit sums, no FFT, no aotools code).

structure function    sf[j] = mean over all rows r with r + j*step < a and all columns c of
                              (phase[r, c] - phase[r + j*step, c])^2 ;   sf[0] = 0
temporal power spectrum   P[..., k] = mean over sub-apertures c of | sum_t x[..., t, c] exp(-2 pi i k t / n) |^2
                          for the bins k = 0 .. floor(n/2) - 1 ;  frequency axis f_k = k * rate / n
"""
import functools
import math
import numpy


def structure_function_lag(phase, shift):
    """mean squared difference at a shift (in pixels) along the first axis; python loops."""
    a = len(phase)
    b = len(phase[0])
    if shift == 0:
        return 0.0
    if shift >= a:
        return float("nan")            # no overlapping pair: undefined
    tot = 0.0
    cnt = 0
    for r in range(a - shift):
        for c in range(b):
            d = float(phase[r][c]) - float(phase[r + shift][c])
            tot += d * d
            cnt += 1
    return tot / cnt


def structure_function(phase, nlags, step):
    return [structure_function_lag(phase, j * step) for j in range(nlags)]


def structure_function_lag_fast(phase, shift):
    """the same definition, vectorised (used for the large screen operators only; agreement
    with the loop version is asserted by the check on every small case)"""
    phase = numpy.asarray(phase, dtype=float)
    if shift == 0:
        return 0.0
    if shift >= phase.shape[0]:
        return float("nan")
    d = phase[:phase.shape[0] - shift] - phase[shift:]
    return float(numpy.sum(d * d) / d.size)


def dft_matrix(n, nbins, first=0):
    """see _dft_matrix; small matrices are kept (read-only) because the checks ask for the same one many times"""
    if n * nbins <= 1 << 18:
        return _dft_matrix_cached(n, nbins, first)
    return _dft_matrix(n, nbins, first)


@functools.lru_cache(maxsize=4)
def _dft_matrix_cached(n, nbins, first):
    W = _dft_matrix(n, nbins, first)
    W.flags.writeable = False
    return W


def _dft_matrix(n, nbins, first=0):
    """rows first .. first+nbins-1 of the DFT matrix.  The product k*t is reduced mod n (exact integer arithmetic)
    BEFORE the phase is formed: exp(-2 pi i k t / n) has period n in k*t, and without the reduction the rounding
    error of the phase grows like n (1e-13 at n = 1000); with it every entry is accurate to ~1e-16 for any n."""
    t = numpy.arange(n, dtype=numpy.int64)
    k = numpy.arange(first, first + nbins, dtype=numpy.int64)
    return numpy.exp(-2j * math.pi * ((numpy.outer(k, t) % n) / float(n)))


def temporal_power_spectrum(x, nbins=None, block=256):
    """x: array (..., n_frames, n_subaps) -> (..., nbins) by an explicit DFT sum (bins k = 0 .. nbins-1;
    default floor(n/2) bins).  The DFT matrix is built in blocks of rows so that long records stay cheap."""
    x = numpy.asarray(x, dtype=float)
    n = x.shape[-2]
    nb = n // 2 if nbins is None else int(nbins)
    out = numpy.zeros(x.shape[:-2] + (nb,))
    for k0 in range(0, nb, block):
        W = dft_matrix(n, min(block, nb - k0), k0)          # (rows, n)
        X = numpy.matmul(W, x)                              # (..., rows, c)
        P = X.real ** 2 + X.imag ** 2
        out[..., k0:k0 + W.shape[0]] = P.sum(axis=-1) / x.shape[-1]
    return out


def frequency_axis(rate, n):
    return [k * rate / n for k in range(n // 2)]
