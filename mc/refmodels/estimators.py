"""Reference implementations of the empirical estimators of property C19, written from the
definitions in the property statement (explicit sums, no FFT, no aotools code).

structure function    sf[j] = mean over all rows r with r + j*step < a and all columns c of
                              (phase[r, c] - phase[r + j*step, c])^2 ;   sf[0] = 0
temporal power spectrum   P[..., k] = mean over sub-apertures c of | sum_t x[..., t, c] exp(-2 pi i k t / n) |^2
                          for the bins k = 0 .. floor(n/2) - 1 ;  frequency axis f_k = k * rate / n
"""
import math
import numpy


def structure_function_lag(phase, shift):
    """mean squared difference at a shift (in pixels) along the first axis; python loops."""
    a = len(phase)
    b = len(phase[0])
    if shift == 0:
        return 0.0
    if shift >= a:
        return float("nan")            # no overlapping pair: undefined
    tot = 0.0
    cnt = 0
    for r in range(a - shift):
        for c in range(b):
            d = float(phase[r][c]) - float(phase[r + shift][c])
            tot += d * d
            cnt += 1
    return tot / cnt


def structure_function(phase, nlags, step):
    return [structure_function_lag(phase, j * step) for j in range(nlags)]


def structure_function_lag_fast(phase, shift):
    """the same definition, vectorised (used for the large screen operators only; agreement
    with the loop version is asserted by the check on every small case)"""
    phase = numpy.asarray(phase, dtype=float)
    if shift == 0:
        return 0.0
    if shift >= phase.shape[0]:
        return float("nan")
    d = phase[:phase.shape[0] - shift] - phase[shift:]
    return float(numpy.sum(d * d) / d.size)


def dft_matrix(n, nbins):
    t = numpy.arange(n)
    k = numpy.arange(nbins)
    return numpy.exp(-2j * math.pi * numpy.outer(k, t) / n)


def temporal_power_spectrum(x):
    """x: array (..., n_frames, n_subaps) -> (..., floor(n/2)) by an explicit DFT sum."""
    x = numpy.asarray(x, dtype=float)
    n = x.shape[-2]
    nb = n // 2
    W = dft_matrix(n, nb)                                   # (nb, n)
    X = numpy.einsum("kt,...tc->...kc", W, x)
    P = X.real ** 2 + X.imag ** 2
    return P.sum(axis=-1) / x.shape[-1]


def frequency_axis(rate, n):
    return [k * rate / n for k in range(n // 2)]
