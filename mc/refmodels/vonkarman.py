"""Reference von Karman phase statistics for the slope-covariance checks (C01/C02).

Written from the textbook model (Conan 2000, "Etude de la formation d'images ...", and
Assemat, Wilson & Gendron 2006), independently of the aotools sources.

Phase phi in radians at the wavelength at which r0 is quoted; spatial frequency f in 1/m:

    power spectrum   W(f) = C_W r0^(-5/3) (f^2 + L0^-2)^(-11/6)
                     C_W  = (24/5 Gamma(6/5))^(5/6) Gamma(11/6)^2 / (2 pi^(11/3))   (= 0.02290)
    covariance       B(r) = 2 pi Int_0^inf W(f) J0(2 pi f r) f df
                          = C_W r0^(-5/3) * 2 pi^(11/6)/Gamma(11/6) * (r L0)^(5/6) K_{5/6}(2 pi r/L0)
                     (Hankel transform pair of (f^2+a^2)^(-mu-1), Gradshteyn 6.565.4)
    variance         B(0) = 2 pi C_W r0^(-5/3) Int_0^inf (f^2+L0^-2)^(-11/6) f df
                          = (6 pi / 5) C_W (L0/r0)^(5/3)           (elementary integral)
    structure fn     D(r) = 2 (B(0) - B(r))

B(0) is taken from the elementary integral of the spectrum, not from the small-argument
limit of the Bessel form, so `selfcheck()` can compare the two routes (and a brute-force
Hankel quadrature at a few separations)."""
import math

import numpy
from scipy.special import gamma, kv, j0

NU = 5.0 / 6.0
C_W = (24.0 / 5.0 * gamma(6.0 / 5.0)) ** NU * gamma(11.0 / 6.0) ** 2 / (2.0 * math.pi ** (11.0 / 3.0))
C_B0 = 6.0 * math.pi / 5.0 * C_W                     # B(0) = C_B0 (L0/r0)^(5/3)


def psd(f, r0, L0):
    f = numpy.asarray(f, dtype=float)
    return C_W * r0 ** (-5.0 / 3.0) * (f * f + L0 ** -2.0) ** (-11.0 / 6.0)


def variance(r0, L0):
    """B(0)"""
    return C_B0 * (L0 / r0) ** (5.0 / 3.0)


def covariance(r, r0, L0):
    """B(r) for an array of separations r >= 0 (float64); B(0) at r == 0 exactly."""
    r = numpy.abs(numpy.asarray(r, dtype=float))
    out = numpy.empty(r.shape)
    zero = r < 1e-280
    out[zero] = variance(r0, L0)
    rr = r[~zero]
    amp = C_W * r0 ** (-5.0 / 3.0) * 2.0 * math.pi ** (11.0 / 6.0) / gamma(11.0 / 6.0)
    out[~zero] = amp * (rr * L0) ** NU * kv(NU, 2.0 * math.pi * rr / L0)
    return out


def structure_function(r, r0, L0):
    """D(r) = 2 (B(0) - B(r)); D(0) = 0."""
    return 2.0 * (variance(r0, L0) - covariance(r, r0, L0))


def hankel_covariance(r, r0, L0, fmax_over_f0=4.0e4, n=2000001):
    """B(r) by brute-force quadrature of 2 pi W(f) J0(2 pi f r) f df (Simpson in
    u = asinh(f L0), truncated at fmax); no Bessel-K involved. For self checks only."""
    f0 = 1.0 / L0
    u = numpy.linspace(0.0, math.asinh(fmax_over_f0), n)
    f = f0 * numpy.sinh(u)
    y = 2.0 * math.pi * psd(f, r0, L0) * j0(2.0 * math.pi * f * r) * f * f0 * numpy.cosh(u)
    h = u[1] - u[0]
    return float(h / 3.0 * (y[0] + y[-1] + 4.0 * y[1:-1:2].sum() + 2.0 * y[2:-1:2].sum()))


def selfcheck():
    """-> worst relative disagreement between the closed forms and the quadrature routes."""
    worst = 0.0
    for r0, L0 in ((0.2, 25.0), (0.3, 10.0), (0.5, 100.0)):
        b0 = variance(r0, L0)
        # Bessel form just above zero must meet the elementary-integral variance
        worst = max(worst, abs(float(covariance(numpy.array([1e-12]), r0, L0)[0]) - b0) / b0)
        for r in (0.1, 0.7, 3.0):
            ref = hankel_covariance(r, r0, L0)
            worst = max(worst, abs(float(covariance(numpy.array([r]), r0, L0)[0]) - ref) / b0)
    return worst
