"""Reference atmospheric / photometric conversions from the textbook formulas
(Roddier 1981; Hardy 1998 ch. 3; Bessell 1979 zero points), independent of aotools.

All quantities SI; angles returned in arcseconds where noted.

    Fried parameter      r0     = [0.423 k^2 J]^(-3/5),           k = 2 pi / lambda, J = Int Cn2 dh
    seeing (FWHM)        eps    = 0.98 lambda / r0                [rad]
    isoplanatic angle    theta0 = [2.914 k^2 Int Cn2 h^(5/3) dh]^(-3/5) = 0.314 r0 / h_eff
    coherence time       tau0   = [2.914 k^2 Int Cn2 v^(5/3) dh]^(-3/5) = 0.314 r0 / v_eff
    Rytov variance       s2     = 2.25 k^(7/6) Int Cn2 h^(5/6) dh
    slope variance       s2     = 0.162 lambda^2 r0^(-5/3) d^(-1/3)   (Saint-Jacques 1998)
    photon flux          N      = F0[Jy] 10^(-0.4 m) 1.51e7 (dlambda/lambda)   [photons / s / m^2]
"""
import math

ARCSEC = 180.0 * 3600.0 / math.pi      # arcseconds per radian


def r0_from_cn2(J, lam):
    return (0.423 * (2.0 * math.pi / lam) ** 2 * J) ** (-3.0 / 5.0)


def seeing_from_r0(r0, lam):
    return 0.98 * lam / r0 * ARCSEC


def _moment(cn2, w, power):
    """explicit loop: sum_i cn2_i w_i^power"""
    tot = 0.0
    for c, x in zip(cn2, w):
        tot += float(c) * float(x) ** power
    return tot


def isoplanatic_angle(cn2, h, lam):
    """arcseconds; cn2, h sequences of one profile"""
    k = 2.0 * math.pi / lam
    return (2.914 * k * k * _moment(cn2, h, 5.0 / 3.0)) ** (-3.0 / 5.0) * ARCSEC


def coherence_time(cn2, v, lam):
    k = 2.0 * math.pi / lam
    return (2.914 * k * k * _moment(cn2, v, 5.0 / 3.0)) ** (-3.0 / 5.0)


def rytov(cn2, h, lam):
    k = 2.0 * math.pi / lam
    return 2.25 * k ** (7.0 / 6.0) * _moment(cn2, h, 5.0 / 6.0)


def slope_variance(r0, lam, d):
    return 0.162 * lam ** 2 * r0 ** (-5.0 / 3.0) * d ** (-1.0 / 3.0)


def population_variance(seq):
    n = len(seq)
    m = sum(seq) / n
    return sum((x - m) ** 2 for x in seq) / n
