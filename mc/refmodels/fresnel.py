"""Reference models for paraxial (Fresnel) propagation, written from textbook formulas and
independently of aotools (no FFT is used anywhere in this file).

Conventions: time dependence exp(-i w t), i.e. a diverging wave is exp(+i k r^2 / 2z); the
carrier exp(i k z) is omitted (slowly varying envelope).  Arrays are indexed [y, x]; the
sample with index j along an axis of an N-point grid of spacing d sits at (j - N//2) * d.

* Fresnel integral     U2(x2) = 1/(i lambda z) * Int U1(x1) exp(i pi (x2 - x1)^2 / (lambda z)) dx1   (2-D: product)
* Gaussian beam        U(r, z) = (-i zR / q) exp(i k r^2 / (2 q)),  q = z - i zR,  zR = pi w0^2 / lambda
                       (complex beam parameter; q -> q + z under free propagation, amplitude q1/q2)
* Airy pattern         I(r)/I(0) = (2 J1(v)/v)^2,  v = k a r / f;  I(0) = (pi a^2 / (lambda f))^2
                       encircled energy  1 - J0(v)^2 - J1(v)^2
"""
import numpy
from scipy import special

FIRST_DARK_RING = 3.8317059702075125   # first positive zero of J1
SECOND_DARK_RING = 7.015586669815619


def coords(N, d):
    return (numpy.arange(N) - N // 2) * d


# --------------------------------------------------------------------------- Fresnel integral

def fresnel_matrix_1d(N, wvl, d_in, d_out, z):
    """Riemann-sum discretisation of the 1-D Fresnel integral from the grid of spacing d_in to
    the grid of spacing d_out (which may be negative: samples at (j - N//2) * d_out).
    The 2-D operator on row-major flattened fields is kron(K, K)."""
    x1 = coords(N, d_in)
    x2 = coords(N, d_out)
    amp = 1.0 / numpy.sqrt(1j * wvl * z + 0j)       # (1/(i lambda z))^(1/2), principal branch
    return amp * numpy.exp(1j * numpy.pi * (x2[:, None] - x1[None, :]) ** 2 / (wvl * z)) * abs(d_in)


def fresnel_matrix_2d(N, wvl, d_in, d_out, z):
    K = fresnel_matrix_1d(N, wvl, d_in, d_out, z)
    # (1/sqrt(i lambda z))^2 = 1/(i lambda z) for either sign of z
    return numpy.kron(K, K)


def lens_phase(N, wvl, d, f):
    """transmission of a thin lens of focal length f: exp(-i k r^2 / 2f), flattened"""
    x = coords(N, d)
    r2 = x[None, :] ** 2 + x[:, None] ** 2
    return numpy.exp(-1j * numpy.pi * r2 / (wvl * f)).reshape(-1)


def mirror_matrix(N):
    """P: sample at coordinate -x for the sample at x (index j -> (N - j) mod N per axis;
    the edge sample j = 0, x = -N/2 d, is its own periodic image)."""
    p = numpy.zeros((N, N))
    for j in range(N):
        p[(N - j) % N, j] = 1.0
    return numpy.kron(p, p)


def one_step_spacing(N, wvl, d_in, z):
    """signed output spacing of a single-transform Fresnel evaluation: x2 = lambda z f"""
    return wvl * z / (N * d_in)


# --------------------------------------------------------------------------- Gaussian beam

def rayleigh_range(wvl, w0):
    return numpy.pi * w0 ** 2 / wvl


def gaussian_beam(N, d, wvl, w0, z, x0=0.0, y0=0.0):
    """Field on the N x N grid of spacing d (may be negative) of a fundamental Gaussian beam
    with waist radius w0 (1/e amplitude) at z = 0, axis parallel to the optical axis through
    (x0, y0), observed in the plane z.  Normalised to 1 on axis at the waist."""
    zR = rayleigh_range(wvl, w0)
    q = z - 1j * zR
    k = 2 * numpy.pi / wvl
    x = coords(N, d)
    r2 = (x[None, :] - x0) ** 2 + (x[:, None] - y0) ** 2
    return (-1j * zR / q) * numpy.exp(1j * k * r2 / (2 * q))


def beam_radius(wvl, w0, z):
    return w0 * numpy.sqrt(1.0 + (z / rayleigh_range(wvl, w0)) ** 2)


def gouy_phase(wvl, w0, z):
    return numpy.arctan2(z, rayleigh_range(wvl, w0))


def second_moment_radius(U, d):
    """(centroid x, centroid y, w) with w^2 = 2 <|r - c|^2> for |U|^2 (w is the 1/e amplitude
    radius of a Gaussian)"""
    N = U.shape[0]
    x = coords(N, d)
    I = numpy.abs(U) ** 2
    P = I.sum()
    cx = (I.sum(axis=0) * x).sum() / P
    cy = (I.sum(axis=1) * x).sum() / P
    r2 = (x[None, :] - cx) ** 2 + (x[:, None] - cy) ** 2
    return cx, cy, numpy.sqrt(2.0 * (I * r2).sum() / P)


# --------------------------------------------------------------------------- Airy pattern

def airy_intensity(v):
    """(2 J1(v)/v)^2 with the limit 1 at v = 0"""
    v = numpy.asarray(v, dtype=float)
    out = numpy.ones_like(v)
    nz = v != 0
    out[nz] = (2.0 * special.j1(v[nz]) / v[nz]) ** 2
    return out


def airy_encircled(v):
    """fraction of the total power inside the radius with v = k a r / f"""
    return 1.0 - special.j0(v) ** 2 - special.j1(v) ** 2


def airy_v(wvl, a, f, r):
    return 2 * numpy.pi / wvl * a * numpy.asarray(r) / abs(f)
