"""Reference model: geometry of the infinite phase screens (documented geometry, coded
independently of aotools).

Working array: `stencil_length` rows x `nx` columns, pixel (row i, column j) sits at
(i, j) * pixel_scale.  A new row is created one pixel in front of row 0, i.e. at row
coordinate -1, columns 0..nx-1.

von Karman variant (Assemat & Wilson 2006): the stencil is the first `n_columns` complete rows.

Fried variant (Fried & Clark 2008): the working width is the smallest n = 2^M + 1 >= the
requested size; the stencil is hierarchical - level 0 is the complete row 0, level l = 1..M is
row 2^(l-1) sampled every 2^l pixels (2^(M-l) + 1 points from edge to edge) - plus one "tail"
pixel in the centre column at the end of every block of n rows (rows q*n - 1, q = 1..factor).
The reference pixel is (1, 1).
"""


def allowed_size(requested):
    m = 0
    while 2 ** m + 1 < requested:
        m += 1
    return 2 ** m + 1, m


def new_row_coords(nx):
    return [(-1, j) for j in range(nx)]


def vk_stencil(nx, n_columns):
    return [(i, j) for i in range(n_columns) for j in range(nx)]


def fried_stencil(requested, factor):
    """-> (n, stencil_length, sorted list of (row, col))"""
    n, M = allowed_size(requested)
    pix = set()
    for level in range(0, M + 1):
        row = 0 if level == 0 else 2 ** (level - 1)
        step = 2 ** level
        for j in range(0, n, step):
            pix.add((row, j))
    for q in range(1, factor + 1):
        pix.add((q * n - 1, n // 2))
    return n, factor * n, sorted(pix)


REFERENCE_PIXEL = (1, 1)
