"""Reference model for the Karhunen-Loeve property (C13), written from the property statement.

* Kolmogorov phase structure function for D/r0 = 1 (the normalisation of the returned variances):
  D(rho) = c * (rho / D)^(5/3),  c = 2 (24/5 Gamma(6/5))^(5/6) = 6.88387...,  rho the separation and
  D = 2 the pupil diameter in units of the pupil radius.
* Pupil averages on a polar grid whose radial nodes carry equal areas and whose azimuthal nodes are
  equidistant: every node has the same weight, so <f> = mean over all nodes and the double average is
  the mean over all ordered node pairs.
* covariance_matrix(K, x, y): -1/2 <K_i(x) D(|x - x'|) K_j(x')> for all pairs (i, j), by row blocks.
* annulus(dim, ri): indicator of ri <= r <= 1 at pixel centres x_k = (2k - dim + 1)/dim, decided in
  exact rational arithmetic (Fraction(ri) is the exact value of the binary float), plus a mask of
  near-ties (none exist for the alphabets used; reported if any).
* polar_window_range(...): min / max of a polar function over the enclosing polar cell of a point and
  its neighbours (+-1 index radially, clipped; +-1 azimuthally, with wrap-around).
"""
from fractions import Fraction
import math

import numpy

KOLMOGOROV_C = 2.0 * (24.0 / 5.0 * math.gamma(6.0 / 5.0)) ** (5.0 / 6.0)


def structure_function(rho_over_D):
    return KOLMOGOROV_C * numpy.asarray(rho_over_D, dtype=float) ** (5.0 / 3.0)


def polar_nodes(radii, npp):
    """Cartesian coordinates (pupil radii) of the nodes, radial index slowest (matches an (nr, npp) array)"""
    th = numpy.arange(npp) * (2.0 * math.pi / npp)
    r = numpy.asarray(radii, dtype=float)
    x = (r[:, None] * numpy.cos(th)[None, :]).reshape(-1)
    y = (r[:, None] * numpy.sin(th)[None, :]).reshape(-1)
    return x, y


def covariance_matrix(K, x, y, block=512):
    """-1/2 <K_i D K_j> (double average over equally weighted nodes); K has shape (nfunc, nodes)"""
    K = numpy.asarray(K, dtype=float)
    M = K.shape[1]
    acc = numpy.zeros((K.shape[0], K.shape[0]))
    for s in range(0, M, block):
        e = min(M, s + block)
        d = numpy.hypot(x[s:e, None] - x[None, :], y[s:e, None] - y[None, :]) / 2.0
        acc += K[:, s:e] @ (structure_function(d) @ K.T)
    return -0.5 * acc / float(M) ** 2


def annulus(dim, ri):
    """(inside, near_tie) boolean (dim, dim) arrays; axis 1 is x, axis 0 is y (symmetric anyway)"""
    a = 2 * numpy.arange(dim, dtype=numpy.int64) - dim + 1
    s = a[None, :] ** 2 + a[:, None] ** 2                  # = r^2 * dim^2, exact integers
    lo = Fraction(ri) ** 2 * dim * dim                     # exact
    lo_ceil = -((-lo.numerator) // lo.denominator)         # smallest integer >= lo
    inside = (s >= lo_ceil) & (s <= dim * dim)
    flo = float(lo)
    near = (numpy.abs(s - flo) <= 1e-9 * max(flo, 1.0)) | (s == dim * dim)
    return inside, near


def pixel_polar(dim):
    """(r^2, theta in [0, 2 pi)) of the pixel centres; x along axis 1, y along axis 0"""
    c = (2 * numpy.arange(dim) - dim + 1) / float(dim)
    X, Y = numpy.meshgrid(c, c)
    th = numpy.mod(numpy.arctan2(Y, X), 2.0 * math.pi)
    return X * X + Y * Y, th


def polar_window_range(pol, radii, r, theta):
    """min and max of pol (nr, npp) over radial nodes q0-1..q0+2 (clipped) and azimuthal nodes p0-1..p0+2
    (wrapped), where radii[q0] <= r < radii[q0+1] and theta_p0 <= theta < theta_(p0+1); r, theta 1-d"""
    pol = numpy.asarray(pol, dtype=float)
    nr, npp = pol.shape
    q0 = numpy.searchsorted(numpy.asarray(radii, dtype=float), r, side="right") - 1
    p0 = numpy.floor(theta * npp / (2.0 * math.pi)).astype(int)
    lo = numpy.full(r.shape, numpy.inf)
    hi = numpy.full(r.shape, -numpy.inf)
    for dq in (-1, 0, 1, 2):
        q = numpy.clip(q0 + dq, 0, nr - 1)
        for dp in (-1, 0, 1, 2):
            v = pol[q, (p0 + dp) % npp]
            lo = numpy.minimum(lo, v)
            hi = numpy.maximum(hi, v)
    return lo, hi


def azimuthal_order_fraction(pol, order):
    """fraction of the energy of a polar function (nr, npp) carried by the azimuthal harmonic `order`"""
    F = numpy.fft.rfft(numpy.asarray(pol, dtype=float), axis=1)
    w = numpy.full(F.shape[1], 2.0)
    w[0] = 1.0
    if pol.shape[1] % 2 == 0:
        w[-1] = 1.0
    e = (numpy.abs(F) ** 2 * w[None, :]).sum(axis=0)
    tot = float(e.sum())
    return float(e[order]) / tot if tot > 0 and order < e.size else 0.0
