"""Reference model for Zernike polynomials in Noll's (1976) convention.

Written from the textbook definitions, independently of aotools:

* Noll index table BY CONSTRUCTION: radial orders n = 0, 1, 2, ...; inside an order the
  azimuthal orders |m| = n mod 2, +2, ..., n in increasing order; |m| = 0 takes one index,
  |m| > 0 takes two consecutive indices of which the even one is the cosine term (m > 0) and
  the odd one the sine term (m < 0).
* Radial polynomials R_n^m by Kintner's three-term RECURRENCE in n, in exact rational
  arithmetic (fractions.Fraction); no factorial sum.  `selftest` proves, exactly, R(1) = 1,
  the radial orthogonality  int_0^1 R_n^m R_n'^m r dr = delta / (2n + 2)  and the agreement
  with the closed binomial form.
* Z = c_nm * R_n^|m|(r) * {cos, sin}(|m| theta) expanded into an exact polynomial in the
  Cartesian coordinates (x, y):  r^k cos(m theta) = (x^2 + y^2)^((k-m)/2) Re (x + i y)^m.
  Polynomials are dicts {(a, b): Fraction} meaning sum c x^a y^b; derivatives are exact.
  c_nm^2 = n + 1 (m = 0) or 2 (n + 1) (m != 0)  makes  (1/pi) int_disc Z_i Z_j = delta_ij,
  which `selftest` verifies exactly with the closed-form disc moments of monomials.
* gamma matrices: gamma_x[i, j] = (1/pi) int_disc dZ_i/dx Z_j (exact rational times one
  square root), so that dZ_i/dx = sum_j gamma_x[i, j] Z_j  (a polynomial of degree n - 1 lies in
  the span of the modes of lower order; the identity is verified in `selftest`).

Grid convention (pupil inscribed in an N x N array): pixel centres at
x_k = (2k + 1 - N) / N, x along axis 1 (columns), y along axis 0 (rows), theta = atan2(y, x);
a pixel is inside the pupil iff (2k+1-N)^2 + (2l+1-N)^2 <= N^2 (integer arithmetic; equality
is impossible by parity, so the pupil is unambiguous).
"""
from fractions import Fraction
import math

import numpy


# ------------------------------------------------------------------------------ Noll table

def noll_table(nmax):
    """t[j] = (n, m) for j = 1 .. (nmax+1)(nmax+2)/2; t[0] is None."""
    t = [None]
    j = 0
    for n in range(nmax + 1):
        for am in range(n % 2, n + 1, 2):
            if am == 0:
                j += 1
                t.append((n, 0))
            else:
                for _ in range(2):
                    j += 1
                    t.append((n, am if j % 2 == 0 else -am))
    return t


def n_modes(nmax):
    return (nmax + 1) * (nmax + 2) // 2


def valid_pairs(n0, n1):
    """the set {(n, m): n0 <= n < n1, |m| <= n, n - |m| even}"""
    s = set()
    for n in range(n0, n1):
        for am in range(n % 2, n + 1, 2):
            s.add((n, am))
            s.add((n, -am))
    return s


# ------------------------------------------------------------------------------ radial part

_RAD = {}


def radial_coeffs(n, m):
    """{power: Fraction} of R_n^m(r), m >= 0, n - m even >= 0; Kintner's recurrence in n."""
    m = abs(m)
    if (n - m) % 2 or n < m:
        raise ValueError("invalid (n, m) = (%d, %d)" % (n, m))
    key = (n, m)
    if key in _RAD:
        return _RAD[key]
    if n == m:
        c = {m: Fraction(1)}
    elif n == m + 2:
        c = {m + 2: Fraction(m + 2), m: Fraction(-(m + 1))}
    else:
        a = radial_coeffs(n - 2, m)
        b = radial_coeffs(n - 4, m)
        den = Fraction((n + m) * (n - m) * (n - 2))
        k1 = 2 * (n - 1)
        c = {}
        for p, v in a.items():
            c[p + 2] = c.get(p + 2, 0) + k1 * 2 * n * (n - 2) * v
            c[p] = c.get(p, 0) - k1 * (m * m + n * (n - 2)) * v
        k2 = n * (n + m - 2) * (n - m - 2)
        for p, v in b.items():
            c[p] = c.get(p, 0) - k2 * v
        c = {p: Fraction(v) / den for p, v in c.items() if v != 0}
    _RAD[key] = c
    return c


def radial_closed_form(n, m):
    """binomial closed form, only used to cross-validate the recurrence in selftest"""
    m = abs(m)
    return {n - 2 * k: Fraction((-1) ** k * math.comb(n - k, k) * math.comb(n - 2 * k, (n - m) // 2 - k))
            for k in range((n - m) // 2 + 1)}


def radial_eval(n, m, r):
    r = numpy.asarray(r, dtype=float)
    out = numpy.zeros(r.shape)
    for p, v in sorted(radial_coeffs(n, m).items()):
        out = out + float(v) * r ** p
    return out


# ------------------------------------------------------------------------------ polynomials

def p_add(p, q, s=1):
    r = dict(p)
    for k, v in q.items():
        r[k] = r.get(k, 0) + s * v
        if r[k] == 0:
            del r[k]
    return r


def p_mul(p, q):
    r = {}
    for (a, b), v in p.items():
        for (c, d), w in q.items():
            k = (a + c, b + d)
            r[k] = r.get(k, 0) + v * w
    return {k: v for k, v in r.items() if v != 0}


def p_scale(p, s):
    return {k: v * s for k, v in p.items() if v * s != 0}


def p_dx(p):
    return {(a - 1, b): v * a for (a, b), v in p.items() if a > 0}


def p_dy(p):
    return {(a, b - 1): v * b for (a, b), v in p.items() if b > 0}


def p_eval(p, X, Y):
    X = numpy.asarray(X, dtype=float)
    Y = numpy.asarray(Y, dtype=float)
    out = numpy.zeros(numpy.broadcast(X, Y).shape)
    if not p:
        return out
    amax = max(a for a, _ in p)
    bmax = max(b for _, b in p)
    xp = [numpy.ones_like(X)]
    for _ in range(amax):
        xp.append(xp[-1] * X)
    yp = [numpy.ones_like(Y)]
    for _ in range(bmax):
        yp.append(yp[-1] * Y)
    for (a, b), v in sorted(p.items()):
        out = out + float(v) * xp[a] * yp[b]
    return out


def p_abs_sum(p):
    """sum |c|: a rigorous bound of |p| on the unit square (hence the unit disc)"""
    return float(sum(abs(v) for v in p.values()))


def _harmonic(m, sine):
    """Re or Im of (x + i y)^m as a polynomial"""
    r = {}
    for k in range(m + 1):
        if (k % 2 == 1) != bool(sine):
            continue
        sgn = (-1) ** (k // 2)
        r[(m - k, k)] = Fraction(sgn * math.comb(m, k))
    return r


def _r2pow(p):
    return {(2 * q, 2 * (p - q)): Fraction(math.comb(p, q)) for q in range(p + 1)}


_CART = {}


def cart_poly(n, m):
    """exact polynomial P with Z_n^m = sqrt(norm2(n, m)) * P(x, y); m < 0 is the sine term"""
    key = (n, m)
    if key in _CART:
        return _CART[key]
    am = abs(m)
    h = _harmonic(am, m < 0)
    out = {}
    for p, v in radial_coeffs(n, am).items():
        out = p_add(out, p_scale(p_mul(_r2pow((p - am) // 2), h), v))
    _CART[key] = out
    return out


def norm2(n, m):
    return (n + 1) if m == 0 else 2 * (n + 1)


def _dfact(k):
    r = 1
    while k > 1:
        r *= k
        k -= 2
    return r


def disc_moment(a, b):
    """(1/pi) * integral of x^a y^b over the unit disc, exact"""
    if a % 2 or b % 2:
        return Fraction(0)
    return Fraction(2 * _dfact(a - 1) * _dfact(b - 1), _dfact(a + b) * (a + b + 2))


def p_inner(p, q):
    s = Fraction(0)
    for (a, b), v in p.items():
        for (c, d), w in q.items():
            mo = disc_moment(a + c, b + d)
            if mo:
                s += v * w * mo
    return s


# ------------------------------------------------------------------------------ gamma matrices

def gamma_ref(nzrad):
    """(gx, gy, table): float64 matrices in Noll order for radial orders 0..nzrad with
    dZ_i/dx = sum_j gx[i, j] Z_j and dZ_i/dy = sum_j gy[i, j] Z_j (row/column i <-> Noll i + 1)"""
    t = noll_table(nzrad)
    nz = len(t) - 1
    gx = numpy.zeros((nz, nz))
    gy = numpy.zeros((nz, nz))
    polys = [cart_poly(*t[j]) for j in range(1, nz + 1)]
    n2 = [norm2(*t[j]) for j in range(1, nz + 1)]
    for i in range(nz):
        dx, dy = p_dx(polys[i]), p_dy(polys[i])
        for j in range(nz):
            if t[j + 1][0] >= t[i + 1][0]:
                continue   # a derivative has degree n_i - 1: orthogonal to every mode of order >= n_i
            ix = p_inner(dx, polys[j])
            iy = p_inner(dy, polys[j])
            s = math.sqrt(n2[i] * n2[j])
            gx[i, j] = s * float(ix)
            gy[i, j] = s * float(iy)
    return gx, gy, t


# ------------------------------------------------------------------------------ grids

def grid(N):
    """(X, Y, inside): pixel-centre coordinates in pupil radii and the integer-decided pupil"""
    a = 2 * numpy.arange(N, dtype=numpy.int64) + 1 - N
    A, B = numpy.meshgrid(a, a)          # A varies along columns (x), B along rows (y)
    inside = (A * A + B * B) <= N * N
    return A / float(N), B / float(N), inside


def mode(n, m, N):
    """Noll-normalised Zernike (n, m) on the N x N grid, exactly zero outside the pupil"""
    X, Y, inside = grid(N)
    Z = math.sqrt(norm2(n, m)) * p_eval(cart_poly(n, m), X, Y)
    return numpy.where(inside, Z, 0.0)


# ------------------------------------------------------------------------------ self-validation

def selftest(nmax):
    """exact internal consistency of this reference model up to radial order nmax;
    returns a list of error strings (empty when everything holds)"""
    err = []
    for m in range(nmax + 1):
        ns = list(range(m, nmax + 1, 2))
        for n in ns:
            c = radial_coeffs(n, m)
            if c != radial_closed_form(n, m):
                err.append("recurrence != closed form at (%d,%d)" % (n, m))
            if sum(c.values()) != 1:
                err.append("R(1) != 1 at (%d,%d)" % (n, m))
            for n2_ in ns:
                d = radial_coeffs(n2_, m)
                s = sum(v * w / (p + q + 2) for p, v in c.items() for q, w in d.items())
                want = Fraction(1, 2 * n + 2) if n == n2_ else 0
                if s != want:
                    err.append("radial orthogonality (%d,%d)x(%d,%d)" % (n, m, n2_, m))
    t = noll_table(nmax)
    nz = len(t) - 1
    if nz != n_modes(nmax) or set(t[1:]) != valid_pairs(0, nmax + 1) or len(set(t[1:])) != nz:
        err.append("noll table is not a bijection")
    polys = [cart_poly(*t[j]) for j in range(1, nz + 1)]
    for i in range(nz):
        for j in range(i + 1):
            s = p_inner(polys[i], polys[j])
            want = Fraction(1, norm2(*t[i + 1])) if i == j else 0
            if s != want:
                err.append("disc orthonormality Z%d x Z%d" % (i + 1, j + 1))
    # derivative expansion is complete: squared norm of the derivative = sum of squared coefficients
    for i in range(nz):
        for d in (p_dx(polys[i]), p_dy(polys[i])):
            total = p_inner(d, d) * norm2(*t[i + 1])
            proj = Fraction(0)
            for j in range(nz):
                if t[j + 1][0] < t[i + 1][0]:
                    proj += p_inner(d, polys[j]) ** 2 * norm2(*t[i + 1]) * norm2(*t[j + 1])
            if total != proj:
                err.append("derivative of Z%d not in the span of lower orders" % (i + 1))
    return err
