"""Reference models for C14: discs and grid cells in exact arithmetic.

Written from the property statement: a pixel (row j, column i) of an n x n array has its
centre at the half-integer point (i + 1/2, j + 1/2) measured from the array corner (x runs
along the columns, y along the rows, as drawn in the docstring of `circle`); with
origin "middle" the same point is measured from (n/2, n/2). A mask is the indicator of
`|centre - c| <= r`. All lengths are handed over in QUARTER PIXELS (integers), so the
comparison is pure integer arithmetic with no rounding anywhere.
"""
from fractions import Fraction

import numpy


def squared_distance_q(size, cx4, cy4, origin):
    """integer array D[j, i] = (4 dx)^2 + (4 dy)^2 of pixel centres to the centre (cx4, cy4)/4"""
    if origin not in ("middle", "corner"):
        raise ValueError(origin)
    off = 2 * size if origin == "middle" else 0          # 4 * size / 2
    p = 4 * numpy.arange(size, dtype=numpy.int64) + 2 - off   # 4 * (i + 1/2) - 4 * size/2
    dx = p - int(cx4)
    dy = p - int(cy4)
    return dy[:, None] ** 2 + dx[None, :] ** 2


def disc_q(size, r4, cx4=0, cy4=0, origin="middle"):
    """boolean indicator of pixel centres within r4/4 of (cx4/4, cy4/4)"""
    return squared_distance_q(size, cx4, cy4, origin) <= int(r4) ** 2


def disc_fraction(size, r, cx=0, cy=0, origin="middle"):
    """the same indicator for arbitrary rational (or float, taken at their exact value)
    arguments, pixel by pixel with Fractions (slow; used for the docstring examples)"""
    r, cx, cy = Fraction(r), Fraction(cx), Fraction(cy)
    off = Fraction(size, 2) if origin == "middle" else Fraction(0)
    out = numpy.zeros((size, size), dtype=bool)
    for j in range(size):
        for i in range(size):
            x = Fraction(2 * i + 1, 2) - off - cx
            y = Fraction(2 * j + 1, 2) - off - cy
            out[j, i] = (x * x + y * y <= r * r)
    return out


def square_symmetries(a):
    """the 8 images of a square array under the dihedral group of the square"""
    out = []
    for t in (a, a.T):
        out.extend([t, t[::-1, :], t[:, ::-1], t[::-1, ::-1]])
    return out


def area_bounds(r):
    """every unit pixel whose centre is within r lies inside the disc of radius r + sqrt(1/2)
    and the pixels selected cover the disc of radius r - sqrt(1/2):
    pi (r - sqrt(.5))^2 <= area <= pi (r + sqrt(.5))^2 (floats; only used with a margin)"""
    h = 0.5 ** 0.5
    lo = numpy.pi * max(r - h, 0.0) ** 2
    hi = numpy.pi * (r + h) ** 2
    return lo, hi


# ----------------------------------------------------------------------------- grid cells

def round_half_even(q):
    """round a Fraction to the nearest integer, ties to the even one (numpy.round / round)"""
    q = Fraction(q)
    f = q.numerator // q.denominator
    rem = q - f
    if rem > Fraction(1, 2):
        return f + 1
    if rem < Fraction(1, 2):
        return f
    return f if f % 2 == 0 else f + 1


def cell_bounds(n, subaps):
    """edges of the `subaps` cells along an axis of n pixels: the integer nearest to the EXACT k * n/subaps.
    Where k * n/subaps is a half-integer (see `cell_edge_ties`) the statement fixes no rule - both neighbouring
    integers are legitimate edges; this function then returns the even one, and callers that compare with an
    implementation must treat those edges as set-valued (`cell_counts_edges` takes the edges explicitly)."""
    return [round_half_even(Fraction(k * n, subaps)) for k in range(subaps + 1)]


def cell_edge_ties(n, subaps):
    """the edge indices k (0 < k < subaps) whose exact position k * n/subaps is a half-integer"""
    return [k for k in range(1, subaps) if (2 * k * n) % subaps == 0 and ((2 * k * n) // subaps) % 2 == 1]


def cell_counts_edges(mask, bx, by):
    """(sum[kx, ky], pixels[kx, ky]) of an integer mask over the cells given by the edge lists bx (first axis)
    and by (second axis), from the summed-area table (exact integers)"""
    m = numpy.asarray(mask)
    if m.dtype.kind not in "iub":
        raise TypeError("integer mask expected")
    bx = numpy.asarray(bx, dtype=numpy.int64)
    by = numpy.asarray(by, dtype=numpy.int64)
    S = numpy.zeros((m.shape[0] + 1, m.shape[1] + 1), dtype=numpy.int64)
    S[1:, 1:] = m.astype(numpy.int64).cumsum(0).cumsum(1)
    sums = (S[bx[1:]][:, by[1:]] - S[bx[:-1]][:, by[1:]] - S[bx[1:]][:, by[:-1]] + S[bx[:-1]][:, by[:-1]])
    return sums, numpy.outer(numpy.diff(bx), numpy.diff(by))


def cell_means(mask, subaps):
    """dict (kx, ky) -> exact mean of the mask over cell (kx, ky) (first, second axis), or None
    for an empty cell; mask must hold integers (0/1)"""
    m = numpy.asarray(mask)
    bx = cell_bounds(m.shape[0], subaps)
    by = cell_bounds(m.shape[1], subaps)
    out = {}
    for kx in range(subaps):
        for ky in range(subaps):
            cell = m[bx[kx]:bx[kx + 1], by[ky]:by[ky + 1]]
            if cell.size == 0:
                out[(kx, ky)] = None
            else:
                out[(kx, ky)] = Fraction(int(round(float(cell.sum()))), int(cell.size))
    return out


_LAYOUT = {}


def cell_counts(mask, subaps):
    """integer version of cell_means: (ones[kx, ky], size[kx, ky]) of every cell, from the
    summed-area table of an integer 0/1 mask (exact; means are ones/size)"""
    m = numpy.asarray(mask)
    if m.dtype.kind not in "iub":
        raise TypeError("integer mask expected")
    key = (m.shape, subaps)
    if key not in _LAYOUT:
        bx = numpy.array(cell_bounds(m.shape[0], subaps))
        by = numpy.array(cell_bounds(m.shape[1], subaps))
        _LAYOUT[key] = (bx, by, numpy.outer(numpy.diff(bx), numpy.diff(by)))
    bx, by, size = _LAYOUT[key]
    S = numpy.zeros((m.shape[0] + 1, m.shape[1] + 1), dtype=numpy.int64)
    S[1:, 1:] = m.astype(numpy.int64).cumsum(0).cumsum(1)
    ones = (S[bx[1:]][:, by[1:]] - S[bx[:-1]][:, by[1:]] - S[bx[1:]][:, by[:-1]] + S[bx[:-1]][:, by[:-1]])
    return ones, size


def active_cells_int(ones, size, threshold):
    """row-major list of cells (kx, ky) with ones/size >= threshold, decided in integers"""
    t = Fraction(threshold)
    ok = (size > 0) & (ones * t.denominator >= t.numerator * size)
    return [tuple(int(v) for v in k) for k in numpy.argwhere(ok)]


def active_cells(means, threshold):
    """cells whose exact mean is at least the threshold (taken at its exact value), row-major"""
    t = Fraction(threshold)
    return [k for k in sorted(means) if means[k] is not None and means[k] >= t]


def all_binary_masks(n, codes=None):
    """every 0/1 mask of n x n, coded by the integer whose bit k is cell k (row-major)"""
    if codes is None:
        codes = range(1 << (n * n))
    for c in codes:
        yield c, mask_from_code(n, c)


def mask_from_code(n, c):
    bits = [(c >> k) & 1 for k in range(n * n)]
    return numpy.array(bits, dtype=numpy.int64).reshape(n, n)


def codes_with_few_zeros(n, max_zeros):
    """codes of the n x n masks with at most max_zeros zero cells, in increasing number of zeros"""
    import itertools
    full = (1 << (n * n)) - 1
    for z in range(max_zeros + 1):
        for cells in itertools.combinations(range(n * n), z):
            c = full
            for k in cells:
                c &= ~(1 << k)
            yield c
