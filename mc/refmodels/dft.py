"""Reference model: the continuous-FT-approximating centred DFT, written from the
statement (origin at the centre sample c = N//2, frequencies (m - c)/(N delta))."""
import numpy


def centred_dft(N, delta):
    c = N // 2
    m = numpy.arange(N) - c
    return delta * numpy.exp(-2j * numpy.pi * numpy.outer(m, m) / N)


def centred_idft(N, delta_f):
    c = N // 2
    m = numpy.arange(N) - c
    return delta_f * numpy.exp(2j * numpy.pi * numpy.outer(m, m) / N)


def kron2(F):
    """operator of the separable 2-D transform on row-major flattened N x N arrays"""
    return numpy.kron(F, F)
