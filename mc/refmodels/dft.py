"""Reference model: the continuous-FT-approximating centred DFT, written from the
statement (origin at the centre sample c = N//2, frequencies (m - c)/(N delta)).

The phase 2 pi (m - c)(k - c) / N is reduced modulo N in INTEGER arithmetic before it is
multiplied by 2 pi / N: the unreduced argument reaches pi N / 2 rad and would carry an error
of about eps * pi * N / 2 (2.5e-11 at N = 65537), all of it the model's own."""
import numpy


def phase(N, product, sign=-1):
    """exp(sign * 2 pi i * product / N) for an integer array `product`, reduced exactly first"""
    r = numpy.asarray(product, dtype=numpy.int64) % int(N)
    return numpy.exp(sign * 2j * numpy.pi * r / float(N))


def centred_dft(N, delta):
    c = N // 2
    m = numpy.arange(N, dtype=numpy.int64) - c
    return delta * phase(N, numpy.outer(m, m), -1)


def centred_idft(N, delta_f):
    c = N // 2
    m = numpy.arange(N, dtype=numpy.int64) - c
    return delta_f * phase(N, numpy.outer(m, m), +1)


def kron2(F, F2=None):
    """operator of the separable 2-D transform on row-major flattened arrays: F acts on the first (row) axis,
    F2 (default F: square grid) on the last axis"""
    return numpy.kron(F, F if F2 is None else F2)
