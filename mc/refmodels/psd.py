"""Reference model: modified von Karman phase PSD and the exact covariance of a screen that is
a finite Fourier sum with independent complex Gaussian coefficients.

From the statement of C07:

    Phi(f) = 0.023 r0^(-5/3) exp(-(f/fm)^2) (f^2 + 1/L0^2)^(-11/6),   fm = 5.92 / (2 pi l0)

sampled on the grid f = (k - N/2) df, k = 0..N-1 (both axes), df = 1/(N delta), zero frequency
removed.  A screen  phi(x) = Re sum_f c_f exp(2 pi i f.x),  c_f = (a_f + i b_f) sqrt(Phi(f)) df
with independent unit normals a, b has the covariance

    Cov(x, x') = sum_f Phi(f) df^2 cos(2 pi f.(x - x'))

(only pixel differences enter).  Everything in float64; nothing is taken from aotools.
"""
import math

import numpy


def modified_von_karman(f, r0, L0, l0):
    f = numpy.asarray(f, dtype=numpy.float64)
    fm = 5.92 / (2.0 * math.pi * float(l0))
    return (0.023 * float(r0) ** (-5.0 / 3.0) * numpy.exp(-(f / fm) ** 2)
            * (f * f + 1.0 / float(L0) ** 2) ** (-11.0 / 6.0))


def grid_weights(N, delta, r0, L0, l0):
    """(k, W): integer frequency indices k = -N/2..N/2-1 and W[ky, kx] = Phi(f) df^2 with the
    zero-frequency cell set to 0."""
    if N % 2:
        raise ValueError("even N only")
    df = 1.0 / (N * float(delta))
    k = numpy.arange(N) - N // 2
    f1 = k * df
    f = numpy.sqrt(f1[:, None] ** 2 + f1[None, :] ** 2)
    W = modified_von_karman(f, r0, L0, l0) * df * df
    W[N // 2, N // 2] = 0.0
    return k, W


def covariance_by_offset(N, delta, r0, L0, l0):
    """C[dy, dx] = sum_f W(f) cos(2 pi (ky dy + kx dx)/N) for pixel offsets dy, dx = 0..N-1
    (the sum is N-periodic in the offsets, so negative offsets are C[-d mod N])."""
    k, W = grid_weights(N, delta, r0, L0, l0)
    d = numpy.arange(N)
    ph = 2.0 * math.pi * numpy.outer(d, k) / N          # [offset, k]
    c, s = numpy.cos(ph), numpy.sin(ph)
    # cos(a+b) = cos a cos b - sin a sin b, summed over (ky, kx)
    return c @ W @ c.T - s @ W @ s.T


def covariance_matrix(N, delta, r0, L0, l0):
    """Full N^2 x N^2 covariance, pixels flattened row-major (index = y*N + x)."""
    C = covariance_by_offset(N, delta, r0, L0, l0)
    y, x = numpy.divmod(numpy.arange(N * N), N)
    dy = (y[:, None] - y[None, :]) % N
    dx = (x[:, None] - x[None, :]) % N
    return C[dy, dx]


def covariance_row(N, delta, r0, L0, l0, pixel):
    """Covariance of pixel (y0, x0) with every pixel, as an N x N image."""
    C = covariance_by_offset(N, delta, r0, L0, l0)
    y0, x0 = pixel
    dy = (numpy.arange(N) - y0) % N
    dx = (numpy.arange(N) - x0) % N
    return C[dy[:, None], dx[None, :]]


def subharmonic_structure_function(N, delta, r0, L0, l0, dy, dx, levels=3):
    """Structure function (at pixel offsets dy, dx) of the Lane/Schmidt sub-harmonic sum: for
    p = 1..levels a 3x3 frequency grid with spacing 1/(3^p N delta), centre removed:
        D_lo = 2 sum_p sum_f Phi(f) df_p^2 (1 - cos(2 pi f.(dx, dy) delta)).
    Used for an observation only (the property does not prescribe the sub-harmonic weights)."""
    dy = numpy.asarray(dy, dtype=numpy.float64) * delta
    dx = numpy.asarray(dx, dtype=numpy.float64) * delta
    out = numpy.zeros(numpy.broadcast(dy, dx).shape)
    for p in range(1, levels + 1):
        df = 1.0 / (3 ** p * N * float(delta))
        for a in (-1, 0, 1):
            for b in (-1, 0, 1):
                if a == 0 and b == 0:
                    continue
                fy, fx = a * df, b * df
                w = float(modified_von_karman(math.hypot(fx, fy), r0, L0, l0)) * df * df
                out = out + 2.0 * w * (1.0 - numpy.cos(2.0 * math.pi * (fy * dy + fx * dx)))
    return out
