"""Reference model: von Karman phase covariance (float64 throughout).

Written from the textbook formula (Assemat & Wilson 2006 eq. 5; Conan 2000), not from the
aotools sources:

    B(r) = (L0/r0)^(5/3) * Gamma(11/6) / (2^(5/6) pi^(8/3)) * [(24/5) Gamma(6/5)]^(5/6)
           * (2 pi r / L0)^(5/6) K_{5/6}(2 pi r / L0)

with the explicit limit  x^nu K_nu(x) -> 2^(nu-1) Gamma(nu)  for x -> 0 (nu = 5/6), so that
B(0) is finite and exact.  D(r) = 2 (B(0) - B(r)).

`selftest()` ties the closed form to the power spectrum it is the Fourier transform of,
Phi(f) = C r0^(-5/3) (f^2 + 1/L0^2)^(-11/6), C = [(24/5)Gamma(6/5)]^(5/6) Gamma(11/6)^2 / (2 pi^(11/3))
(= 0.022896, usually quoted as 0.023): B(0) = integral of Phi over the plane in closed form, and
B(r) = 2 pi int Phi(f) J0(2 pi f r) f df by quadrature.
"""
import math

import numpy
from scipy.special import kv, gamma

NU = 5.0 / 6.0
_K1 = gamma(11.0 / 6.0) / (2.0 ** (5.0 / 6.0) * math.pi ** (8.0 / 3.0))
_K2 = ((24.0 / 5.0) * gamma(6.0 / 5.0)) ** (5.0 / 6.0)
_LIM0 = 2.0 ** (NU - 1.0) * gamma(NU)          # lim x^nu K_nu(x), x -> 0


def psd_constant():
    """exact constant of the von Karman phase PSD in cycles/m (0.022896...)"""
    return _K2 * gamma(11.0 / 6.0) ** 2 / (2.0 * math.pi ** (11.0 / 3.0))


def xk(x):
    """x^(5/6) K_{5/6}(x) for x >= 0 with the exact value at 0 (float64, elementwise)."""
    x = numpy.asarray(x, dtype=numpy.float64)
    out = numpy.full(x.shape, _LIM0, dtype=numpy.float64)
    pos = x > 0.0
    xp = x[pos]
    with numpy.errstate(over="ignore", invalid="ignore", under="ignore"):
        v = xp ** NU * kv(NU, xp)
    # kv overflows for x below ~1e-300 (value is the limit there to all digits)
    v = numpy.where(numpy.isfinite(v), v, _LIM0)
    out[pos] = v
    return out


def covariance(r, r0, L0):
    """B(r): von Karman phase covariance [rad^2] at separation(s) r [m]."""
    r = numpy.asarray(r, dtype=numpy.float64)
    r0 = float(r0)
    L0 = float(L0)
    return (L0 / r0) ** (5.0 / 3.0) * _K1 * _K2 * xk(2.0 * math.pi * numpy.abs(r) / L0)


def variance(r0, L0):
    return float(covariance(0.0, r0, L0))


def structure_function(r, r0, L0):
    return 2.0 * (variance(r0, L0) - covariance(r, r0, L0))


def covariance_matrix(pos_a, pos_b, r0, L0):
    """Matrix B(|a_i - b_j|) for two lists of 2-D positions [m] (float64 separations)."""
    a = numpy.asarray(pos_a, dtype=numpy.float64).reshape(-1, 2)
    b = numpy.asarray(pos_b, dtype=numpy.float64).reshape(-1, 2)
    d = a[:, None, :] - b[None, :, :]
    return covariance(numpy.sqrt(d[..., 0] ** 2 + d[..., 1] ** 2), r0, L0)


def selftest():
    """Raises AssertionError if the closed form disagrees with its own power spectrum."""
    from scipy import integrate
    from scipy.special import j0
    C = psd_constant()
    assert abs(C - 0.022896) < 2e-6, C
    for r0, L0 in ((0.2, 25.0), (0.1, 10.0), (0.15, 5.0)):
        # integral of Phi over the plane: 2 pi C r0^(-5/3) * (3/5) L0^(5/3)
        b0 = 2.0 * math.pi * C * r0 ** (-5.0 / 3.0) * 0.6 * L0 ** (5.0 / 3.0)
        assert abs(variance(r0, L0) / b0 - 1.0) < 1e-12, (r0, L0)
        for r in (0.3 * L0, 0.05 * L0):
            f0 = 1.0 / L0

            def integrand(f):
                return 2 * math.pi * C * r0 ** (-5.0 / 3.0) * (f * f + f0 * f0) ** (-11.0 / 6.0) * j0(
                    2 * math.pi * f * r) * f
            # split at the zeros of J0 and sum (alternating, quickly decaying)
            edges = [0.0] + [(k + 0.75) / (2.0 * r) for k in range(400)]
            tot = 0.0
            for a, b in zip(edges[:-1], edges[1:]):
                tot += integrate.quad(integrand, a, b, epsabs=0, epsrel=1e-10)[0]
            ref = float(covariance(r, r0, L0))
            assert abs(tot - ref) < 2e-4 * variance(r0, L0), (r0, L0, r, tot, ref)
    # monotone decrease, positivity
    rr = numpy.array([0.0, 1e-9, 1e-3, 0.1, 1.0, 10.0, 100.0])
    b = covariance(rr, 0.2, 25.0)
    assert numpy.all(numpy.diff(b) <= 0) and numpy.all(b > 0)
    return True
