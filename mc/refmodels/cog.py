"""Reference models for C15: centre of gravity in exact rational arithmetic.

Coordinates are pixel indices (the centre of pixel [row j, column i] is x = i, y = j), the
centre of gravity of a non-negative image I is (sum i I / sum I, sum j I / sum I). Every
float is taken at its exact binary value (Fraction(float)), so there is no rounding.
The two threshold readings and the rank ("brightest pixel") pre-processing are provided
only to CLASSIFY an observed disagreement; the property does not prescribe either.
"""
from fractions import Fraction

import numpy


def _frac_image(img):
    a = numpy.asarray(img)
    if a.ndim != 2:
        raise ValueError("2-D image expected")
    return [[Fraction(v) for v in row] for row in a.tolist()]


def cog_exact(img):
    """(x, y) as Fractions, or None when the image has no flux"""
    rows = _frac_image(img)
    tot = sx = sy = Fraction(0)
    for j, row in enumerate(rows):
        for i, v in enumerate(row):
            if v:
                tot += v
                sx += i * v
                sy += j * v
    if tot == 0:
        return None
    return sx / tot, sy / tot


def cog_float(img):
    c = cog_exact(img)
    return None if c is None else (float(c[0]), float(c[1]))


def threshold_subtract(img, thres):
    """pixels above thres keep (value - thres), all others become 0"""
    t = Fraction(thres)
    return numpy.array([[v - t if v > t else Fraction(0) for v in row] for row in _frac_image(img)], dtype=object)


def threshold_zero(img, thres):
    """pixels below thres become 0, all others keep their value"""
    t = Fraction(thres)
    return numpy.array([[Fraction(0) if v < t else v for v in row] for row in _frac_image(img)], dtype=object)


def rank_subtract(img, npx):
    """subtract the npx-th brightest pixel value and clip at 0"""
    rows = _frac_image(img)
    flat = sorted(v for row in rows for v in row)
    t = flat[-npx]
    return numpy.array([[max(v - t, Fraction(0)) for v in row] for row in rows], dtype=object)


def embed(content, frame_shape, dy, dx, background=0.0):
    """content placed with its [0, 0] pixel at (dy, dx) of a frame filled with background"""
    c = numpy.asarray(content, dtype=float)
    f = numpy.full(frame_shape, float(background))
    if dy < 0 or dx < 0 or dy + c.shape[0] > frame_shape[0] or dx + c.shape[1] > frame_shape[1]:
        raise ValueError("content leaves the frame")
    f[dy:dy + c.shape[0], dx:dx + c.shape[1]] = c
    return f


def all_images(shape, alphabet, lo=None, hi=None):
    """every image of `shape` over `alphabet`, coded in base len(alphabet) (row-major, first
    pixel = least significant digit); yields (code, float array)"""
    n = shape[0] * shape[1]
    b = len(alphabet)
    total = b ** n
    lo = 0 if lo is None else lo
    hi = total if hi is None else min(hi, total)
    for code in range(lo, hi):
        c = code
        vals = []
        for _ in range(n):
            vals.append(alphabet[c % b])
            c //= b
        yield code, numpy.array(vals, dtype=float).reshape(shape)


def array_centres(n):
    """admissible readings of 'the array centre' along an axis of n pixels, in pixel-index
    coordinates. Odd n: the central pixel (n-1)/2 = n//2 (every convention agrees).
    Even n: either the point between the two central pixels, (n-1)/2 (geometric middle), or
    the FFT centre sample n/2 = n//2 (zero lag after fftshift); both are accepted."""
    if n % 2:
        return [Fraction(n - 1, 2)]
    return [Fraction(n, 2), Fraction(n - 1, 2)]
