"""Runner: enumerates every case of a check module, evaluates it on the real code,
matches failures against the committed known-findings file, writes evidence and replays.

A check module (checks/Cxx.py) provides

    PROPERTY, LEVEL, RULE, ASSUMPTIONS, TECHNIQUE
    cases(tier)      -> iterable of Case(id, params, nontrivial)    (complete enumeration)
    evaluate(params) -> Out                                          (runs the real code)
    optional: finalize(tier, outs) -> Out   cross-case clauses (ladders, distinctness)
              PARALLEL = False              run every case in the parent process
              BOUNDS(tier) -> dict          written to the evidence as-is

The verdict never depends on VERIF_SEED: the seed only rotates which cases are written
to `samples` and the order in which cases are handed to the workers.
"""
import hashlib
import importlib
import json
import os
import random
import sys
import time
import traceback

VERIF = os.path.dirname(os.path.dirname(os.path.abspath(__file__)))
FINDINGS_FILE = os.path.join(VERIF, "findings", "known_findings.json")
MAX_REPLAY_FILES = 25
MAX_PRINTED = 25


class Case(object):
    __slots__ = ("id", "params", "nontrivial")

    def __init__(self, id, params, nontrivial=True):
        self.id = str(id)
        self.params = params
        self.nontrivial = bool(nontrivial)


class Out(object):
    """Result of evaluating one case: per-clause counters, failures, statistics."""

    def __init__(self):
        self.clauses = {}     # clause -> [n_checked, worst_measure, tol]
        self.failures = []    # dicts: clause, sub, measure, tol, detail
        self.stats = {}       # additive counters (states, transitions, lib_calls, ...)
        self.notes = {}       # non-additive observations (last one wins / max)
        self.outcomes = set()  # digests of distinct observed outcomes (vacuity indicator)

    def check(self, clause, ok, sub=None, measure=None, tol=None, detail=None, n=1):
        c = self.clauses.setdefault(clause, [0, None, tol])
        c[0] += n
        if measure is not None:
            try:
                m = float(measure)
                if m != m:
                    m = float("inf")
                if c[1] is None or m > c[1]:
                    c[1] = m
            except (TypeError, ValueError):
                pass
        if tol is not None:
            c[2] = tol
        if not ok:
            self.failures.append({
                "clause": clause, "sub": None if sub is None else str(sub),
                "measure": _js(measure), "tol": _js(tol), "detail": _js(detail)})
        return bool(ok)

    def close(self, clause, measure, tol, sub=None, detail=None):
        """measure <= tol (NaN fails)."""
        try:
            ok = bool(measure <= tol)
        except Exception:
            ok = False
        return self.check(clause, ok, sub=sub, measure=measure, tol=tol, detail=detail)

    def stat(self, key, n=1):
        self.stats[key] = self.stats.get(key, 0) + int(n)

    def note(self, key, value):
        self.notes[key] = _js(value)

    def outcome(self, obj):
        self.outcomes.add(digest(obj))

    def merge(self, other):
        for k, (n, w, t) in other.clauses.items():
            c = self.clauses.setdefault(k, [0, None, t])
            c[0] += n
            if w is not None and (c[1] is None or w > c[1]):
                c[1] = w
            if t is not None:
                c[2] = t
        self.failures.extend(other.failures)
        for k, v in other.stats.items():
            self.stats[k] = self.stats.get(k, 0) + v
        self.notes.update(other.notes)
        self.outcomes |= other.outcomes


def digest(obj):
    import numpy
    h = hashlib.sha1()

    def feed(o):
        if isinstance(o, numpy.ndarray):
            h.update(str(o.dtype).encode())
            h.update(str(o.shape).encode())
            h.update(numpy.ascontiguousarray(o).tobytes())
        elif isinstance(o, (list, tuple)):
            h.update(b"[")
            for x in o:
                feed(x)
            h.update(b"]")
        elif isinstance(o, dict):
            for k in sorted(o, key=str):
                h.update(str(k).encode())
                feed(o[k])
        elif isinstance(o, bytes):
            h.update(o)
        else:
            h.update(repr(o).encode())
    feed(obj)
    return h.hexdigest()[:16]


def _js(x):
    """JSON-able rendering of a value (for details / samples)."""
    try:
        import numpy
    except Exception:  # pragma: no cover
        numpy = None
    if x is None or isinstance(x, (bool, int, str)):
        return x
    if isinstance(x, float):
        if x != x or x in (float("inf"), float("-inf")):
            return repr(x)
        return x
    if numpy is not None:
        if isinstance(x, numpy.generic):
            return _js(x.item())
        if isinstance(x, numpy.ndarray):
            if x.size <= 64:
                return _js(x.tolist())
            return "ndarray%s %s sha1=%s" % (x.shape, x.dtype, digest(x))
    if isinstance(x, complex):
        return [_js(x.real), _js(x.imag)]
    if isinstance(x, dict):
        return {str(k): _js(v) for k, v in x.items()}
    if isinstance(x, (list, tuple, set, frozenset)):
        return [_js(v) for v in x]
    return repr(x)


# ----------------------------------------------------------------------------- findings

def load_findings(prop):
    """-> (dict full_id -> entry, list of entries) for the open findings of `prop`."""
    try:
        with open(FINDINGS_FILE) as f:
            data = json.load(f)
    except FileNotFoundError:
        return {}, []
    idmap, entries = {}, []
    for e in data.get("findings", []):
        if e.get("property") != prop or e.get("status", "open") != "open":
            continue   # "fixed" entries suppress nothing
        entries.append(e)
        for i in e.get("ids", []):
            idmap[i] = e
    return idmap, entries


def full_id(case_id, failure):
    s = "%s|%s" % (failure["clause"], case_id)
    if failure.get("sub") is not None:
        s += "|" + failure["sub"]
    return s


# ----------------------------------------------------------------------------- workers

_MOD = None


def _evaluate_once(params):
    try:
        out = _MOD.evaluate(params)
        if not isinstance(out, Out):
            raise TypeError("evaluate() must return mc.Out")
    except Exception:
        out = Out()
        out.check("no_exception", False, detail=traceback.format_exc()[-1500:])
    return out


def _evaluate_guarded(params):
    """Evaluate one case.  Unless the module opts out (OWN_SCHEDULING), the library's use of
    concurrent.futures executors is put under a controlled scheduler: the unchanged library uses none, so there
    are no choice points and this is a single plain evaluation; if a (changed) library farms work out to an
    executor, every completion order with at most one non-FIFO decision is evaluated as well and any failure
    under any of those schedules counts (sub id suffixed with the schedule)."""
    from . import env
    before = env.SEAM_BYPASSED[0]
    out = _evaluate_scheduled(params)
    if env.SEAM_BYPASSED[0] != before and out.failures:
        # the library rebuilt a generator from the bit generator of the scripted one: the injected draws were not
        # used, so the failures of this case say nothing about the property - not claimed, and said so
        n = len(out.failures)
        out.failures = []
        out.stat("scripted_generator_bypassed_failures_not_claimed", n)
    return out


def _evaluate_scheduled(params):
    if getattr(_MOD, "OWN_SCHEDULING", False):
        return _evaluate_once(params)
    from . import sched

    def run(prefix):
        ch = sched.Chooser(prefix)
        with sched.patched_executors(ch):
            out = _evaluate_once(params)
        return ch, out
    ch, out = run(())
    if not ch.points:
        return out
    runs, capped = sched.explore(run, bound=1, max_runs=12)
    for choices, o2 in runs[1:]:
        tag = ":executor_schedule=" + "".join(map(str, choices))
        for f in o2.failures:
            f = dict(f)
            f["sub"] = (f["sub"] or "") + tag
            out.failures.append(f)
        out.stat("executor_schedules_explored", 1)
    return out


def _eval_one(args, force_isolated=False):
    """Evaluate one case. With ISOLATE_CASES (or force_isolated) the case runs in a forked child of
    this process, so nothing an earlier case left behind in the library can influence it."""
    case_id, params = args
    t0 = time.time()
    if force_isolated or getattr(_MOD, "ISOLATE_CASES", False):
        from .isolate import isolated
        try:
            out = isolated(_evaluate_guarded, params)
        except Exception:
            out = Out()
            out.check("no_exception", False, detail=traceback.format_exc()[-1500:])
    else:
        out = _evaluate_guarded(params)
    return case_id, out, time.time() - t0


def run_check(prop, tier, seed, replay=None, only=None, jobs=None, verbose=False, dump=None):
    from . import repo
    global _MOD
    t_start = time.time()
    mod = importlib.import_module("checks." + prop)
    _MOD = mod
    repo.load()
    if hasattr(mod, "setup"):
        try:
            mod.setup(tier)
        except Exception:
            # setup runs the library under test (reference tables, pristine results); on the unchanged library it does
            # not raise.  If it does, the library misbehaved before a single case could be judged: that is reported as
            # a violation (with the traceback as the replay record), never as a silent harness failure.
            import traceback
            tb = traceback.format_exc()
            rdir = os.path.join(VERIF, "replays", prop)
            os.makedirs(rdir, exist_ok=True)
            path = os.path.join(rdir, "setup_exception.json")
            with open(path, "w") as fh:
                json.dump({"property": prop, "case_id": "__setup__", "tier": tier, "full_id": "no_exception|__setup__",
                           "failure": {"clause": "no_exception", "sub": None, "detail": tb[-3000:]}}, fh, indent=1)
            print("VIOLATION property=%s replay=%s" % (prop, path))
            print("  case=__setup__ clause=no_exception\n  detail=%s" % tb[-1500:])
            return 1

    if replay is not None:
        try:
            with open(replay) as f:
                rtier = json.load(f).get("tier", tier)
        except Exception:
            rtier = tier
        if rtier != tier and hasattr(mod, "setup"):
            mod.setup(rtier)         # tier-dependent alphabets: replay in the tier that recorded the failure
        return _replay(mod, replay)

    cases = list(mod.cases(tier))
    ids = [c.id for c in cases]
    if len(set(ids)) != len(ids):
        dup = sorted(set(i for i in ids if ids.count(i) > 1))[:5]
        print("HARNESS-ERROR duplicate case ids %s" % dup)
        return 2
    if only:
        cases = [c for c in cases if only in c.id]
    order = list(range(len(cases)))
    random.Random(seed).shuffle(order)
    work = [(cases[i].id, cases[i].params) for i in order]
    by_id = {c.id: c for c in cases}

    jobs = jobs or int(os.environ.get("VERIF_JOBS", "0")) or min(16, os.cpu_count() or 1)
    parallel = getattr(mod, "PARALLEL", True) and len(work) > 1 and jobs > 1
    results = {}
    times = {}
    if parallel:
        import concurrent.futures as cf
        import multiprocessing as mp
        ctx = mp.get_context("fork")
        chunk = max(1, min(64, len(work) // (jobs * 8) or 1))
        with cf.ProcessPoolExecutor(max_workers=jobs, mp_context=ctx) as ex:
            for case_id, out, dt in ex.map(_eval_one, work, chunksize=chunk):
                results[case_id] = out
                times[case_id] = dt
    else:
        for w in work:
            case_id, out, dt = _eval_one(w)
            results[case_id] = out
            times[case_id] = dt

    total = Out()
    if hasattr(mod, "finalize"):
        try:
            fin = mod.finalize(tier, results)
        except Exception:
            fin = Out()
            fin.check("no_exception", False, detail=traceback.format_exc()[-1500:])
        if fin is not None:
            results["__finalize__"] = fin
            by_id["__finalize__"] = Case("__finalize__", {}, False)

    # ------------------------------------------------------------------ verdict
    idmap, entries = load_findings(prop)
    known_hit = {}
    violations = []
    for case_id in sorted(results):
        out = results[case_id]
        total.merge(out)
        for f in out.failures:
            fid = full_id(case_id, f)
            e = idmap.get(fid)
            if e is not None:
                known_hit.setdefault(e["name"], []).append(fid)
            else:
                violations.append((case_id, f, fid))

    # determinism: re-run each violating case once more in this process
    diverged = []
    rechecked = set()
    for case_id, f, fid in violations:
        if case_id in rechecked or case_id == "__finalize__" or len(rechecked) >= 10:
            continue
        rechecked.add(case_id)
        try:
            # in a forked child of this (library-wise pristine) process
            _, again, _ = _eval_one((case_id, by_id[case_id].params),
                                    force_isolated=getattr(mod, "PARALLEL", True))
        except Exception:
            continue
        a = sorted(full_id(case_id, x) for x in results[case_id].failures)
        b = sorted(full_id(case_id, x) for x in again.failures)
        if a != b:
            diverged.append((case_id, a[:3], b[:3]))

    for e in entries:
        hits = known_hit.get(e["name"], [])
        if hits:
            print("KNOWN-FINDING: property=%s %s [%s; %d listed case(s) observed]"
                  % (prop, e["what"], e["name"], len(hits)))
        else:
            print("note: listed finding %s of %s not observed in this %s run"
                  % (e["name"], prop, tier))

    if dump:
        with open(dump, "w") as fh:
            json.dump([{"id": fid, "measure": f["measure"], "detail": f["detail"]}
                       for _, f, fid in violations], fh, indent=0)
    rdir = os.path.join(VERIF, "replays", prop)
    written = 0
    for case_id, f, fid in violations:
        if written < MAX_REPLAY_FILES:
            os.makedirs(rdir, exist_ok=True)
            name = hashlib.sha1(fid.encode()).hexdigest()[:12] + ".json"
            path = os.path.join(rdir, name)
            with open(path, "w") as fh:
                json.dump({"property": prop, "case_id": case_id, "tier": tier,
                           "params": _js_params(by_id[case_id].params),
                           "failure": f, "full_id": fid}, fh, indent=1)
            written += 1
            print("VIOLATION property=%s replay=%s" % (prop, path))
            print("  case=%s clause=%s sub=%s measure=%s tol=%s\n  detail=%s" % (
                case_id, f["clause"], f["sub"], f["measure"], f["tol"],
                str(f["detail"])[:600]))
    if len(violations) > written:
        print("VIOLATION property=%s replay=%s (and %d more failing cases not written out)"
              % (prop, rdir, len(violations) - written))

    # ------------------------------------------------------------------ evidence
    nontrivial = sum(1 for cid in results if cid in by_id and by_id[cid].nontrivial)
    nontrivial += total.stats.pop("nontrivial", 0)
    evaluations = sum(c[0] for c in total.clauses.values())
    rot = random.Random(seed)
    sample_ids = [c.id for c in cases]
    rot.shuffle(sample_ids)
    samples = []
    for cid in sample_ids[:4]:
        o = results[cid]
        samples.append({"case_id": cid, "params": _js_params(by_id[cid].params),
                        "clauses": {k: {"n": v[0], "worst": _js(v[1]), "tol": _js(v[2])}
                                    for k, v in o.clauses.items()},
                        "notes": o.notes, "failed": len(o.failures)})
    coverage = {
        "evaluations": evaluations,
        "distinct_nontrivial": nontrivial,
        "rule": getattr(mod, "RULE", ""),
        "samples": samples,
        "exhaustive": not total.stats.get("caps_hit", 0),
        "cases": len(cases),
        "clauses": {k: {"checked": v[0], "worst_measure": _js(v[1]), "tolerance": _js(v[2])}
                    for k, v in sorted(total.clauses.items())},
        "distinct_outcomes": len(total.outcomes),
        "caps_hit": total.stats.get("caps_hit", 0),
        "known_findings_observed": {k: len(v) for k, v in known_hit.items()},
        "slowest_cases_s": sorted(((round(t, 2), c) for c, t in times.items()), reverse=True)[:3],
    }
    for k, v in total.stats.items():
        if k not in coverage:
            coverage[k] = v
    if total.notes:
        coverage["observations"] = total.notes
    if hasattr(mod, "BOUNDS"):
        coverage["bounds"] = _js(mod.BOUNDS(tier))
    if hasattr(mod, "coverage_extra"):
        coverage.update(_js(mod.coverage_extra(tier, results)))
    level = getattr(mod, "LEVEL", "exploration")
    if level == "model_checking":
        for k in ("states", "transitions", "traces_validated_against_impl"):
            coverage.setdefault(k, 0)
    ev = {
        "property_id": prop, "tier": tier, "seed": seed, "level": level,
        "coverage": coverage,
        "assumptions": list(getattr(mod, "ASSUMPTIONS", [])),
        "wall_s": round(time.time() - t_start, 2),
        "violations": len(violations),
        "technique": getattr(mod, "TECHNIQUE", ""),
        "repo": repo.REPO,
    }
    os.makedirs(os.path.join(VERIF, "evidence"), exist_ok=True)
    evpath = os.path.join(VERIF, "evidence", prop + ".json")
    with open(evpath + ".tmp", "w") as fh:
        json.dump(ev, fh, indent=1, sort_keys=True)
    os.replace(evpath + ".tmp", evpath)

    print("%s tier=%s seed=%d cases=%d evaluations=%d nontrivial=%d outcomes=%d "
          "violations=%d known=%d wall=%.1fs" % (
              prop, tier, seed, len(cases), evaluations, nontrivial, len(total.outcomes),
              len(violations), sum(len(v) for v in known_hit.values()), time.time() - t_start))
    if verbose:
        for k, v in sorted(total.clauses.items()):
            print("   clause %-34s n=%-9d worst=%s tol=%s" % (k, v[0], v[1], v[2]))
        for k, v in sorted(total.stats.items()):
            print("   stat   %-34s %d" % (k, v))
    if diverged:
        # The failing ids of a case differ between the worker that ran it and a fresh process.  The harness
        # owns its own nondeterminism (no clocks, no sampling), so this means the library's answer depends on
        # what ran earlier in the same process - hidden state, itself a defect; the violations stand.
        print("NOTE verdict of %d case(s) depends on process history (hidden state in the library?): %s"
              % (len(diverged), [d[0] for d in diverged[:3]]))
    return 1 if violations else 0


def _js_params(p):
    return _js(p)


def _replay(mod, path):
    with open(path) as f:
        rec = json.load(f)
    prop = rec["property"]
    # parameters are re-derived from the enumeration (ids are stable) so that
    # non-JSON parameter values (arrays) need not be serialised
    params = None
    for tier in (rec.get("tier", "quick"), "quick", "thorough"):
        for c in mod.cases(tier):
            if c.id == rec["case_id"]:
                params = c.params
                break
        if params is not None:
            break
    if rec["case_id"] == "__finalize__":
        print("replay: cross-case clause; re-run the whole check instead")
        return 2
    if params is None:
        print("replay: case id %s not enumerated by %s" % (rec["case_id"], prop))
        return 2
    if hasattr(mod, "replay_one"):
        # plain re-execution of exactly the recorded schedule / history, without the explorer
        obs = [mod.replay_one(params, rec["failure"]) for _ in range(2)]
        if obs[0] != obs[1]:
            print("HARNESS-ERROR replay not deterministic: %s vs %s" % (obs[0], obs[1]))
            return 2
        still, what = obs[0]
        print("replay %s: case=%s clause=%s sub=%s -> %s\n  %s" % (
            prop, rec["case_id"], rec["failure"]["clause"], rec["failure"]["sub"], "FAILS" if still else "passes", what))
        if still:
            print("VIOLATION property=%s replay=%s" % (prop, path))
            return 1
        return 0
    runs = []
    for _ in range(2):
        _, out, _ = _eval_one((rec["case_id"], params))
        runs.append(sorted(full_id(rec["case_id"], f) for f in out.failures))
    if runs[0] != runs[1]:
        print("HARNESS-ERROR replay not deterministic")
        return 2
    want = rec["full_id"]
    still = want in runs[0]
    print("replay %s: case=%s clause=%s -> %s" % (
        prop, rec["case_id"], rec["failure"]["clause"], "FAILS" if still else "passes"))
    for f in out.failures:
        if full_id(rec["case_id"], f) == want:
            print("  measure=%s tol=%s detail=%s" % (f["measure"], f["tol"], str(f["detail"])[:800]))
    if still:
        print("VIOLATION property=%s replay=%s" % (prop, path))
        return 1
    return 0


def main(argv=None):
    import argparse
    ap = argparse.ArgumentParser(prog="check")
    ap.add_argument("property")
    ap.add_argument("--tier", default=os.environ.get("VERIF_TIER") or "quick",
                    choices=["quick", "thorough"])
    ap.add_argument("--replay")
    ap.add_argument("--only", help="substring filter on case ids (debugging)")
    ap.add_argument("--jobs", type=int)
    ap.add_argument("-v", "--verbose", action="store_true")
    ap.add_argument("--dump-failures", help="write every unlisted failing id to this JSON file")
    a = ap.parse_args(argv)
    seed = int(os.environ.get("VERIF_SEED", "0") or 0)
    if VERIF not in sys.path:
        sys.path.insert(0, VERIF)
    rc = run_check(a.property, a.tier, seed, replay=a.replay, only=a.only, jobs=a.jobs,
                   verbose=a.verbose, dump=a.dump_failures)
    sys.stdout.flush()
    return rc
