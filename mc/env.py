"""E5 - owned environment answers.

SeqGenerator: numpy.random.default_rng(x) passes only real numpy.random.Generator
instances through, so the draw-injection double subclasses Generator.  Its .normal()
returns preset values (consumed in call order) and logs every request, which lets a check
push every unit draw vector through code that is linear in its Gaussian draws.

choice_oracle: context manager replacing numpy.random.choice by a scripted answer list.
"""
import contextlib
import numpy


class SeqGenerator(numpy.random.Generator):
    """Generator whose normal() answers come from `values` (flat, in call order).
    After the preset values are exhausted it returns zeros.  Any other distribution
    method raises, so an unexpected source of randomness is a hard error."""

    def __new__(cls, values=()):
        return super().__new__(cls, numpy.random.PCG64(0))

    def __init__(self, values=()):
        super().__init__(numpy.random.PCG64(0))
        self._values = numpy.asarray(values, dtype=float).reshape(-1)
        self._pos = 0
        self.calls = []          # list of requested sizes

    def normal(self, loc=0.0, scale=1.0, size=None):
        shape = () if size is None else (tuple(size) if numpy.iterable(size) else (int(size),))
        n = int(numpy.prod(shape)) if shape else 1
        self.calls.append(shape)
        out = numpy.zeros(n)
        take = self._values[self._pos:self._pos + n]
        out[:len(take)] = take
        self._pos += n
        out = loc + scale * out
        return out.reshape(shape) if shape else float(out[0])

    def standard_normal(self, size=None, dtype=numpy.float64, out=None):
        return self.normal(size=size)

    @property
    def consumed(self):
        return self._pos

    def _forbidden(self, *a, **k):
        raise RuntimeError("unexpected random source used on a SeqGenerator")

    random = uniform = integers = choice = permutation = shuffle = _forbidden


def unit_draws(n, k, value=1.0):
    v = numpy.zeros(n)
    v[k] = value
    return SeqGenerator(v)


@contextlib.contextmanager
def choice_oracle(answers):
    """numpy.random.choice(a, size, replace) -> next scripted answer (validated against the
    request).  Records the requests in `log`."""
    log = []
    it = iter(answers)
    orig = numpy.random.choice

    def fake(a, size=None, replace=True, p=None):
        ans = next(it)
        log.append({"a": numpy.asarray(a).tolist() if numpy.iterable(a) else int(a),
                    "size": size, "replace": replace})
        return numpy.array(ans, dtype=int)
    numpy.random.choice = fake
    try:
        yield log
    finally:
        numpy.random.choice = orig


def rng_state_digest():
    """digest of NumPy's global RandomState (part of every explicit state)"""
    from .core import digest
    st = numpy.random.get_state()
    return digest([st[0], st[1], st[2], st[3], st[4]])
