"""E5 - owned environment answers.

SeqGenerator: numpy.random.default_rng(x) passes only real numpy.random.Generator
instances through, so the draw-injection double subclasses Generator.  Its .normal()
returns preset values (consumed in call order) and logs every request, which lets a check
push every unit draw vector through code that is linear in its Gaussian draws.

choice_oracle: context manager replacing numpy.random.choice by a scripted answer list.
"""
import contextlib
import numpy


# number of times code of the library under test reached around a scripted generator (took its bit generator to build
# another generator from it): the draws it then makes are real random numbers, not the scripted ones, so whatever a
# draw-injection clause concludes in that case is not claimed (mc/core.py compares this counter around each case)
SEAM_BYPASSED = [0]


def _called_from_library():
    import sys
    try:
        from . import repo
        root = repo.REPO.rstrip("/") + "/"
        f = sys._getframe(2)
        return f.f_code.co_filename.startswith(root)
    except Exception:
        return False


class SeqGenerator(numpy.random.Generator):
    """Generator whose normal() answers come from `values` (flat, in call order).
    After the preset values are exhausted it returns zeros.  Any other distribution
    method raises, so an unexpected source of randomness is a hard error."""

    def __new__(cls, values=(), _share=None):
        return super().__new__(cls, numpy.random.PCG64(0))

    def __init__(self, values=(), _share=None):
        super().__init__(numpy.random.PCG64(0))
        if _share is None:
            self._values = numpy.asarray(values, dtype=float).reshape(-1)
            self._state = {"pos": 0}
            self.calls = []          # list of requested sizes
        else:                        # a spawned child: same preset stream, same cursor, same request log
            self._values, self._state, self.calls = _share._values, _share._state, _share.calls

    @property
    def bit_generator(self):
        if _called_from_library():
            SEAM_BYPASSED[0] += 1
        return numpy.random.Generator.bit_generator.__get__(self)

    @property
    def _pos(self):
        return self._state["pos"]

    @_pos.setter
    def _pos(self, v):
        self._state["pos"] = v

    def normal(self, loc=0.0, scale=1.0, size=None):
        shape = () if size is None else (tuple(size) if numpy.iterable(size) else (int(size),))
        n = int(numpy.prod(shape)) if shape else 1
        self.calls.append(shape)
        out = numpy.zeros(n)
        take = self._values[self._pos:self._pos + n]
        out[:len(take)] = take
        self._pos += n
        out = loc + scale * out
        return out.reshape(shape) if shape else float(out[0])

    def standard_normal(self, size=None, dtype=numpy.float64, out=None):
        if out is not None:
            # numpy fills `out` (C order) and returns it
            vals = self.normal(size=out.shape)
            out[...] = numpy.asarray(vals).reshape(out.shape)
            return out
        r = self.normal(size=size)
        if numpy.dtype(dtype) != numpy.float64:
            r = numpy.asarray(r, dtype=dtype) if size is not None else numpy.dtype(dtype).type(r)
        return r

    def spawn(self, n_children):
        """children of a scripted generator are scripted too: they continue the parent's preset stream in the
        order in which they are asked (independent child streams are a property of the real bit generators; for
        code that is linear in its draws only WHICH draws are consumed matters, and that is logged)"""
        return [SeqGenerator(_share=self) for _ in range(int(n_children))]

    @property
    def consumed(self):
        return self._pos

    def _forbidden(self, *a, **k):
        # a library that draws through another distribution method (e.g. exponential modulus and uniform phase
        # instead of two normals - the same ensemble) is outside the reach of the scripted draws: the instrument
        # does not apply, which is said (SEAM_BYPASSED: the runner does not claim this case's failures) and is
        # no verdict on the library
        SEAM_BYPASSED[0] += 1
        raise RuntimeError("unexpected random source used on a SeqGenerator")


# every public drawing method of numpy's Generator that is not scripted above is refused in the same way (methods
# that were left to the real PCG64(0) underneath would silently mix real draws into a scripted run)
for _name in dir(numpy.random.Generator):
    if _name.startswith("_") or _name in ("normal", "standard_normal", "spawn", "bit_generator"):
        continue
    if callable(getattr(numpy.random.Generator, _name, None)):
        setattr(SeqGenerator, _name, SeqGenerator._forbidden)
del _name


def unit_draws(n, k, value=1.0):
    v = numpy.zeros(n)
    v[k] = value
    return SeqGenerator(v)


@contextlib.contextmanager
def choice_oracle(answers):
    """numpy.random.choice(a, size, replace) -> next scripted answer (validated against the
    request).  Records the requests in `log`."""
    log = []
    it = iter(answers)
    orig = numpy.random.choice

    def fake(a, size=None, replace=True, p=None):
        ans = next(it)
        log.append({"a": numpy.asarray(a).tolist() if numpy.iterable(a) else int(a),
                    "size": size, "replace": replace})
        return numpy.array(ans, dtype=int)
    numpy.random.choice = fake
    try:
        yield log
    finally:
        numpy.random.choice = orig


def rng_state_digest():
    """digest of NumPy's global RandomState (part of every explicit state)"""
    from .core import digest
    st = numpy.random.get_state()
    return digest([st[0], st[1], st[2], st[3], st[4]])
