#!/venv/bin/python
"""Regenerates MANIFEST.json from the metadata of the check modules (checks/Cxx.py) and
validates it against the schema.  Properties without a check module are listed under
not_applicable with the reason recorded in NOT_CLAIMED below."""
import importlib
import json
import os
import sys

VERIF = os.path.dirname(os.path.dirname(os.path.abspath(__file__)))
sys.path.insert(0, VERIF)

NOT_CLAIMED = {}
DEFAULT_REASON = ("check not built yet in this revision of /verif (bounded exhaustive "
                  "formulation planned, see DESIGN.md section 2)")

BASELINE = ("cd /repo && AOTOOLS_VERIF= /venv/bin/python -m pytest -ra -q -p no:cacheprovider "
            "--timeout=900 --continue-on-collection-errors")

ENGINES = [
    {"name": "E1-product-enumeration", "path": "mc/core.py",
     "kind_free_text": "complete enumeration of Cartesian products of small alphabets, 16 forked workers"},
    {"name": "E2-basis-exhaustion", "path": "mc/linear.py",
     "kind_free_text": "full operator extraction of linear maps from all unit inputs"},
    {"name": "E3-explicit-state-history-search", "path": "mc/statespace.py",
     "kind_free_text": "BFS/DFS over operation histories on live objects with canonical state hashing"},
    {"name": "E4-schedule-exploration", "path": "mc/sched.py",
     "kind_free_text": "all completion orders of a k-worker FIFO pool under a controlled pool; real-pool replay; TLC cross-check"},
    {"name": "E5-environment-answers", "path": "mc/env.py",
     "kind_free_text": "all answers of intercepted seams (numpy.random.choice subsets, Generator draws)"},
]


def main():
    props = [json.loads(l) for l in open(os.path.join(VERIF, "properties.jsonl")) if l.strip()]
    checks, na = [], []
    serves = {}
    for p in props:
        pid = p["id"]
        enabled = set(open(os.path.join(VERIF, "checks", "ENABLED")).read().split())
        if pid not in enabled or not os.path.exists(os.path.join(VERIF, "checks", pid + ".py")):
            na.append({"property_id": pid, "reason": NOT_CLAIMED.get(pid, DEFAULT_REASON)})
            continue
        os.environ.setdefault("AOTOOLS_REPO", "/repo")
        m = importlib.import_module("checks." + pid)
        for e in getattr(m, "ENGINES", ["E1-product-enumeration"]):
            serves.setdefault(e, []).append(pid)
        checks.append({
            "property_id": pid,
            "quick_cmd": "./check %s --tier quick" % pid,
            "thorough_cmd": "./check %s --tier thorough" % pid,
            "evidence_file": "/verif/evidence/%s.json" % pid,
            "replay_cmd_template": "./check %s --replay {path}" % pid,
            "engine": "+".join(getattr(m, "ENGINES", ["E1-product-enumeration"])),
            "level_claimed": {"category": m.LEVEL, "text": m.LEVEL_TEXT,
                              "design_ref": "DESIGN.md section 2, " + pid},
            "level_note": m.LEVEL_NOTE,
            "technique": m.TECHNIQUE,
        })
    engines = []
    for e in ENGINES:
        e = dict(e)
        e["serves_properties"] = serves.get(e["name"], [])
        engines.append(e)
    man = {
        "version": 1,
        "setup_cmd": "./setup.sh",
        "hooks": {
            "guard": "AOTOOLS_VERIF",
            "enable": "no source hooks exist: every seam is reached from outside (process pools and executors redirected by mc/sched.patched_pools / patched_executors whatever the import style, scripted numpy.random.Generator objects passed through the documented seed parameters, the draw primitives of NumPy's global RandomState intercepted generically, sys.settrace for the single-preemption observations); checks import /repo's working tree directly with AOTOOLS_VERIF=1 set",
            "baseline_off_cmd": BASELINE,
            "source_commits": [],
            "add_only": True,
        },
        "engines": engines,
        "checks": checks,
        "not_applicable": na,
        "notes": "All checks: `./check Cxx --tier quick|thorough`; exit 0 / exit 1 + VIOLATION line; "
                 "known findings in findings/known_findings.json; see DESIGN.md.",
    }
    path = os.path.join(VERIF, "MANIFEST.json")
    with open(path, "w") as f:
        json.dump(man, f, indent=1)
    try:
        import jsonschema
        jsonschema.validate(man, json.load(open("/root/.vp/MANIFEST.schema.json")))
        print("MANIFEST.json valid: %d checks, %d not_applicable" % (len(checks), len(na)))
    except ImportError:
        print("MANIFEST.json written (jsonschema not importable here): %d checks" % len(checks))


if __name__ == "__main__":
    main()
