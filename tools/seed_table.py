#!/venv/bin/python
"""markdown table of the kept seeded defects (seeded/<id>/meta.json)"""
import glob, json, os
V = os.path.dirname(os.path.dirname(os.path.abspath(__file__)))
rows = []
for d in sorted(glob.glob(os.path.join(V, "seeded", "*"))):
    try:
        m = json.load(open(os.path.join(d, "meta.json")))
    except Exception:
        continue
    v = m.get("verification", {})
    chk = v.get("checks", {})
    caught = [c for c, r in chk.items() if r["exit"] == 1 and r["violation_lines"] > 0]
    first = ""
    for c in caught:
        f = chk[c].get("first") or []
        if f:
            first = f[0].split("clause=")[1].split(" ")[0] if "clause=" in f[0] else ""
            break
    need = str(m.get("needs_to_manifest", ""))[:110].replace("|", "/").replace("\n", " ")
    rows.append("| %s | %s | %s | %s | %s |" % (
        os.path.basename(d), "yes" if v.get("tests_pass") and v.get("demo_ok") else "NO",
        need, ",".join(caught) if caught else "**missed**", first))
print("| seed | verified (suite green, demo fails/passes) | needs to manifest | caught by (quick tier) | first failing clause |")
print("|---|---|---|---|---|")
print("\n".join(rows))
