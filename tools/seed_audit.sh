#!/bin/sh
# Re-runs every kept seeded defect against the current checks (quick tier): the patch must apply to /repo HEAD, its
# demonstration must fail with / pass without it, and the check of its property must report a VIOLATION.
# usage: tools/seed_audit.sh [jobs]   -> writes seeded/AUDIT.md ; scratch worktrees live under $TMPDIR and are removed
cd "$(dirname "$0")/.." || exit 2
J=${1:-4}
OUT=$(mktemp -d)
ls -d seeded/C*/ | sed 's#/$##' | xargs -P "$J" -I{} sh -c '/venv/bin/python tools/seed_verify.py {} --skip-tests > '"$OUT"'/$(basename {}).json 2>/dev/null'
/venv/bin/python - "$OUT" <<'PY'
import json, glob, os, sys, re
oos = set(re.findall(r"^\| (C\d\d-[\w-]+) \|", open("seeded/OUT_OF_SCOPE.md").read(), re.M)) if os.path.exists("seeded/OUT_OF_SCOPE.md") else set()
rows, bad = [], 0
for f in sorted(glob.glob(os.path.join(sys.argv[1], "*.json"))):
    name = os.path.basename(f)[:-5]
    try:
        r = json.load(open(f))
    except Exception:
        rows.append((name, "unparsed", "", ""))
        bad += 1
        continue
    ok = r.get("applies") and r.get("demo_ok") and r.get("caught")
    if name in oos and r.get("applies") and r.get("demo_ok"):
        rows.append((name, "out of scope", "applies=True demo=True caught=%s (deliberately not reported, see OUT_OF_SCOPE.md)" % r.get("caught"), ""))
        continue
    bad += 0 if ok else 1
    c = list(r.get("checks", {}).values())
    first = (c[0].get("first") or [""])[0][:110] if c else ""
    rows.append((name, "ok" if ok else "PROBLEM", "applies=%s demo=%s caught=%s" % (r.get("applies"), r.get("demo_ok"), r.get("caught")), first))
with open("seeded/AUDIT.md", "w") as f:
    f.write("# Audit of the kept seeded defects against the current checks (quick tier, /repo HEAD %s)\n\n" % os.popen("git -C /repo rev-parse --short HEAD").read().strip())
    f.write("%d seeds, %d problems\n\n| seed | status | detail | first violation reported |\n|---|---|---|---|\n" % (len(rows), bad))
    for r in rows:
        f.write("| %s | %s | %s | %s |\n" % r)
print("%d seeds, %d problems" % (len(rows), bad))
PY
rm -rf "$OUT"
