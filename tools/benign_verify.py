#!/venv/bin/python
"""Verify one behaviour-preserving change (patch.diff, why.md, meta.json) and run the checks against it: the patch
must apply to /repo HEAD, the repository's test suite must still pass, and EVERY check that looks at a changed file
must stay silent (exit 0, no VIOLATION line) - a violation here is a false alarm of the machinery.

  tools/benign_verify.py <dir> [--keep-as <id>] [--checks C01,C02] [--skip-tests]
"""
import argparse, json, os, shutil, subprocess, sys, tempfile

VERIF = os.path.dirname(os.path.dirname(os.path.abspath(__file__)))
BY_FILE = {
    "aotools/turbulence/slopecovariance.py": ["C01", "C02", "C03", "C08", "C19", "C20"],
    "aotools/turbulence/infinitephasescreen.py": ["C04", "C05", "C06", "C20"],
    "aotools/turbulence/phasescreen.py": ["C04", "C05", "C06", "C07", "C08", "C19", "C20"],
    "aotools/turbulence/turb.py": ["C04", "C05", "C08", "C20"],
    "aotools/fouriertransform.py": ["C07", "C09", "C10", "C11", "C20"],
    "aotools/opticalpropagation.py": ["C10", "C11", "C20"],
    "aotools/functions/zernike.py": ["C12", "C20"],
    "aotools/functions/karhunenLoeve.py": ["C08", "C13", "C20"],
    "aotools/functions/pupil.py": ["C12", "C14", "C16", "C20"],
    "aotools/functions/_functions.py": ["C20"],
    "aotools/wfs/wfslib.py": ["C14", "C20"],
    "aotools/image_processing/centroiders.py": ["C15", "C20"],
    "aotools/image_processing/contrast.py": ["C20"],
    "aotools/image_processing/psf.py": ["C16", "C20"],
    "aotools/interpolation.py": ["C16", "C20"],
    "aotools/turbulence/atmos_conversions.py": ["C17", "C20"],
    "aotools/astronomy/_astronomy.py": ["C17", "C20"],
    "aotools/turbulence/profile_compression.py": ["C06", "C18", "C20"],
    "aotools/turbulence/temporal_ps.py": ["C19", "C20"],
}


def run(cmd, **kw):
    return subprocess.run(cmd, capture_output=True, text=True, **kw)


def main():
    ap = argparse.ArgumentParser()
    ap.add_argument("dir")
    ap.add_argument("--keep-as")
    ap.add_argument("--checks")
    ap.add_argument("--skip-tests", action="store_true")
    a = ap.parse_args()
    d = os.path.abspath(a.dir)
    meta = json.load(open(os.path.join(d, "meta.json")))
    tmp = tempfile.mkdtemp(prefix="benignv_")
    wt = os.path.join(tmp, "repo")
    rec = {"property": meta.get("property"), "dir": d,
           "repo_head": run(["git", "-C", "/repo", "rev-parse", "--short", "HEAD"]).stdout.strip()}
    try:
        subprocess.run(["git", "-C", "/repo", "worktree", "add", "-q", "--detach", wt, "HEAD"], check=True)
        r = run(["git", "-C", wt, "apply", "--whitespace=nowarn", os.path.join(d, "patch.diff")])
        rec["applies"] = r.returncode == 0
        if not rec["applies"]:
            rec["apply_error"] = r.stderr[-300:]
            print(json.dumps(rec, indent=1))
            return 2
        files = run(["git", "-C", wt, "diff", "--name-only"]).stdout.split()
        rec["files_changed"] = files
        rec["diffstat"] = run(["git", "-C", wt, "diff", "--stat"]).stdout.strip().splitlines()[-1:]
        if not a.skip_tests:
            t = run(["/venv/bin/python", "-m", "pytest", "-q", "-p", "no:cacheprovider", "--timeout=900"], cwd=wt,
                    env=dict(os.environ, PYTHONDONTWRITEBYTECODE="1"))
            rec["tests"] = t.stdout.strip().splitlines()[-1] if t.stdout.strip() else t.stderr[-200:]
            rec["tests_pass"] = t.returncode == 0
        checks = a.checks.split(",") if a.checks else sorted(set([meta.get("property")] + [c for f in files for c in BY_FILE.get(f, ["C20"])]))
        rec["checks"] = {}
        silent = True
        for c in checks:
            p = run([os.path.join(VERIF, "check"), c, "--tier", "quick"], cwd=VERIF, env=dict(os.environ, AOTOOLS_REPO=wt))
            lines = p.stdout.splitlines()
            viol = [l for l in lines if l.startswith("VIOLATION")]
            first = [l.strip() for l in lines if l.strip().startswith("case=")][:3]
            rec["checks"][c] = {"exit": p.returncode, "violation_lines": len(viol), "first": first,
                                "summary": [l for l in lines if "tier=quick" in l][-1:]}
            if p.returncode != 0 or viol:
                silent = False
        rec["all_checks_silent"] = silent
    finally:
        subprocess.run(["git", "-C", "/repo", "worktree", "remove", "--force", wt])
        shutil.rmtree(tmp, ignore_errors=True)
    # the runs above rewrote evidence files from a patched tree: the caller regenerates evidence afterwards
    if a.keep_as:
        dest = os.path.join(VERIF, "benign", a.keep_as)
        os.makedirs(dest, exist_ok=True)
        for f in ("patch.diff", "why.md"):
            if os.path.exists(os.path.join(d, f)):
                shutil.copy(os.path.join(d, f), os.path.join(dest, f))
        meta["verification"] = rec
        json.dump(meta, open(os.path.join(dest, "meta.json"), "w"), indent=1)
    print(json.dumps(rec, indent=1))
    return 0 if rec.get("all_checks_silent") and rec.get("tests_pass", True) else 1


if __name__ == "__main__":
    sys.exit(main())
