#!/opt/veriftools/pyvenv/bin/python
"""validate every evidence/<id>.json against the evidence schema and MANIFEST.json against its schema"""
import glob, json, os, sys
import jsonschema
V = os.path.dirname(os.path.dirname(os.path.abspath(__file__)))
es = json.load(open("/root/.vp/EVIDENCE.schema.json"))
ms = json.load(open("/root/.vp/MANIFEST.schema.json"))
man = json.load(open(os.path.join(V, "MANIFEST.json")))
jsonschema.validate(man, ms)
bad = 0
levels = {c["property_id"]: c["level_claimed"]["category"] for c in man["checks"]}
for f in sorted(glob.glob(os.path.join(V, "evidence", "C*.json"))):
    ev = json.load(open(f))
    try:
        jsonschema.validate(ev, es)
        pid = ev["property_id"]
        note = ""
        if levels.get(pid) != ev["level"]:
            note = " LEVEL MISMATCH manifest=%s" % levels.get(pid); bad += 1
        c = ev["coverage"]
        print("%s ok level=%s tier=%s eval=%s nontriv=%s states=%s trans=%s traces=%s viol=%s wall=%s%s" % (
            pid, ev["level"], ev["tier"], c.get("evaluations"), c.get("distinct_nontrivial"), c.get("states"),
            c.get("transitions"), c.get("traces_validated_against_impl"), ev.get("violations"), ev["wall_s"], note))
    except jsonschema.ValidationError as e:
        bad += 1
        print("%s INVALID: %s" % (os.path.basename(f), e.message[:200]))
sys.exit(1 if bad else 0)
