#!/bin/sh
# For every "fixed" entry of findings/known_findings.json: check out the parent of the fix commit into a scratch
# worktree (outside /repo and /verif), run the property's quick check against it and expect a VIOLATION;
# then remove the worktree.  Demonstrates that each repaired defect is detected if it returns.
# usage: tools/verify_fixes.sh [property-id ...]
cd "$(dirname "$0")/.." || exit 2
/venv/bin/python - "$@" <<'PY'
import json, subprocess, sys, tempfile, shutil, os
want = set(sys.argv[1:])
F = json.load(open("findings/known_findings.json"))["findings"]
rc = 0
for e in F:
    if e.get("status") != "fixed":
        continue
    if want and e["property"] not in want:
        continue
    for commit in e["commit"].split(","):
        tmp = tempfile.mkdtemp(prefix="verify_fix_")
        wt = os.path.join(tmp, "repo")
        subprocess.run(["git", "-C", "/repo", "worktree", "add", "-q", "--detach", wt, commit + "^"], check=True)
        try:
            env = dict(os.environ, AOTOOLS_REPO=wt)
            p = subprocess.run(["./check", e["property"], "--tier", "quick"], env=env, capture_output=True, text=True)
            n = sum(1 for l in p.stdout.splitlines() if l.startswith("VIOLATION"))
            ok = p.returncode == 1 and n > 0
            print("%-4s %-48s before %s: exit=%d VIOLATION lines=%d -> %s" % (
                e["property"], e["name"], commit, p.returncode, n, "detected" if ok else "NOT DETECTED"))
            if not ok:
                rc = 1
        finally:
            subprocess.run(["git", "-C", "/repo", "worktree", "remove", "--force", wt])
            shutil.rmtree(tmp, ignore_errors=True)
sys.exit(rc)
PY
