#!/bin/sh
# usage: tools/mutant_try.sh <check ids, comma separated> <python-snippet-file that edits files relative to scratch repo> [test files]
# Applies an ad-hoc mutation to a scratch copy of /repo, runs the repo tests given, then the checks against it.
IDS="$1"; SNIP="$2"; shift 2
S=$(mktemp -d /tmp/mutant_XXXX)
cp -r /repo/. "$S/" && cd "$S" && /venv/bin/python "$SNIP" || { echo "mutation failed"; rm -rf "$S"; exit 2; }
git -C "$S" diff --stat | tail -1
if [ -n "$*" ]; then /venv/bin/python -m pytest -q -p no:cacheprovider --timeout=900 "$@" 2>&1 | tail -1; fi
cd /verif
for id in $(echo "$IDS" | tr , ' '); do
  AOTOOLS_REPO="$S" ./check "$id" 2>&1 | grep -E "^VIOLATION|^$id tier" | head -3
done
rm -rf "$S"
