#!/venv/bin/python
"""Verify one seeded defect directory (patch.diff, demo.py, meta.json) and run the checks against it.

  tools/seed_verify.py <seed-dir> [--tier quick|thorough] [--checks C01,C20] [--keep-as <id>]

Steps (all in a scratch worktree of /repo outside /repo and /verif, removed afterwards):
  1. patch applies to a clean checkout of /repo HEAD
  2. the repository's whole test suite still passes with the patch (same count as without)
  3. demo.py fails with the patch and passes without it
  4. the registered check(s) of the property are run with AOTOOLS_REPO pointing at the patched tree
With --keep-as the seed is copied to /verif/seeded/<id>/ with the verification record in meta.json.
"""
import argparse, json, os, shutil, subprocess, sys, tempfile, time

VERIF = os.path.dirname(os.path.dirname(os.path.abspath(__file__)))


def run(cmd, **kw):
    return subprocess.run(cmd, capture_output=True, text=True, **kw)


def main():
    ap = argparse.ArgumentParser()
    ap.add_argument("seed")
    ap.add_argument("--tier", default="quick")
    ap.add_argument("--checks")
    ap.add_argument("--keep-as")
    ap.add_argument("--skip-tests", action="store_true")
    a = ap.parse_args()
    seed = os.path.abspath(a.seed)
    meta = json.load(open(os.path.join(seed, "meta.json")))
    prop = meta["property"]
    checks = a.checks.split(",") if a.checks else [prop]
    tmp = tempfile.mkdtemp(prefix="seedv_")
    wt = os.path.join(tmp, "repo")
    rec = {"property": prop, "seed": seed, "repo_head": run(["git", "-C", "/repo", "rev-parse", "--short", "HEAD"]).stdout.strip()}
    try:
        subprocess.run(["git", "-C", "/repo", "worktree", "add", "-q", "--detach", wt, "HEAD"], check=True)
        r = run(["git", "-C", wt, "apply", "--whitespace=nowarn", os.path.join(seed, "patch.diff")])
        rec["applies"] = r.returncode == 0
        if not rec["applies"]:
            rec["apply_error"] = r.stderr[-400:]
            print(json.dumps(rec, indent=1))
            return 2
        rec["diffstat"] = run(["git", "-C", wt, "diff", "--stat"]).stdout.strip().splitlines()[-1:]
        if not a.skip_tests:
            t = run(["/venv/bin/python", "-m", "pytest", "-q", "-p", "no:cacheprovider", "--timeout=900"], cwd=wt,
                    env=dict(os.environ, PYTHONDONTWRITEBYTECODE="1"))
            rec["tests"] = t.stdout.strip().splitlines()[-1] if t.stdout.strip() else t.stderr[-200:]
            rec["tests_pass"] = t.returncode == 0
        demo = os.path.join(seed, "demo.py")
        env = dict(os.environ, PYTHONDONTWRITEBYTECODE="1", PYTHONWARNINGS="ignore")
        d1 = run(["/venv/bin/python", demo, wt], cwd=tmp, env=env, timeout=900)
        d0 = run(["/venv/bin/python", demo, "/repo"], cwd=tmp, env=env, timeout=900)
        rec["demo_with_change_exit"] = d1.returncode
        rec["demo_without_change_exit"] = d0.returncode
        rec["demo_ok"] = d1.returncode != 0 and d0.returncode == 0
        if d0.returncode != 0:
            rec["demo_clean_output"] = (d0.stdout + d0.stderr)[-300:]
        rec["checks"] = {}
        for c in checks:
            t0 = time.time()
            p = run([os.path.join(VERIF, "check"), c, "--tier", a.tier], env=dict(os.environ, AOTOOLS_REPO=wt))
            viol = [l for l in p.stdout.splitlines() if l.startswith("VIOLATION")]
            first = [l.strip() for l in p.stdout.splitlines() if l.strip().startswith("case=")][:3]
            rec["checks"][c] = {"tier": a.tier, "exit": p.returncode, "violation_lines": len(viol), "first": first,
                                "wall_s": round(time.time() - t0, 1),
                                "summary": [l for l in p.stdout.splitlines() if l.startswith(c + " tier")]}
        rec["caught"] = any(v["exit"] == 1 and v["violation_lines"] > 0 for v in rec["checks"].values())
    finally:
        subprocess.run(["git", "-C", "/repo", "worktree", "remove", "--force", wt])
        shutil.rmtree(tmp, ignore_errors=True)
    print(json.dumps(rec, indent=1))
    if a.keep_as:
        dst = os.path.join(VERIF, "seeded", a.keep_as)
        os.makedirs(dst, exist_ok=True)
        for f in ("patch.diff", "demo.py"):
            shutil.copy(os.path.join(seed, f), os.path.join(dst, f))
        meta["verification"] = rec
        json.dump(meta, open(os.path.join(dst, "meta.json"), "w"), indent=1)
    return 0 if rec.get("caught") else 1


if __name__ == "__main__":
    sys.exit(main())
