---------------------------- MODULE Pool ----------------------------
(* Model of multiprocessing.Pool(K) executing N chunks queued FIFO.        *)
(* The only nondeterminism: which running chunk completes next.            *)
(* `done` is a history variable so that every completion order is a        *)
(* distinct terminal state; the state graph is dumped and compared with    *)
(* the Python explorer's enumeration (mc/sched.py all_completion_orders).  *)
EXTENDS Naturals, Sequences, FiniteSets
CONSTANTS N, K
VARIABLES next, running, done

Min(a, b) == IF a < b THEN a ELSE b

Init == /\ running = 1..Min(K, N)
        /\ next = Min(K, N) + 1
        /\ done = << >>

Complete(c) == /\ c \in running
               /\ done' = Append(done, c)
               /\ IF next <= N
                    THEN /\ running' = (running \ {c}) \cup {next}
                         /\ next' = next + 1
                    ELSE /\ running' = running \ {c}
                         /\ next' = next

Next == \E c \in running : Complete(c)

Spec == Init /\ [][Next]_<<next, running, done>>

\* safety: at most K chunks run at once; chunks are dispatched in FIFO order
AtMostK == Cardinality(running) <= K
Fifo == \A c \in running : c < next
NoLoss == Len(done) + Cardinality(running) + (N + 1 - next) = N
=====================================================================
