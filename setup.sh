#!/bin/sh
# Offline setup: nothing to build (pure Python). Verifies the interpreter and its packages.
cd "$(dirname "$0")" || exit 2
/venv/bin/python - <<'PY'
import sys
sys.path.insert(0, ".")
import numpy, scipy, numba
from mc import repo
repo.load()
print("setup ok: python %s numpy %s scipy %s numba %s; aotools from %s" % (
    sys.version.split()[0], numpy.__version__, scipy.__version__, numba.__version__, repo.REPO))
PY
